#!/venv/bin/python
"""Verify one seeded property-breaking change and (optionally) keep it.

usage: tools/seed_verify.py <dir with patch.diff, demo.py[, notes.md]> <Cxx>
                            [--keep <seed id>] [--tier quick|thorough]
                            [--also Cyy,Czz] [--fast]

Steps (all on a scratch copy of /repo's working tree, removed afterwards):
  1. demo.py passes on the unchanged copy                (exit 0)
  2. patch applies; the repository's tests do not regress (tools/repo_tests.py)
  3. demo.py fails on the changed copy                   (exit != 0)
  4. bin/check Cxx (and --also) against the changed copy: exit code, first
     VIOLATION line
With --keep the files are copied to /verif/seeded/<seed id>/ with a meta.json.
"""
import json
import os
import shutil
import subprocess
import sys
import tempfile
import time

VERIF = os.path.dirname(os.path.dirname(os.path.abspath(__file__)))


def sh(cmd, **kw):
    return subprocess.run(cmd, stdout=subprocess.PIPE, stderr=subprocess.STDOUT,
                          text=True, **kw)


def main():
    args = sys.argv[1:]
    src, prop = os.path.abspath(args[0]), args[1]
    keep = args[args.index('--keep') + 1] if '--keep' in args else None
    tier = args[args.index('--tier') + 1] if '--tier' in args else 'quick'
    also = args[args.index('--also') + 1].split(',') if '--also' in args else []
    patch = os.path.join(src, 'patch.diff')
    demo = os.path.join(src, 'demo.py')
    scratch = tempfile.mkdtemp(prefix='xlmc_seed.')
    res = {'property': prop, 'source_dir': src, 'tier': tier}
    try:
        sh(['rsync', '-a', '--exclude', '.git', '--exclude', '__pycache__',
            '/repo/', scratch + '/'])
        env = dict(os.environ, PYTHONPATH=scratch)
        r = sh(['/venv/bin/python', demo], env=env, cwd=src, timeout=600)
        res['demo_unchanged_exit'] = r.returncode
        p = sh(['patch', '-p1', '-s', '-i', patch], cwd=scratch)
        res['patch_applies'] = p.returncode == 0
        if p.returncode != 0:
            res['patch_output'] = p.stdout[-500:]
            print(json.dumps(res, indent=1))
            return 3
        if '--fast' in args:
            # regression of kept seeds: only the checks are run again
            res['repo_tests'] = res['repo_tests_regressed'] = None
            res['demo_changed_exit'] = None
        else:
            t = sh([os.path.join(VERIF, 'tools', 'repo_tests.py'), scratch])
            res['repo_tests'] = t.stdout.strip().splitlines()[:6]
            res['repo_tests_regressed'] = t.returncode != 0
            r = sh(['/venv/bin/python', demo], env=env, cwd=src, timeout=600)
            res['demo_changed_exit'] = r.returncode
            res['demo_changed_output'] = r.stdout.strip().splitlines()[-3:]
        res['checks'] = {}
        for c in [prop] + also:
            t0 = time.time()
            cenv = dict(os.environ, XLMC_REPO=scratch, XLMC_NO_EVIDENCE='1',
                        XLMC_REPLAY_DIR=os.path.join(scratch, 'replays'))
            k = sh([os.path.join(VERIF, 'bin', 'check'), c, '--tier', tier],
                   env=cenv, cwd=VERIF)
            viol = [l for l in k.stdout.splitlines()
                    if l.startswith('VIOLATION')]
            res['checks'][c] = {
                'exit': k.returncode, 'violation_lines': len(viol),
                'first': viol[0][:400] if viol else None,
                'summary': k.stdout.strip().splitlines()[-1][:300]
                if k.stdout.strip() else '', 'wall_s': round(time.time() - t0)}
        print(json.dumps(res, indent=1))
        if keep:
            dst = os.path.join(VERIF, 'seeded', keep)
            os.makedirs(dst, exist_ok=True)
            for f in ('patch.diff', 'demo.py', 'notes.md'):
                if os.path.exists(os.path.join(src, f)):
                    shutil.copy(os.path.join(src, f), os.path.join(dst, f))
            head = sh(['git', '-C', '/repo', 'rev-parse', '--short', 'HEAD'])
            meta = {
                'id': keep, 'breaks_property': prop,
                'repo_head_when_verified': head.stdout.strip(),
                'needs_to_manifest': 'see notes.md',
                'verified': {
                    'demo_on_unchanged_tree_exit': res['demo_unchanged_exit'],
                    'demo_on_changed_tree_exit': res['demo_changed_exit'],
                    'repository_tests': res['repo_tests'],
                },
                'what_i_ran': [
                    'scratch copy of /repo; python demo.py (exit %s)'
                    % res['demo_unchanged_exit'],
                    'patch -p1 < patch.diff; tools/repo_tests.py <scratch>',
                    'python demo.py (exit %s)' % res['demo_changed_exit'],
                ] + ['XLMC_REPO=<scratch> bin/check %s --tier %s -> exit %s'
                     % (c, tier, v['exit'])
                     for c, v in res['checks'].items()],
                'detected_by': {c: v['exit'] == 1
                                for c, v in res['checks'].items()},
                'first_violation': {c: v['first']
                                    for c, v in res['checks'].items()},
            }
            with open(os.path.join(dst, 'meta.json'), 'w') as fp:
                json.dump(meta, fp, indent=1)
                fp.write('\n')
        return 0
    finally:
        shutil.rmtree(scratch, ignore_errors=True)


if __name__ == '__main__':
    sys.exit(main())
