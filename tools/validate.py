#!/usr/bin/env python3-vt
"""Validate MANIFEST.json and every evidence file against the schemas."""
import glob
import json
import os
import sys

import jsonschema

VERIF = os.path.dirname(os.path.dirname(os.path.abspath(__file__)))
bad = 0
m = json.load(open(os.path.join(VERIF, 'MANIFEST.json')))
jsonschema.validate(m, json.load(open('/root/.vp/MANIFEST.schema.json')))
props = [json.loads(l)['id'] for l in open(os.path.join(VERIF, 'properties.jsonl'))]
claimed = [c['property_id'] for c in m['checks']]
na = [n['property_id'] for n in m.get('not_applicable', [])]
assert sorted(claimed + na) == sorted(props), (claimed, na)
print('MANIFEST ok: %d claimed, %d not claimed' % (len(claimed), len(na)))
es = json.load(open('/root/.vp/EVIDENCE.schema.json'))
for c in m['checks']:
    path = os.path.join(VERIF, c['evidence_file'])
    if not os.path.exists(path):
        print('MISSING', path)
        bad += 1
        continue
    ev = json.load(open(path))
    try:
        jsonschema.validate(ev, es)
        assert ev['level'] == c['level_claimed']['category'], 'level mismatch'
        print('evidence ok:', c['property_id'], ev['tier'], ev['level'],
              'evals=%s' % ev['coverage'].get('evaluations'),
              'viol=%s' % ev.get('violations'))
    except Exception as exc:  # noqa
        print('INVALID', path, str(exc)[:300])
        bad += 1
sys.exit(1 if bad else 0)
