#!/venv/bin/python
"""Run every mutants/cNN_*.diff against its property's quick check and write
mutants/RESULTS.md.   usage: tools/run_mutants.py [--tests] [--jobs=N] [prefix ...]"""
import glob
import os
import re
import shutil
import subprocess
import sys
import tempfile
import time

VERIF = os.path.dirname(os.path.dirname(os.path.abspath(__file__)))


def sh(cmd, **kw):
    return subprocess.run(cmd, stdout=subprocess.PIPE, stderr=subprocess.STDOUT,
                          text=True, **kw)


def main():
    args = sys.argv[1:]
    tests = '--tests' in args
    prefixes = [a for a in args if not a.startswith('--')]
    jobs = 1
    for a in args:
        if a.startswith('--jobs='):
            jobs = int(a.split('=')[1])
    rows = []
    files = sorted(glob.glob(os.path.join(VERIF, 'mutants', 'c*.diff')))
    files = [f for f in files if not prefixes or any(
        os.path.basename(f).startswith(p) for p in prefixes)]

    def one(path):
        name = os.path.basename(path)[:-5]
        prop = 'C' + re.match(r'c(\d+)_', name).group(1)
        scratch = tempfile.mkdtemp(prefix='xlmc_mut.')
        try:
            sh(['rsync', '-a', '--exclude', '.git', '--exclude',
                '__pycache__', '/repo/', scratch + '/'])
            p = sh(['patch', '-p1', '-s', '-i', path], cwd=scratch)
            if p.returncode != 0:
                rows.append((name, prop, 'does not apply any more', '-', '-'))
                return
            treg = '-'
            if tests:
                t = sh([os.path.join(VERIF, 'tools', 'repo_tests.py'),
                        scratch])
                m = re.search(r'regressed=(\d+)', t.stdout)
                treg = m.group(1) if m else '?'
            t0 = time.time()
            env = dict(os.environ, XLMC_REPO=scratch, XLMC_NO_EVIDENCE='1',
                       XLMC_REPLAY_DIR=os.path.join(scratch, 'replays'))
            k = sh([os.path.join(VERIF, 'bin', 'check'), prop], env=env,
                   cwd=VERIF)
            first = ''
            for line in k.stdout.splitlines():
                if line.startswith('VIOLATION'):
                    first = line.split('#', 1)[-1].strip()[:150]
                    break
            rows.append((name, prop, 'exit %d' % k.returncode, treg,
                         first.replace('|', '\\|')))
            print(name, k.returncode, treg, '%.0fs' % (time.time() - t0),
                  flush=True)
        finally:
            shutil.rmtree(scratch, ignore_errors=True)

    import concurrent.futures
    with concurrent.futures.ThreadPoolExecutor(max_workers=jobs) as pool:
        list(pool.map(one, files))
    rows.sort()
    head = sh(['git', '-C', '/repo', 'rev-parse', '--short', 'HEAD'])
    out = ['# Hand-written mutants vs. quick checks', '',
           '/repo HEAD %s; `exit 1` = the check reports a violation.  '
           '"repo tests regressed" = number of baseline tests of the '
           'repository\'s own suite that fail with the mutant (0 = the suite '
           'does not notice it).' % head.stdout.strip(), '',
           '| mutant | property | quick check | repo tests regressed | '
           'first violation |', '|---|---|---|---|---|']
    for r in rows:
        out.append('| %s | %s | %s | %s | %s |' % r)
    caught = sum(1 for r in rows if r[2] == 'exit 1')
    out += ['', '%d of %d applicable mutants caught.' % (
        caught, sum(1 for r in rows if r[2].startswith('exit')))]
    mode = 'w' if not prefixes else 'a'
    with open(os.path.join(VERIF, 'mutants', 'RESULTS.md'), mode) as fp:
        fp.write('\n'.join(out) + '\n')


if __name__ == '__main__':
    main()
