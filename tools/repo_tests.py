#!/venv/bin/python
"""Run the repository's own test suite (guard off) and compare with the
pinned baseline: every test in BASELINE.stable_pass must still pass.
usage: tools/repo_tests.py [repo_dir]      exit 0 iff no stable test regressed
"""
import json
import os
import subprocess
import sys
import tempfile
import xml.etree.ElementTree as ET

repo = os.path.realpath(sys.argv[1] if len(sys.argv) > 1 else '/repo')
base = json.load(open('/root/.vp/BASELINE.json'))
env = {k: v for k, v in os.environ.items() if k != 'XLCALCULATOR_VERIF'}
with tempfile.TemporaryDirectory() as td:
    out = os.path.join(td, 'j.xml')
    p = subprocess.run(
        ['/venv/bin/python', '-m', 'pytest', '-q', '-p', 'no:cacheprovider',
         '--timeout=900', '--continue-on-collection-errors',
         '--junitxml=' + out, '-n', '8'],
        cwd=repo, env=dict(env, PYTHONPATH=repo), stdout=subprocess.PIPE,
        stderr=subprocess.STDOUT, text=True)
    tail = p.stdout.strip().splitlines()[-1:]
    passed = set()
    for tc in ET.parse(out).getroot().iter('testcase'):
        ok = not any(c.tag in ('failure', 'error', 'skipped') for c in tc)
        if ok:
            passed.add('%s::%s' % (tc.get('classname'), tc.get('name')))
stable = set(base['stable_pass'])
lost = sorted(stable - passed)
print('pytest:', *tail)
print('passed=%d stable_pass=%d regressed=%d' % (len(passed), len(stable), len(lost)))
for t in lost[:40]:
    print('REGRESSED', t)
sys.exit(1 if lost else 0)
