#!/venv/bin/python
"""Write seeded/README.md: one row per independently seeded change, from
seeded/<id>/meta.json plus the notes below (which check first missed it and
what was strengthened)."""
import glob
import json
import os

VERIF = os.path.dirname(os.path.dirname(os.path.abspath(__file__)))

# seed id -> (one-line description, how it was first handled)
NOTES = {
    'C01-s1': ("parser forgets the precedence of a postfix % waiting on the operator stack (A1%^2)", "missed by C01 (caught by C02): C01 gained the rendering 'every leaf is a reference followed by %'"),
    'C01-s2': ("scientific-notation guard regex lost its '$' (1E+3-A1 swallows the operator)", "caught"),
    'C01-s3': ("stale stack-top operator in the shunting-yard loop (a-b^c*d)", "caught"),
    'C01-s4': ("'zero times anything is zero' short cut hides #DIV/0! in the right factor", "missed: no operand was ever 0; C01 now has 0 in its value sets"),
    'C02-s1': ("a blank before ')' of a sub-expression becomes an intersection operator", "caught (also by C01)"),
    'C02-s2': ("postfix % precedence lost on the operator stack", "caught (also by C01 after strengthening)"),
    'C02-s3': ("a text literal spelt like a defined name is replaced by the name's address", "missed: the parser was always called without names; C02 gained the 'names' family"),
    'C02-s4': ("fast path for the empty literal breaks literals starting with a doubled quote", "caught"),
    'C03-s1': ("identical formula texts share one AST whose RangeNode caches the first sheet", "caught (cross-sheet chains)"),
    'C03-s2': ("'$' stripped only from cell coordinates: $2:$2, $B:$B miss the range registry", "missed: whole-row references were refused; C03 gained the whole-row (thorough: whole-column) family"),
    'C03-s3': ("a qualified range sets the context sheet and never resets it (=SUM(Sheet2!A1:A3)+A1)", "missed: probes held one reference each; C03 gained sibling-after-range probes - which also exposed a genuine defect (empty cell inside a referenced range read as \"\", fix 9de989f)"),
    'C03-s4': ("named range on a quoted sheet looked up under the unquoted key", "caught (names family)"),
    'C04-s1': ("dirty-flag reuse whose invalidation cannot see defined names", "caught"),
    'C04-s2': ("range array reused while the members' stored values look unchanged", "caught"),
    'C04-s3': ("set_cell_value skips the write when old == new in Python (1 == True)", "missed: inputs were ints only; C04 gained the 'typed' model"),
    'C04-s4': ("evaluate() does not store error results", "missed until the 'errrange' model (added for C05) gave C04 a cell that evaluates to an error"),
    'C05-s1': ("MAX_EMPTY cut-off looks at the stored value before evaluating the cell", "missed: no range over >100 unevaluated formulas; C05 gained the 'longrange' model"),
    'C05-s2': ("FunctionNode caches the resolved function on the AST node", "missed: all evaluators had the same namespace; the third evaluator of the multi family now overrides SUM/COUNTA"),
    'C05-s4': ("ranges unknown to the model are registered (and blank cells created) on first use", "missed: needs a dict-built model on a non-default sheet; C05 gained the 'othersheet' model (differential reference)"),
    'C06-s1': ("Evaluator.evaluating set not cleaned when an evaluation fails", "missed: every evaluation used a fresh Evaluator; C06 gained shared-evaluator passes"),
    'C06-s2': ("'seen' path truncated to the last 32 cells", "caught (chains to depth 40)"),
    'C06-s3': ("KeyError re-raised with repr(): message doubles per level again", "caught (quadratic bound / shard abandoned)"),
    'C06-s4': ("RecursionError converted into CycleError", "missed: chains stopped at 40 (120); C06 gained acyclic chains of 200-400 cells under the default recursion limit"),
    'C07-s1': ("a scalar error argument beats an error inside a range to its left", "missed: two-error lists were thorough-only and never mixed range + scalar; added to the quick tier"),
    'C07-s2': ("division-by-zero guard made type sensitive (FALSE, \"0\" raise ZeroDivisionError)", "caught"),
    'C07-s3': ("ISERROR/ISERR/ISNA look at .value: the text \"#N/A\" counts as an error", "missed in quick (the text '#N/A' was a thorough-only representative); error-code texts added to the inspector tables"),
    'C07-s4': ("blank vs date comparison raises AttributeError again", "caught"),
    'C08-s1': ("_xlfn. stripping keeps only the last dotted component", "missed: no user function with a dotted name; added ADD.ONE"),
    'C08-s2': ("fuzzy date parsing makes '3 apples' numeric", "caught"),
    'C08-s3': ("evaluators share one lazily made copy of the function registry", "caught (registration histories)"),
    'C08-s4': ("'%g' as text form of whole floats (1.5e+06)", "missed: no whole float >= 1e6 among the samples; added 1500000"),
    'C09-s1': ("ordering operators treat \"\" as a blank", "caught"),
    'C09-s2': ("Number.__eq__ with a 1e-15 tolerance", "missed: no neighbouring doubles in the alphabet; added 0.3 / 0.1+0.2 and 1e15 / 1e15+1"),
    'C09-s3': ("text 'true'/'false' compared as the logical", "caught (transitivity)"),
    'C09-s4': ("ordering operators cast date-like text to a date", "caught (transitivity)"),
    'C10-s1': ("bare references passed to lazy functions are evaluated eagerly", "caught"),
    'C10-s2': ("generator-based error scan in AND/OR misses an error after the deciding element", "caught"),
    'C10-s3': ("IF truncates the condition with int(): 0.5 is false", "caught"),
    'C10-s4': ("eval_cell pre-checks the static references of a precedent (guarded back-reference)", "missed: poison was only ever in the evaluated cell; C10 gained the precedent =IF(FALSE,<evaluated cell>,5)"),
    # ---- wave 6a (third seeds, three per property) ----
    'C01-s5': ("negated literal memoised on the AST node: the second evaluation of the same compiled model reuses it", "missed: every case compiled afresh; C01 gained a second assignment on the same compiled model"),
    'C01-s6': ("'<>' written as NOT('='): an error operand of <> becomes a boolean", "caught"),
    'C01-s7': ("divisor 'zero to machine precision' (|x|<1e-15) raises #DIV/0!", "missed: no tiny operands; C01 gained the vector (2e-17,3,4e-17,5,8e-17,2)"),
    'C02-s5': ("sign after a sub-expression's ')' taken for a unary sign", "caught"),
    'C02-s6': ("numeric constants with a signed exponent become references", "caught"),
    'C02-s7': ("'^' made right-associative", "caught"),
    'C03-s5': ("resolve_ranges iterates the column set unsorted (order differs beyond a few columns)", "missed: rectangles never exceeded column D; C03 gained the shapes family (columns to K)"),
    'C03-s6': ("XLFormula de-duplicates its terms by coordinates, forgetting the sheet", "missed: no formula named the same rectangle on two sheets; shapes family"),
    'C03-s7': ("blank-run cut-off of RangeNode.eval counts 0 and FALSE as empty", "missed: no long runs of zeros; shapes family"),
    'C04-s5': ("set through a defined name writes to the name's own cell object", "missed: only evaluators set cells; C04 now alternates Evaluator.set_cell_value / Model.set_cell_value and addresses / names"),
    'C04-s6': ("formulas with the same text share one AST whose references remember their sheet", "missed: no model had equal formula texts on two sheets; crosssheet model now has"),
    'C04-s7': ("evaluator's stack of cells in evaluation not unwound when an evaluation fails", "missed: no history contained a failing evaluation; C04 gained the raising-guard model"),
    'C05-s5': ("evaluator-level memo of precedent results, cleared only by the evaluator's own set_cell_value", "missed by C05 (caught by C04): C05 gained the handover family (input changed by the other evaluator / on the model between two evaluators' turns)"),
    'C05-s6': ("process-wide memo of compiled COUNTIF/SUMIF criteria keyed by the criterion's text", "missed: no criteria functions in the models; criteria model + fresh-process family"),
    'C05-s7': ("lru_cache on the bound method Evaluator.resolve_names pins every evaluator", "caught (heap schedules)"),
    'C06-s5': ("path of visited cells kept as text and searched with 'in' (Sales!B2 inside NetSales!B2)", "missed: all graphs lived on Sheet1!B1..B4; C06 gained placements whose addresses are tails/heads of one another"),
    'C06-s6': ("a range is completed after one of its cells failed: failing ladders take 2^depth", "missed: failure chains had one path; C06 gained ladders (two cells per level, each summing the level below)"),
    'C06-s7': ("lazily evaluated arguments get a context that forgets the path: cycles through IF/AND recurse", "missed: references were always direct operands; C06 gained the lazy-branch / lazy-and / lazy-else renderings of every graph"),
    'C07-s5': ("error check for variadic arguments folded into the conversion pass", "caught"),
    'C07-s6': ("'<>' as the negation of '=' swallows error operands", "caught"),
    'C07-s7': ("ISBLANK decided by truthiness", "caught"),
    'C08-s5': ("numeric-text guard that forgets the '.5' form", "missed: one decimal spelling per number; C08 gained '.5', '5.' and '+5' spellings"),
    'C08-s6': ("memoised scalar conversions confuse 1 / 1.0 / True", "caught - as a history-dependent failure, which the runner first reported as a harness error; the runner now confirms such failures by replaying the shard"),
    'C08-s7': ("a constant cell holding the empty text is handed to formulas as a blank", "missed: the empty text was always the result of =\"\"; C08 now stores '' in a constant cell (set_cell_value after compile)"),
    'C09-s5': ("numeric-looking texts sort 'naturally' among themselves", "missed: '1' < '10' holds either way; C09 gained the texts '9' and '1A'"),
    'C09-s6': ("ordering operators compare raw values when both operands have one type", "caught"),
    'C09-s7': ("literal operands memoised by their spelling only", "caught (history-dependent, see C08-s6)"),
    'C10-s6': ("cells under evaluation kept in a set that an aborted evaluation does not clear", "missed: every case had a fresh evaluator; C10 gained the FLIP family (truth assignments changed on one evaluator, poisoned ones included)"),
    'C10-s7': ("an entirely empty range argument makes AND/OR #VALUE!", "caught"),
    'C11-s1': ("boolean constants loaded as floats", "caught"),
    'C11-s2': ("one XLFormula reused per formula text across sheets", "missed: equal formula texts only referenced single cells; every sheet now carries =SUM(A1:A2)"),
    'C12-s1': ("ExcelError passes (value, info) to Exception: restored errors cannot be rebuilt", "caught"),
    'C12-s2': ("only ranges that occur in formula terms are persisted", "caught"),
    'C13-s1': ("extract skips range members whose stored value is \"\"", "missed: all formulas were numeric; C13 gained the 'range-blank' variant"),
    'C13-s2': ("XLFormula caches tokens and terms per formula text", "missed: two-sheet variant used qualified references only; C13 gained the 'mirror' variant (same formulas on two sheets of a loaded workbook)"),
    'C14-s1': ("SUMPRODUCT compares cell counts instead of shapes", "caught"),
    'C14-s2': ("COUNTA treats 0 as empty", "missed: the cell alphabet had no 0; added"),
    'C15-s1': ("'<>' handled as an ordering operator", "caught"),
    'C15-s2': ("approximate MATCH via bisect_left", "caught"),
    'C16-s1': ("float MOD sign shift without the zero-remainder guard", "caught"),
    'C16-s2': ("CEILING/FLOOR multiply significance * count in binary", "caught"),
    'C17-s1': ("FIND early-exit off by one at the end of the text", "caught"),
    'C17-s2': ("lru_cache on argument casts confuses 1 with TRUE", "caught"),
    'C18-s1': ("DATEDIF complete months via relativedelta (clips to month end)", "missed: the reference refused month-end pairs as ambiguous; refusal removed (corrections log 7.11)"),
    'C18-s2': ("upper serial guard forgets the phantom leap day (2958465 rejected)", "caught"),
    'C19-s1': ("pad_zeroes treats every ten-digit result as negative", "caught"),
    'C19-s2': ("ten-digit limit checked on the integer instead of the string", "caught"),
    'C20-s1': ("IRR drops zero cash flows", "caught"),
    'C20-s2': ("PMT zero-rate shortcut forgets fv", "caught"),
    'C11-s3': ("shared-formula members load as constants (formula.text empty)", "caught"),
    'C11-s4': ("ignored sheets removed from the list while iterating it (second of two neighbours loaded)", "caught (every subset of ignored sheets)"),
    'C12-s3': ("memoised values keyed on a Model.revision counter that is not persisted", "caught"),
    'C12-s4': ("persist detaches ASTs and restores them through an aliased formulae dict", "missed: no defined name pointed at a formula cell; C12 gained the name 'fnm' and checks that the original still evaluates after persisting"),
    'C13-s3': ("set_cell_value writes through the defined-name object (orphan copy in the extracted model)", "missed: changes were applied by address only; the name variant now changes the named input through its name"),
    'C13-s4': ("terms 'canonicalised' to upper-case coordinates also inside defined names (q1_sales)", "missed: the name 'inp' has no letter-digit pair; renamed to 'q1_inp'"),
    'C14-s3': ("fuzzy date parsing: text with a digit token counts in SUM", "missed: the only text symbol was \"x\"; added \"Q3\""),
    'C14-s4': ("SUMPRODUCT on int64 columns wraps at 2^63", "missed: factors were one-digit; added 4000000000"),
    'C15-s3': ("COUNTIFS keeps appending later ranges to the second one", "caught (three-criteria forms)"),
    'C15-s4': ("VLOOKUP through a dict keeps the last row of a repeated key", "caught"),
    'C16-s3': ("Number.__str__ renders small floats with 15 decimals (rounding sees a truncated repr)", "caught"),
    'C16-s4': ("math.exp / math.cosh raise OverflowError before the finiteness guard", "caught"),
    'C17-s3': ("RIGHT forgets to clip a start index between LEN and 2*LEN", "caught"),
    'C17-s4': ("'&' mapped to a new OP_CONCAT that joins str(operand.value)", "missed by C17 (caught by C08 and C01): whole floats were refused as 'ambiguous'; C17 now judges them (3.0 is \"3\"). The added registered function also turned C07/C08 into a harness error (fail-closed function table): now a note on stderr"),
    'C18-s3': ("EDATE/EOMONTH clip the day against the start year's February", "caught"),
    'C18-s4': ("ISOWEEKNUM closed formula with an incomplete 53-week rule", "caught"),
    'C19-s3': ("digit validation delegated to int(): '+101', '1_0', ' 101' accepted", "caught"),
    'C19-s4': ("sign decoding table lists only upper-case hex digits", "caught"),
    'C20-s3': ("PV enumerates int(nper) payments", "missed: nper was always whole; added 0.5 and 10.5"),
    'C20-s4': ("XIRR Newton derivative off by a factor (1+rate): large roots do not converge", "caught"),
    # ---- wave 6b (third seeds C11-C20, three per property) ----
    'C11-s5': ("patched worksheet reader no longer passes the workbook's epoch (1904 date system)", "missed: every generated workbook used the 1900 system; C11 now repeats the form family with date1904=\"1\""),
    'C11-s6': ("a formula is recognised by a leading '=' instead of the cell's data type", "missed: no text constant began with '='; forms s-eq / str-eq / inlineStr-eq added"),
    'C11-s7': ("ignore_hidden implemented by extending the mutable default ignore_sheets in place", "missed: one load per process and no hidden sheets; C11 gained the two-loads family - building it showed that ignore_hidden was a no-op on the tree (fix 6162871)"),
    'C12-s5': ("XLCell leaves fields that compare equal to their default out of its pickled state (0, \"\", FALSE results)", "caught"),
    'C12-s6': ("encoded state cached on the model; the evaluator's writes do not invalidate it", "caught"),
    'C12-s7': ("persist decides gzip/plain on the extension as spelt, construct on the lower-cased one", "missed: files were always m.json / m.json.gz; C12 gained the file-name family (17 spellings, gzip magic checked)"),
    'C13-s5': ("extract() stops copying a range after MAX_EMPTY consecutive empty cells", "missed: no long ranges; 'gap' variant (G1:G125 with 121 empty cells in the middle)"),
    'C13-s6': ("parser resolves defined names case-insensitively, extract() looks them up by exact spelling", "missed: names were always spelt as defined; 'name-case' variant"),
    'C13-s7': ("XLFormula.terms de-duplicated by the sheet-less part of the reference", "missed: no formula named one coordinate on two sheets; 'twin-coord' variant"),
    'C14-s5': ("formula terms de-duplicated by address without the sheet", "missed: one sheet only; two-sheet family FN(A1:B2,Sheet2!A1:B2), one model per form"),
    'C14-s6': ("AVERAGE rewritten as SUM / count of numbers", "missed: numeric text and logicals were outside the alphabet; now generated for the stated relations only (MIN<=AVERAGE<=MAX, argument order)"),
    'C14-s7': ("RangeNode.eval trims trailing blank rows from the range array", "caught"),
    'C15-s5': ("CHOOSE accepts index 0 (lower bound off by one)", "caught (patch rebased onto fix 0c4727e, which the agent's remark about CHOOSE(0.5,..) had led to)"),
    'C15-s6': ("criteria operand typing no longer stops at the first cast: numeric operands become dates", "missed: whole operands other than 59/60 survive the double cast; column-frac family (2.5, 0.25, 59, 59.5, 60)"),
    'C15-s7': ("COUNTIF runs the criterion once per distinct cell text", "missed: a number next to the text spelling it was refused as ambiguous; now judged for ordering criteria with a numeric operand (a text cell is not of the operand's type)"),
    'C16-s5': ("'^' moved to a new OP_POW built on Number.__pow__", "caught"),
    'C16-s6': ("FLOOR's sign guard 'aligned' with its own error message", "caught"),
    'C16-s7': ("EXP written as np.power(np.e, x)", "caught"),
    'C17-s5': ("tokenizer shortcut for the empty text literal eats a leading doubled quote", "caught"),
    'C17-s6': ("LOWER implemented with str.casefold()", "missed: the alphabet had no lower-case letter that case folding rewrites; lowerfix family (ss, final sigma, micro sign, long s, ligature)"),
    'C17-s7': ("REPLACE returns the text unchanged when the position is past its end", "caught"),
    'C18-s5': ("shared 'leap bug serial' constant: nothing maps to serial 59", "caught"),
    'C18-s6': ("DateTime.__sub__ takes the difference of the Python datetimes", "missed: day differences across the phantom day were refused; DAYS and '-' are now judged by the serial difference there (DATEDIF/YEARFRAC stay refused)"),
    'C18-s7': ("US and European 30/360 day counts merged into one helper: February rule leaks into basis 4", "missed: February ends were refused for both 30/360 bases; basis 4 is now judged there (28 is 28)"),
    'C19-s5': ("'places' validated only when it is truthy", "caught"),
    'C19-s6': ("boolean check of 'number' moved into the decimal branch", "caught (patch rebased onto fix af74b70)"),
    'C19-s7': ("places = 10 rejected (half-open range after a constant was introduced)", "caught"),
    'C20-s5': ("PV: annuity-due factor applied to the whole present value, fv included", "caught"),
    'C20-s6': ("XIRR result accepted only if |XNPV(result)| < 1e-4 absolute", "missed: amounts never exceeded 1e4; IRR/XIRR cases repeated with flows scaled by 1e6, 1e9, 1e12, 1e-6"),
    'C20-s7': ("IRR: Newton from guess with a 20-iteration limit", "caught"),
    # ---- wave 7 (fourth seeds, all 20 properties; seed k of property Cxx is Cxx-s{7+k}) ----
    'C01-s8': ("number literals converted 'directly': 1E-2, 5E-1 and 0.005% truncate to 0", "caught"),
    'C01-s9': ("POWER returns -pow(-x,y) for a negative base with a fractional exponent", "missed by C01 (caught by C16): C01's reference left power-domain errors unjudged; it now expects #NUM! / #DIV/0! and has a vector with fractional exponents"),
    'C01-s10': ("'simplified' look-ahead of the white-space filter: a blank before ')' becomes an intersection", "caught"),
    'C02-s8': ("an argument-less call standing alone as an argument is not counted (YEAR(TODAY()) -> YEAR())", "missed: zero-argument calls were only generated at top level; they are leaves of every family now"),
    'C02-s9': ("token-stream memo keyed on the layout-normalised formula text", "missed: needs two parses in one process that differ only in blanks inside a literal / quoted sheet name; 'twins' family parses such formulas in every order"),
    'C02-s10': ("operand kind decided by the first character: '2020'!A1 becomes a number", "caught"),
    'C03-s8': ("resolve_ranges collects rows and columns separately: a two-area name becomes the cross product", "missed: names were single rectangles; name 'parts' (two blocks sharing neither rows nor columns)"),
    'C03-s9': ("evaluated ranges reused until one of their own cells is set", "missed by C03 (caught by C04): C03 gained the 'current' family (range over formula cells, input outside the range changed by three routes)"),
    'C03-s10': ("'#REF! for a sheet that does not exist', the sheets taken from the stored cells", "missed: every sheet held cells; 'emptysheet' family (sheets without any stored cell, plain and quoted)"),
    'C04-s8': ("negative-literal folding also folds a negated reference (cached on the AST node)", "caught"),
    'C04-s9': ("per-run reuse of computed cells, run number per evaluator, stamp on the model's cell", "caught"),
    'C04-s10': ("extract() shares the constant cells with the source model", "missed (and earlier ruled out of scope, 7.9): set_cell_value calls on the extracted model are not part of the original's history - C04 now sets every input on an extract and expects the original untouched"),
    'C05-s8': ("argument errors keep their traceback: a constant error cell grows by 4 KB per evaluation", "caught"),
    'C05-s9': ("one AST per formula text plus the resolved address cached on the node", "caught (patch rebased onto fix 5a0926c)"),
    'C05-s10': ("one shared cycle-check path per evaluator, not cut back when an evaluation fails", "caught"),
    # C06-s8 (cycle check that loses the owner of a range: cycles made only of ranges recursed to the limit) was kept until fix 324c2fc: the long-cycle search now reports those cycles too, the change no longer breaks the property
    'C07-s8': ("blank shortcut of the ordering comparisons hoisted above the error check", "caught"),
    'C07-s9': ("POWER computed with ** : complex results raise in the result conversion", "caught"),
    'C07-s10': ("EXACT registered before it is wrapped by validate_args", "caught"),
    'C08-s8': ("a blank given for an optional argument silently becomes the default", "caught"),
    'C08-s9': ("CONCAT / & skips operands whose text is falsy (FALSE, \"false\")", "caught"),
    'C08-s10': ("function signatures memoised by NAME in FunctionNode.eval", "missed: a name was registered once per history; step S re-registers ADDONE with two parameters"),
    'C09-s8': ("'=' folds texts with lower(), the ordering operators with upper()", "missed: every text of the alphabet had inverse case mappings; 'straße' / 'STRASSE' added (laws only)"),
    'C09-s9': ("'=' answers by type when the operand types differ, forgetting that a date is a number", "caught"),
    'C09-s10': ("a blank recognises the other blank by identity with the BLANK singleton", "missed in the quick tier: the stored empty cell (set to None) was only in the thorough alphabet; moved to quick"),
    'C10-s8': ("per-function argument plan cached from the FIRST call in the process", "harness error at first: failures depended on which shards a worker had run before; C10 gained the FIRST family (fresh interpreter, opener with few arguments, then poisoned probes) and the runner now lets confirmed violations stand"),
    'C10-s10': ("Number.__bool__ with a 1e-15 'dust' tolerance", "missed: no non-zero number below 1e-15; tokens 1e-16 and -2.5e-300"),
    'C11-s8': ("names into ignored sheets dropped by a PREFIX test on the sheet name", "missed: no sheet name was a prefix of another; names-sparse family uses In / Inp"),
    'C11-s9': ("cached text results that look like numbers load as numbers", "missed: cached texts were words; forms f-str-num (007) and f-str-sci (1.5e3)"),
    'C11-s10': ("a '[' anywhere in a formula freezes it at its cached result", "missed: no '[' in any formula; form f-bracket with a stale cached value"),
    'C12-s8': ("date/times persisted as ISO text with a resolution of one second", "missed: snapshots compared values the way Excel does (a date is its serial); they now also carry the exact native value, and the date input has a fractional second"),
    'C12-s9': ("formulae re-derived from the cells when a model is constructed from a file", "caught"),
    'C12-s10': ("JSON encoder switched to allow_nan=False: persisting an infinite result raises", "missed: no formula overflowed; B4 of the dict model is =SUM(A1:A3)*1E+308"),
    'C13-s8': ("named ranges re-attached to 'ranges' by name, not by cells", "missed: range names were not generated; 'range-name' variant with a literal mention of the same rectangle outside every focus"),
    'C13-s9': ("range membership decided by comparing column LETTERS", "missed: all cells in column B; 'range-za' variant (Y1:AC1)"),
    'C13-s10': ("extract() prunes name back-links through a list shared with the original", "caught (original-unchanged fingerprint)"),
    'C14-s8': ("range arrays kept on the evaluator, dropped only by Evaluator.set_cell_value", "missed by C14 (caught by C03 and C04): C14 gained the after-change family"),
    'C14-s9': ("MAX/MIN folded by hand, seeded with the first value", "caught"),
    'C14-s10': ("SUM gets the 'up to 255 arguments' check of COUNT, applied to cells", "missed: no rectangle had more than 9 cells; shapes 16x16, 1x256, 300x1, 2x150 (which also showed that COUNT/COUNTA have this defect on the tree - open finding)"),
    'C15-s8': ("exact MATCH rejects 'absent' keys through a hash set (hash is case-sensitive)", "missed: keys differing from a cell only by case were refused; they are equal under the = operator's equality (C09) and judged now"),
    'C15-s9': ("type guard of ordering criteria decides 'number' by float()", "caught (column-digit family of wave 6)"),
    'C15-s10': ("COUNTIFS measures the range length in rows", "missed: criteria ranges were columns; 'block' family (1x2, 1x3, 2x2 ranges)"),
    'C16-s8': ("DEGREES / RADIANS with the textbook formula overflow near the top of the range", "caught"),
    'C16-s9': ("_round shortcut that counts decimals in the text form (exponent notation)", "caught"),
    'C16-s10': ("Number.__mod__ turns a remainder equal to the divisor into 0", "missed: |n/d| was never below one ulp; MOD_TINY pairs"),
    'C17-s8': ("CONCAT leaves out falsy pieces", "caught"),
    'C17-s9': ("Number.__str__ cuts a trailing '.0': -0.0 becomes '-0'", "missed: no negative zero; added to VALS"),
    'C17-s10': ("FIND goes through a shared regex helper without escaping", "caught"),
    'C18-s8': ("DATE applies the day offset before the year/month shift", "caught (patch rebased onto fix 0870010)"),
    'C18-s9': ("YEARFRAC takes abs() of the day count instead of ordering the dates", "missed: pairs with the later date first were skipped; their size is now compared with the forward count (sign left open)"),
    'C18-s10': ("DATEDIF rejects start == end", "caught"),
    'C19-s8': ("'places' validated only in pad_zeroes, which negative results never reach", "caught"),
    'C19-s9': ("own digit loop; the guard for zero returns before the padding", "caught"),
    'C19-s10': ("a float-valued digit string written with '%g' (six significant digits)", "caught"),
    'C20-s8': ("PV snaps rates below 1e-6 to the zero-rate branch", "missed: smallest non-zero rate was 1e-4; rates +-5e-7"),
    'C20-s9': ("SLN never returns a negative depreciation", "caught"),
    'C20-s10': ("XIRR switches numpy's error handling to 'raise' and never back: PV at rate 0 raises afterwards", "harness error at first (process-history dependent), caught since the runner lets confirmed violations stand"),
}


def main():
    rows = []
    for path in sorted(glob.glob(os.path.join(VERIF, 'seeded', '*',
                                              'meta.json'))):
        m = json.load(open(path))
        sid = m['id']
        desc, how = NOTES.get(sid, ('(see notes.md)', ''))
        det = ', '.join('%s: %s' % (c, 'exit 1' if ok else 'NOT detected')
                        for c, ok in m['detected_by'].items())
        rows.append('| %s | %s | %s | %s | %s |' % (
            sid, m['breaks_property'], desc.replace('|', '\\|'), det,
            how.replace('|', '\\|')))
    total = len(rows)
    caught = sum(1 for r in rows if 'NOT detected' not in r)
    first = sum(1 for sid, (d, h) in NOTES.items()
                if h.startswith('caught') and
                os.path.exists(os.path.join(VERIF, 'seeded', sid)))
    out = [
        '# Independently seeded property-breaking changes', '',
        'Each directory holds `patch.diff` (applies to /repo with '
        '`patch -p1`; never committed there), `demo.py` (exits 0 on the '
        'unchanged tree, 1 with the patch), `notes.md` (the author\'s '
        'description) and `meta.json` (what was run to verify it and which '
        'check detects it).  The authors were fresh sub-agents that saw only '
        'the property record and a scratch worktree of /repo; every change '
        'keeps the repository\'s own suite at 815 passed.', '',
        '%d changes kept; %d are detected by the quick tier of their '
        'property\'s check on the final machinery; %d of them were detected '
        'the first time the check saw them, the others led to a '
        'strengthening of the check (last column).' % (total, caught, first),
        '',
        '| id | property | change | quick check on the final machinery | '
        'first encounter |', '|---|---|---|---|---|'] + rows
    with open(os.path.join(VERIF, 'seeded', 'README.md'), 'w') as fp:
        fp.write('\n'.join(out) + '\n')
    print('%d seeds, %d detected, %d at first sight' % (total, caught, first))


if __name__ == '__main__':
    main()
