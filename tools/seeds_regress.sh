#!/bin/sh
# usage: tools/seeds_regress.sh [Cxx ...]  - every kept seed (of the given properties)
# against the current quick check of its property; prints one line per seed.
# A seed whose patch no longer applies (the tree moved on) is reported as such.
cd "$(dirname "$0")/.."
for d in seeded/C*/; do
  id=$(basename "$d"); prop=${id%%-*}
  if [ $# -gt 0 ]; then case " $* " in *" $prop "*) ;; *) continue;; esac; fi
  out=$(mktemp)
  tools/seed_verify.py "$d" "$prop" --fast > "$out" 2>&1
  echo "$id $(/venv/bin/python -c "
import json,sys
try:
    r=json.load(open('$out'))
    if not r.get('patch_applies'): print('PATCH-DOES-NOT-APPLY')
    else: print('exit', r['checks']['$prop']['exit'])
except Exception as e: print('ERROR', e)")"
  rm -f "$out"
done
