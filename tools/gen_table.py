#!/venv/bin/python
"""Rewrite the table of DESIGN.md section 4 from the evidence files.

The descriptions are kept here (one per property, as built); the numbers -
evaluations, states / transitions, wall-clock seconds of the quick tier - are
read from evidence/<id>.json, so that the table says what the last quick run
did.  usage: tools/gen_table.py   (after tools/run_all.sh quick)
"""
import json
import os
import re

ROOT = os.path.dirname(os.path.dirname(os.path.abspath(__file__)))

ROWS = {
    'C01': ('P, exploration',
            'all trees <= 3 operators over the 13 operators x 12 renderings '
            '(literals, references, percent spellings, `.5` / `5.`, redundant '
            'parentheses, blanks) x value vectors incl. zeros, x*0.01 != x/100 '
            'cases and tiny numbers; second assignment on the same model; '
            'bit-for-bit agreement of renderings',
            'trees <= 4 ops + 5 ops over class representatives'),
    'C02': ('P, exploration',
            'trees <= 1 node over the full leaf alphabet, <= 2 nodes reduced, '
            'every shape of 3 operators in a flat stretch, all strings <= 2 '
            'over 25 characters x 6 placements, all 2^gaps blank placements '
            'for small trees, defined names, twin formulas in every order, '
            'parsing after the tokenizer\'s range switch was used, one parser '
            'object for many formulas',
            'trees <= 3 nodes, chains of 4 operators, strings <= 3'),
    'C03': ('P, exploration',
            'generated .xlsx / dict models: 5 sheet-name configurations '
            '(blanks, apostrophes, `$`), every spelling of every cell and '
            'rectangle of a 4x4 grid, every fill pattern of small rectangles '
            'with shape oracles, gaps 0..250, whole rows, names (two areas, '
            'ending in digit+E, sheet-scoped twins, named ranges on extracts), '
            'a second load through a used compiler and evaluator, address '
            'utilities',
            '4th configuration, larger pattern rectangles, whole-column refs'),
    'C04': ('H, model_checking',
            '16 models (+ whole-row and 400-cell chain at depth 2-3); all '
            'histories of set / set-through-name / evaluate <= 4 unmerged '
            '(named <= 3), merged BFS by fingerprint to depth 5; reference '
            'arithmetic, fresh-model differential, stored values of every '
            'cell computed on the way, purity of reads, the model object '
            'loaded anew under its evaluator',
            'unmerged <= 5, merged BFS to the fixpoint (complete reachable '
            'state space of the alphabet)'),
    'C05': ('H, model_checking',
            '25 models; all evaluate-sequences <= 4, all 3-evaluator '
            'sequences <= 3 (one with its own namespace), hand-over between '
            'evaluators after a set, reload of the model object under a '
            'living evaluator, every cell alone / forward / reverse in fresh '
            'processes, heap fixpoint, process-environment oracle (gc, numpy '
            'error mode, recursion limit, decimal context)',
            'sequences <= 5 / <= 4, heap n = 32 768'),
    'C06': ('H, model_checking',
            'all 19 683 multigraphs on 3 cells + all 65 536 digraphs on 4 '
            'cells x every entry, fresh and shared evaluator; lazy / placed / '
            'range-closed variants; chains 1..40 in 6 link styles with '
            'quadratic message and time bounds; cycles and acyclic ladders '
            'of 200-400 cells under the default recursion limit; formulas '
            'changed under a living evaluator; names of two areas',
            '+ all digraphs with <= 6 edges on 5 cells, chains to 80'),
    'C07': ('P, exploration',
            'operator x position x code x operand; every position of every '
            'registered function (fail-closed table); aggregator lists and '
            'ranges incl. deciding members for AND/OR, cash-flow ranges of '
            'IRR / XNPV / XIRR, range+scalar error pairs; typed pairs; IS* '
            'tables; error chains through dependants; one error cell behind '
            'both operands; Python-equal constants in both reading orders '
            '(fresh process)',
            '+ all nested operator triples'),
    'C08': ('P, exploration',
            'function x position x value x spelling (int, float, numpy 32/64 '
            'bit, Number, text forms, logical, date, blank); non-numeric '
            'texts; operators; results beyond 15 digits / 2^53; name variants '
            '(case, `_xlfn.`, dotted user functions); registration histories; '
            'keyword calls',
            '+ two positions spelt at once, histories <= 6'),
    'C09': ('P, exploration',
            '52-value alphabet (ints, floats, neighbouring doubles, dates '
            'incl. 1900-02-28, texts incl. wild cards and 256-character '
            'texts, logicals, two kinds of blank): all ordered pairs x 6 '
            'operators x 7 routes (typed / native calls, cells, literals, '
            'function results), one evaluator with Python-equal values in '
            'turn; laws incl. transitivity over all triples per route',
            '68 values, 10 routes'),
    'C10': ('P (spies), exploration',
            'IF over 30 conditions x 19x20 branch pairs; condition shapes '
            'depth <= 2 x all assignments; AND/OR 1-3 arguments over scalars '
            'and ranges, spied and unspied; FLIP / FIRST (fresh process) / '
            'ABSENT families; assignments in sequence on one model; ranges '
            'on another sheet next to unqualified references; argument counts '
            'up to 255',
            'depth 3, 4 arguments'),
    'C11': ('P, exploration',
            'generated .xlsx files written byte by byte: 25 storage forms x '
            '9 positions x 2 sheets, both date systems, Latin squares, 1-4 '
            'sheets x every ignored subset, two loads in one process, hidden '
            'sheets, shared formulas, names (sparse ranges, apostrophe '
            'sheets, sheet-scoped twins), single-cell sheets, sheets without '
            'r attributes (all / constants only), dates with a time of day',
            'all 24 sheet orders'),
    'C12': ('H, model_checking',
            '2 models x 2 initial states, all histories <= 3 over 15/16 '
            'operations; in every state: persist to .json and .json.gz, '
            'restore, second model from the same file after the first was '
            'changed, load into a used Model object with its old evaluator, '
            'snapshot and evaluation of every cell; file-name family; '
            'formulas of 20-300 operands',
            'histories <= 4'),
    'C13': ('H, model_checking',
            'all 64 DAGs on 4 cells x 16 variants (ranges, two sheets, names, '
            'named ranges incl. formula members / a member set after loading '
            '/ quoted sheet, gaps, Z-AA boundary, absent references) x all '
            'focus subsets x {fresh, evaluated} x change histories; closure, '
            'non-interference, extraction of the extract, a second extraction '
            'from the changed original',
            'all 1 024 DAGs on 5 cells'),
    'C14': ('P, exploration',
            'all fills of rectangles <= 2x2 / 1x3 over two 5-symbol alphabets '
            'x all decompositions into sub-ranges and scalars x 6 functions; '
            '2x3 / 3x2 whole; rectangles over 255 cells; SUMPRODUCT shapes; '
            'two-sheet forms; formula members; cells changed (also to zero) '
            'between evaluations; lower-case spellings; a logical flag read '
            'before ranges of ones and zeros',
            'up to 2x3 all decompositions, 3x3 over 4 symbols'),
    'C15': ('P, exploration',
            'all columns <= 4 over 6 values x 45 criteria; fractional, '
            'digit-text, word and line-break alphabets; the column as second '
            'COUNTIFS range; COUNTIFS pairs; MATCH exact / approximate (mixed '
            'types); VLOOKUP blocks; keys agreeing in nine digits; CHOOSE '
            'incl. fractional indexes; '
            'SUMIF/SUMIFS generated but counted as '
            '`unsupported_by_installed_pandas`',
            'columns <= 5'),
    'C16': ('P, exploration',
            'rounding lattice m*10^e, all ties with 15-digit neighbours, '
            'extremes to 1.797e308, CEILING/FLOOR sign combinations, 21 unary '
            'functions with domain bounds, binary grids, FACT (also of '
            'arguments that are not whole); per function: '
            'calls at the edges of its domain followed by 33 probes in a '
            'fresh process',
            'denser lattices (33.9 M calls)'),
    'C17': ('P, exploration',
            'all texts <= 4 over {a,b,blank,",e-acute} x positions / counts x '
            '12 functions, by call and by formula; identities; numbers and '
            'logicals as text; combining marks, characters outside the BMP, '
            'white space other than the blank; numeric-looking texts in '
            'EXACT; literals that spell a defined name; chains of 300 & '
            'operands',
            'texts <= 6 (30 M calls)'),
    'C18': ('P, exploration',
            'sampled serial windows + every month edge 1900-9999 x 19 '
            'functions, region 1..61, time fractions, DATE carries, EDATE / '
            'EOMONTH (also into December 9999), all ordered pairs of 240 dates (DAYS, DATEDIF, '
            'YEARFRAC, also after the values were used by YEARFRAC), results '
            'after 9999, a logical before the serial it equals in Python '
            '(fresh process)',
            '**every** serial 61..2 958 465'),
    'C19': ('P, exploration',
            '**whole** binary window x all places x 12 functions x 3 routes, '
            'all bit boundaries +-6, -70 000..70 000 dense, invalid strings '
            '<= 3 over 14 characters, long / fractional / word / line-break / '
            'Unicode look-alike strings, logical arguments',
            '+-2^19 dense (41 M calls)'),
    'C20': ('P, exploration',
            'NPV vectors <= 4 over 6 amounts x 16 rates x 7 routes (incl. a '
            'two-row block and flows grouped into lists and scalars), families '
            'of 5-30 flows, PMT / PV grids with '
            'inversions, SLN, XNPV / XIRR over date gaps (incl. row / column '
            'mixes and day-number schedules), IRR / XIRR unit scaling, '
            'linearity',
            'longer vectors (3.8 M calls)'),
}


def fmt(n):
    return '{:,}'.format(int(n)).replace(',', ' ')


def main():
    lines = ['| id | engine / evidence level | quick tier as built (numbers '
             'of the last quick run, 16 cores) | thorough tier adds |',
             '|---|---|---|---|']
    for cid in sorted(ROWS):
        level, quick, thorough = ROWS[cid]
        ev = json.load(open(os.path.join(ROOT, 'evidence', cid + '.json')))
        cov = ev['coverage']
        nums = ['%s judgements' % fmt(cov['evaluations'])]
        if cov.get('states'):
            nums.append('%s states' % fmt(cov['states']))
        if cov.get('transitions'):
            nums.append('%s transitions' % fmt(cov['transitions']))
        nums.append('%d s' % round(ev['wall_s']))
        lines.append('| %s | %s | %s: %s | %s |' % (
            cid, level, quick, ', '.join(nums), thorough))
    path = os.path.join(ROOT, 'DESIGN.md')
    text = open(path).read()
    m = re.search(r'\| id \| engine / evidence level \|.*?\n\n', text, re.S)
    text = text[:m.start()] + '\n'.join(lines) + '\n\n' + text[m.end():]
    open(path, 'w').write(text)
    print('table rewritten (%d rows)' % len(ROWS))


if __name__ == '__main__':
    main()
