#!/bin/sh
# usage: tools/run_all.sh [tier] [checks...]   - runs checks sequentially, prints one line each
tier=${1:-quick}; shift
cd "$(dirname "$0")/.."
checks=${*:-$(cat claimed.txt)}
for c in $checks; do
  start=$(date +%s)
  out=$(timeout 7200 bin/check $c --tier $tier 2>&1); rc=$?
  echo "== $c rc=$rc $(( $(date +%s) - start ))s $(echo "$out" | tail -1 | cut -c1-220)"
  echo "$out" | grep -E "^(VIOLATION|HARNESS)" | head -5 | cut -c1-300
done
