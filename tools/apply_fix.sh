#!/bin/sh
# usage: tools/apply_fix.sh <diff> <commit message file>
# applies the diff to /repo, runs the repository tests, commits on success,
# reverts otherwise.
diff=$(realpath "$1"); msg=$(realpath "$2")
cd /repo || exit 2
[ -z "$(git status --porcelain --untracked-files=no)" ] || { echo "repo dirty"; exit 2; }
patch -p1 -s --no-backup-if-mismatch < "$diff" || { echo "PATCH FAILED: $diff"; git checkout -- .; exit 3; }
if /verif/tools/repo_tests.py > /tmp/apply_fix.out 2>&1; then
  git commit -qa -F "$msg" && echo "COMMITTED $(git log --oneline | head -1)"
else
  cat /tmp/apply_fix.out | tail -8; git checkout -- .; echo "REVERTED $diff"; exit 4
fi
