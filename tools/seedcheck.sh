#!/bin/sh
# usage: tools/seedcheck.sh [checks...]  - every quick check under another VERIF_SEED
# and another PYTHONHASHSEED must exit 0 with the digest recorded in evidence/
cd "$(dirname "$0")/.."
for c in ${*:-$(cat claimed.txt)}; do
  want=$(/venv/bin/python -c "import json;print(json.load(open('evidence/$c.json'))['coverage']['digest'])")
  out=$(PYTHONHASHSEED=7 VERIF_SEED=3 XLMC_NO_EVIDENCE=1 bin/check $c 2>/dev/null | tail -1)
  rc=$?
  got=$(echo "$out" | sed 's/.*digest=//')
  [ "$want" = "$got" ] && s=same || s="DIFFERENT (evidence $want)"
  echo "$c digest=$got $s $(echo "$out" | sed 's/.*violations=\([0-9]*\).*/violations=\1/')"
done
