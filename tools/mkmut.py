#!/venv/bin/python
"""Create mutants/<name>.diff by replacing OLD with NEW (exactly once) in a
file of /repo (the repository itself is not touched).
usage: tools/mkmut.py <name> <path relative to /repo> <old> <new>"""
import difflib
import os
import sys

name, rel, old, new = sys.argv[1:5]
src = open(os.path.join('/repo', rel)).read()
assert src.count(old) == 1, 'old text occurs %d times' % src.count(old)
dst = src.replace(old, new)
diff = ''.join(difflib.unified_diff(
    src.splitlines(True), dst.splitlines(True), 'a/' + rel, 'b/' + rel))
out = os.path.join(os.path.dirname(os.path.dirname(os.path.abspath(__file__))),
                   'mutants', name + '.diff')
mode = 'a' if '--append' in sys.argv else 'w'
open(out, mode).write(diff)
print(out)
