#!/venv/bin/python
"""Regenerate MANIFEST.json from the check modules that exist.
usage: tools/gen_manifest.py        (validates against the schema)"""
import importlib
import json
import os
import sys

VERIF = os.path.dirname(os.path.dirname(os.path.abspath(__file__)))
sys.path.insert(0, VERIF)
os.environ.setdefault('PYTHONHASHSEED', '0')

props = [json.loads(l) for l in open(os.path.join(VERIF, 'properties.jsonl'))]
CLAIMED = open(os.path.join(VERIF, 'claimed.txt')).read().split()
checks, na = [], []
for p in props:
    pid = p['id']
    path = os.path.join(VERIF, 'xlmc', 'checks', pid.lower() + '.py')
    if not os.path.exists(path) or pid not in CLAIMED:
        na.append({'property_id': pid,
                   'reason': 'applicable (bounded-exhaustive exploration, '
                             'DESIGN.md section 4) but its check is not '
                             'built yet; not claimed'})
        continue
    mod = importlib.import_module('xlmc.checks.' + pid.lower())
    level = getattr(mod, 'LEVEL', 'exploration')
    checks.append({
        'property_id': pid,
        'quick_cmd': 'bin/check %s --tier quick' % pid,
        'thorough_cmd': 'bin/check %s --tier thorough' % pid,
        'evidence_file': 'evidence/%s.json' % pid,
        'replay_cmd_template': 'bin/check %s --replay {path}' % pid,
        'engine': getattr(mod, 'ENGINE', 'xlmc-P' if level == 'exploration'
                          else 'xlmc-H'),
        'level_claimed': {
            'category': level,
            'text': mod.LEVEL_TEXT,
            'design_ref': 'DESIGN.md section 4, %s' % pid,
        },
        'level_note': mod.LEVEL_NOTE,
        'technique': mod.TECHNIQUE,
    })
manifest = {
    'version': 1,
    'setup_cmd': '/venv/bin/python -m compileall -q xlmc && '
                 '/venv/bin/python -m xlmc.selftest',
    'hooks': {
        'guard': 'XLCALCULATOR_VERIF',
        'enable': 'no source hook exists: the checks drive the unmodified '
                  'library in-process through its public API '
                  '(sys.path[0]=/repo); the guard variable is reserved and '
                  'unused',
        'baseline_off_cmd': 'cd /repo && /venv/bin/python -m pytest -ra -q '
                            '-p no:cacheprovider --timeout=900 '
                            '--continue-on-collection-errors',
        'source_commits': [],
        'add_only': True,
    },
    'engines': [
        {'name': 'xlmc-P', 'path': 'xlmc/runner.py',
         'serves_properties': [c['property_id'] for c in checks
                               if c['engine'] == 'xlmc-P'],
         'kind_free_text': 'bounded-exhaustive enumeration of programs / '
         'inputs / configurations, each executed on the real library and '
         'compared with an independent reference model'},
        {'name': 'xlmc-H', 'path': 'xlmc/explore.py',
         'serves_properties': [c['property_id'] for c in checks
                               if c['engine'] == 'xlmc-H'],
         'kind_free_text': 'explicit-state exploration of API histories: '
         'every transition executes the real implementation on a fresh '
         'model with the prefix replayed; states canonicalised by an '
         'object-graph fingerprint'},
    ],
    'checks': checks,
    'not_applicable': na,
    'notes': 'See DESIGN.md.  Known findings: KNOWN_FINDINGS.txt.  '
             'Seeded property-breaking changes: seeded/.',
}
out = os.path.join(VERIF, 'MANIFEST.json')
with open(out, 'w') as fp:
    json.dump(manifest, fp, indent=1)
    fp.write('\n')
try:
    import jsonschema
    jsonschema.validate(manifest,
                        json.load(open('/root/.vp/MANIFEST.schema.json')))
    print('MANIFEST.json valid: %d checks, %d not claimed'
          % (len(checks), len(na)))
except ImportError:
    print('written (jsonschema not available in this interpreter)')
