"""Self tests of reference models and matcher (run by setup_cmd)."""
import importlib
import os
import sys


def main():
    here = os.path.dirname(os.path.abspath(__file__))
    n = 0
    for name in sorted(os.listdir(os.path.join(here, 'ref'))):
        if name.endswith('.py') and name != '__init__.py':
            mod = importlib.import_module('xlmc.ref.' + name[:-3])
            st = getattr(mod, 'selftest', None)
            if st:
                st()
                n += 1
    from . import findings
    findings.load()
    print('xlmc selftest ok (%d reference models)' % n)


if __name__ == '__main__':
    sys.exit(main())
