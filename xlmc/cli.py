"""bin/check Cxx [--tier quick|thorough] [--replay file] [--jobs N]"""
import argparse
import os
import sys


def main(argv=None):
    ap = argparse.ArgumentParser(prog='check')
    ap.add_argument('prop')
    ap.add_argument('--tier', default=os.environ.get('VERIF_TIER') or 'quick',
                    choices=['quick', 'thorough'])
    ap.add_argument('--replay')
    ap.add_argument('--jobs', type=int,
                    default=int(os.environ.get('XLMC_JOBS', '0')) or
                    (os.cpu_count() or 4))
    ap.add_argument('--quiet', action='store_true')
    args = ap.parse_args(argv)

    # Pin hash randomisation (set iteration order) - re-exec once.
    if os.environ.get('PYTHONHASHSEED') is None:
        env = dict(os.environ, PYTHONHASHSEED='0')
        os.execve(sys.executable,
                  [sys.executable, '-m', 'xlmc.cli'] + sys.argv[1:], env)

    prop = args.prop.upper()
    modname = 'xlmc.checks.%s' % prop.lower()
    try:
        seed = int(os.environ.get('VERIF_SEED', '0') or 0)
    except ValueError:
        seed = 0
    from . import runner
    try:
        if args.replay:
            return runner.replay(modname, prop, args.replay, args.quiet)
        evidence, lines, n_viol = runner.run(modname, prop, args.tier, seed,
                                             args.jobs)
    except runner.HarnessError as exc:
        print('HARNESS-ERROR property=%s %s' % (prop, exc), file=sys.stderr)
        return 2
    except Exception:  # noqa: BLE001 - never let a harness bug look like a verdict
        import traceback
        print('HARNESS-ERROR property=%s unexpected exception\n%s'
              % (prop, traceback.format_exc()), file=sys.stderr)
        return 2
    cov = evidence['coverage']
    for line in lines:
        print(line)
    print('%s tier=%s evaluations=%d distinct_nontrivial=%d '
          'distinct_observations=%d skipped=%d known=%d violations=%d '
          'wall=%.1fs digest=%s'
          % (prop, args.tier, cov['evaluations'], cov['distinct_nontrivial'],
             cov['distinct_observations'],
             sum(cov['skipped_out_of_scope'].values()),
             sum(cov['known_findings'].values()), n_viol,
             evidence['wall_s'], cov['digest']))
    return 1 if n_viol else 0


if __name__ == '__main__':
    sys.exit(main())
