"""Reference model of the text functions with 1-based positions (C17).

Independent of xlcalculator (never imports it).  Values are Python natives:
text -> str, number -> int (float only as an argument), logical -> bool, any
error value -> the singleton ERR.  The model is exactly the property text:

  * positions are 1-based, counts are clipped at the end of the text,
  * a count of 0 gives the empty text,
  * a position below 1 or a negative count gives an error value (which error
    code is not stated by the property, so any code is accepted),
  * numbers and logicals used as text are first converted to their text form
    (7 -> "7", -2 -> "-2", 1.5 -> "1.5", TRUE -> "TRUE", FALSE -> "FALSE"),
  * FIND(t, s, p) is the first position >= p at which t occurs in s,
    case-sensitively; no such position -> error value,
  * TRIM removes leading and trailing blanks and collapses inner runs of
    blanks (U+0020 only) to one blank.

Expressions (JSON-able) evaluated by ``evaluate``:
  literal                      str | int | float | bool
  ['f', NAME, [expr, ...]]     function call (an omitted optional argument is
                               a shorter argument list)
  ['&', a, b] ['+', a, b] ['-', a, b]
  ['cell', 'A1', value]        a cell reference; the reference sees the value

``Unjudged`` is raised where the property text does not decide the answer.
"""

NAMES = ('LEN', 'LEFT', 'RIGHT', 'MID', 'FIND', 'REPLACE', 'UPPER', 'LOWER',
         'TRIM', 'EXACT', 'CONCAT', 'CONCATENATE')


class Unjudged(Exception):
    """The reference declines to judge (reason in args[0])."""


class _Err:
    def __repr__(self):
        return 'ERR'


ERR = _Err()


def text_form(v):
    """Text form of a value used where text is expected."""
    if isinstance(v, bool):
        return 'TRUE' if v else 'FALSE'
    if isinstance(v, int):
        return str(v)
    if isinstance(v, float):
        r = repr(v)
        digits = r.replace('-', '').replace('.', '')
        if v == v and abs(v) < 1e15 and v == int(v):
            return str(int(v))        # Excel has one number type: 7.0 is "7"
        if (v != v or v in (float('inf'), float('-inf')) or 'e' in r
                or len(digits.lstrip('0')) > 15):
            # 1e+20, 0.1+0.2 ...: the spelling is a coercion question (C08),
            # not a text question
            raise Unjudged('number-spelling-ambiguous')
        return r
    if isinstance(v, str):
        return v
    raise TypeError(v)


def _count(n):
    if isinstance(n, bool) or not isinstance(n, int):
        raise Unjudged('non-integer-position-or-count')
    return n


def LEN(s):
    return len(text_form(s))


def LEFT(s, n=1):
    s, n = text_form(s), _count(n)
    if n < 0:
        return ERR
    return s[:n]


def RIGHT(s, n=1):
    s, n = text_form(s), _count(n)
    if n < 0:
        return ERR
    if n == 0:
        return ''
    return s[max(len(s) - n, 0):]


def MID(s, p, k):
    s, p, k = text_form(s), _count(p), _count(k)
    if p < 1 or k < 0:
        return ERR
    return s[p - 1:p - 1 + k]


def FIND(t, s, p=1):
    t, s, p = text_form(t), text_form(s), _count(p)
    if p < 1:
        return ERR
    if t == '' and p == len(s) + 1:
        # Excel's documentation says #VALUE! (start beyond the text), Excel
        # itself answers p; "a position at which t occurs" does not decide it.
        raise Unjudged('empty-needle-one-past-the-end')
    for q in range(p, len(s) - len(t) + 2):
        if s[q - 1:q - 1 + len(t)] == t:
            return q
    return ERR


def REPLACE(s, p, k, t):
    s, p, k, t = text_form(s), _count(p), _count(k), text_form(t)
    if p < 1 or k < 0:
        return ERR
    return s[:p - 1] + t + s[p - 1 + k:]


def UPPER(s):
    return text_form(s).upper()


def LOWER(s):
    return text_form(s).lower()


def TRIM(s):
    return ' '.join(w for w in text_form(s).split(' ') if w)


def EXACT(a, b):
    return text_form(a) == text_form(b)


def CONCAT(*xs):
    return ''.join(text_form(x) for x in xs)


CONCATENATE = CONCAT

_FUNCS = {'LEN': LEN, 'LEFT': LEFT, 'RIGHT': RIGHT, 'MID': MID, 'FIND': FIND,
          'REPLACE': REPLACE, 'UPPER': UPPER, 'LOWER': LOWER, 'TRIM': TRIM,
          'EXACT': EXACT, 'CONCAT': CONCAT, 'CONCATENATE': CONCATENATE}


def is_literal(e):
    return isinstance(e, (str, int, float, bool))


def evaluate(e):
    """Value of an expression; the first error among the operands wins."""
    if is_literal(e):
        return e
    op = e[0]
    if op == 'cell':
        return e[2]
    if op == 'f':
        args = [evaluate(a) for a in e[2]]
        for a in args:
            if a is ERR:
                return ERR
        return _FUNCS[e[1]](*args)
    a, b = evaluate(e[1]), evaluate(e[2])
    if a is ERR or b is ERR:
        return ERR
    if op == '&':
        return CONCAT(a, b)
    if isinstance(a, (bool, str, float)) or isinstance(b, (bool, str, float)):
        raise Unjudged('arithmetic-on-non-integers')
    if op == '+':
        return a + b
    if op == '-':
        return a - b
    raise ValueError(op)


def show(v):
    """Observation string (the format of xlmc.lib.norm) of a reference value."""
    if v is ERR:
        return 'err:*'
    if isinstance(v, bool):
        return 'bool:%s' % v
    if isinstance(v, int):
        return 'num:%r' % float(v)
    if isinstance(v, str):
        return 'text:%s' % v
    raise TypeError(v)


def accepts(want, got):
    """Does the observation ``got`` satisfy the expected observation?"""
    if want == 'err:*':
        return got.startswith('err:')
    return want == got


# -- input features (tags) -------------------------------------------------
def _arg_tags(args, text_positions):
    tags = set()
    for i in text_positions:
        if i < len(args):
            a = args[i]
            if isinstance(a, bool):
                tags.add('arg:bool')
            elif isinstance(a, (int, float)):
                tags.add('arg:number')
    return tags


def _count_tags(n, length, prefix='count'):
    if n is None:
        return {prefix + ':omitted'}
    if n < 0:
        return {prefix + ':negative'}
    if n == 0:
        return {prefix + ':zero'}
    if n > length:
        return {prefix + ':beyond'}
    return set()


def _pos_tags(p, length):
    if p is None:
        return {'pos:omitted'}
    if p < 1:
        return {'pos:below-1'}
    if p > length:
        return {'pos:beyond'}
    return set()


def occurrences(t, s):
    """1-based start positions (overlaps included) at which t occurs in s."""
    return [q for q in range(1, len(s) - len(t) + 2)
            if s[q - 1:q - 1 + len(t)] == t]


def slice_tags(s, p, k):
    """Features of the part of s that REPLACE(s, p, k, .) removes."""
    if p < 1 or k < 0:
        return set()
    sl = s[p - 1:p - 1 + k]
    if sl == '':
        return {'slice:empty'}
    if [q for q in occurrences(sl, s) if q != p]:
        return {'slice:repeats'}
    return set()


def features(name, args):
    """Feature tags of one call with literal arguments (values as given to
    the reference; an omitted optional argument = shorter list)."""
    args = [a[2] if isinstance(a, list) and a and a[0] == 'cell' else a
            for a in args]
    tags = {'fn:' + name}
    textpos = {'LEN': (0,), 'LEFT': (0,), 'RIGHT': (0,), 'MID': (0,),
               'FIND': (0, 1), 'REPLACE': (0, 3), 'UPPER': (0,),
               'LOWER': (0,), 'TRIM': (0,), 'EXACT': (0, 1),
               '&': (0, 1)}.get(name, tuple(range(len(args))))
    tags |= _arg_tags(args, textpos)
    try:
        if name in ('CONCAT', 'CONCATENATE', '&', 'EXACT'):
            if all(text_form(a) == '' for a in args):
                tags.add('text:empty')
            return tags
        s = text_form(args[1] if name == 'FIND' else args[0])
    except Unjudged:
        return tags
    n = len(s)
    if s == '':
        tags.add('text:empty')
    if name in ('LEFT', 'RIGHT'):
        tags |= _count_tags(args[1] if len(args) > 1 else None, n)
    elif name == 'MID':
        tags |= _pos_tags(args[1], n) | _count_tags(args[2], n)
    elif name == 'FIND':
        p = args[2] if len(args) > 2 else None
        tags |= _pos_tags(p, n)
        t = text_form(args[0])
        if t == '':
            tags.add('needle:empty')
        elif not occurrences(t, s):
            tags.add('needle:absent')
            if occurrences(t.lower(), s.lower()):
                tags.add('needle:case-variant')
    elif name == 'REPLACE':
        tags |= _pos_tags(args[1], n) | _count_tags(args[2], n)
        tags |= slice_tags(s, args[1], args[2])
    elif name == 'TRIM':
        if s != s.strip(' '):
            tags.add('blanks:outer')
        if '  ' in s.strip(' '):
            tags.add('blanks:inner-run')
    return tags


# -- self test ---------------------------------------------------------------
def selftest():
    """Facts from the function descriptions of Excel's documentation and from
    the property statement (none of them comes from the library)."""
    assert LEFT('Sale Price', 4) == 'Sale' and LEFT('Sweden') == 'S'
    assert RIGHT('Sale Price', 5) == 'Price' and RIGHT('Stock Number') == 'r'
    assert MID('Fluid Flow', 1, 5) == 'Fluid'
    assert MID('Fluid Flow', 7, 20) == 'Flow'
    assert MID('Fluid Flow', 20, 5) == ''
    assert FIND('M', 'Miriam McGovern') == 1
    assert FIND('m', 'Miriam McGovern') == 6
    assert FIND('M', 'Miriam McGovern', 3) == 8
    assert FIND('B', 'Miriam McGovern') is ERR
    assert REPLACE('abcdefghijk', 6, 5, '*') == 'abcde*k'
    assert REPLACE('2009', 3, 2, '10') == '2010'
    assert REPLACE('123456', 1, 3, '@') == '@456'
    assert TRIM(' First Quarter Earnings ') == 'First Quarter Earnings'
    assert UPPER('total') == 'TOTAL' and LOWER('E. E. Cummings') == \
        'e. e. cummings'
    assert EXACT('word', 'word') and not EXACT('Word', 'word')
    assert LEN('Phoenix, AZ') == 11 and LEN('') == 0 and LEN('    One') == 7
    assert CONCAT('The', ' ', 'sun') == 'The sun'
    # clauses of the property statement
    assert RIGHT('abc', 0) == '' and LEFT('abc', 0) == '' and \
        MID('abc', 2, 0) == ''
    assert LEFT('abc', -1) is ERR and RIGHT('abc', -1) is ERR
    assert MID('abc', 0, 1) is ERR and MID('abc', 1, -1) is ERR
    assert FIND('a', 'abc', 0) is ERR and FIND('c', 'abc', -1) is ERR
    assert REPLACE('abc', 0, 1, 'x') is ERR and \
        REPLACE('abc', 1, -1, 'x') is ERR
    assert LEFT('abc', 9) == 'abc' and RIGHT('abc', 9) == 'abc' and \
        MID('abc', 2, 9) == 'bc' and MID('abc', 4, 1) == ''
    assert REPLACE('abab', 1, 1, 'X') == 'Xbab'       # one occurrence only
    assert REPLACE('abab', 3, 0, 'X') == 'abXab'      # insertion
    assert REPLACE('ab', 9, 1, 'X') == 'abX'
    assert TRIM(' a  b ') == 'a b' and TRIM('   ') == ''
    assert FIND('a', 'abca', 2) == 4 and FIND('A', 'abca') is ERR
    assert FIND('', 'abc', 2) == 2 and FIND('', 'abc', 5) is ERR
    assert FIND('ab', 'aab') == 2 and FIND('abc', 'ab') is ERR
    assert text_form(True) == 'TRUE' and text_form(False) == 'FALSE'
    assert text_form(7) == '7' and text_form(-2) == '-2' and \
        text_form(1.5) == '1.5' and text_form(0) == '0'
    assert text_form(7.0) == '7' and text_form(-3.0) == '-3'
    for bad in (1e20, 0.1 + 0.2):
        try:
            text_form(bad)
        except Unjudged:
            pass
        else:
            raise AssertionError(bad)
    try:
        FIND('', 'abc', 4)
    except Unjudged:
        pass
    else:
        raise AssertionError('FIND empty needle one past the end')
    assert LEN(True) == 4 and LEFT(1.5, 2) == '1.' and CONCAT(-2, True) == \
        '-2TRUE' and EXACT(7, '7')
    # the five identities hold in the model over a small complete space
    alphabet = ('a', 'b', ' ', '"', 'é')
    texts = ['']
    for _ in range(3):
        texts += [t + c for t in texts for c in alphabet]
    texts = sorted(set(texts), key=lambda t: (len(t), t))
    assert len(texts) == 156
    for s in texts:
        ln = LEN(s)
        assert evaluate(['f', 'LEN', [s]]) == ln
        for n in range(0, ln + 1):
            assert CONCAT(LEFT(s, n), RIGHT(s, ln - n)) == s
        for n in range(0, 6):
            assert MID(s, 1, n) == LEFT(s, n)
        for p in range(1, 6):
            for k in range(0, 5):
                for t in ('', 'X', 'ab'):
                    assert REPLACE(s, p, k, t) == CONCAT(
                        LEFT(s, p - 1), t, MID(s, p + k, ln)), (s, p, k, t)
        for t in texts[:31]:
            assert LEN(CONCAT(s, t)) == LEN(s) + LEN(t)
            for p in range(1, 6):
                if t == '' and p == ln + 1:
                    continue
                q = FIND(t, s, p)
                occ = [o for o in occurrences(t, s) if o >= p]
                assert (q is ERR and not occ) or q == occ[0], (t, s, p, q)
                if q is not ERR:
                    assert MID(s, q, LEN(t)) == t
        assert TRIM(TRIM(s)) == TRIM(s) and '  ' not in TRIM(s)
        assert LOWER(UPPER(s)) == LOWER(s)
    assert show(ERR) == 'err:*' and show(3) == 'num:3.0' and \
        show('a') == 'text:a' and show(True) == 'bool:True'
    assert accepts('err:*', 'err:#VALUE!') and accepts('err:*', 'err:#NUM!')
    assert not accepts('err:*', 'text:') and not accepts('text:a', 'text:A')
    assert slice_tags('abab', 1, 1) == {'slice:repeats'}
    assert slice_tags('abab', 1, 4) == set()
    assert slice_tags('ab', 3, 1) == {'slice:empty'}
    assert slice_tags('aaa', 2, 2) == {'slice:repeats'}
    assert features('RIGHT', ['abc', 0]) == {'fn:RIGHT', 'count:zero'}
    assert features('FIND', ['A', 'abc', 0]) == {
        'fn:FIND', 'pos:below-1', 'needle:absent', 'needle:case-variant'}
    assert features('TRIM', [' a  b']) == {
        'fn:TRIM', 'blanks:outer', 'blanks:inner-run'}
    assert features('LEFT', [True, 2]) == {'fn:LEFT', 'arg:bool'}
    assert evaluate(['&', ['f', 'LEFT', ['abc', 1]],
                     ['f', 'RIGHT', ['abc', ['-', ['f', 'LEN', ['abc']],
                                             1]]]]) == 'abc'
    assert evaluate(['f', 'LEFT', [['f', 'MID', ['abc', 0, 1]], 1]]) is ERR


if __name__ == '__main__':
    selftest()
    print('text1 selftest ok')
