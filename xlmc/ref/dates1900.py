"""Reference model of Excel's 1900 date system (DESIGN.md A.4), built on
``datetime.date`` ordinals.  Never imports xlcalculator.

  serial s >= 61      <->  1899-12-30 + s days
  serial 1 <= s <= 59 <->  1899-12-31 + s days   (1 = 1900-01-01, 59 = 1900-02-28)
  serial 60           =    the non-existent 1900-02-29: no calendar date
  last serial 2958465 =    9999-12-31

Everything that depends on how the phantom day is counted (weekdays before
it, day counts and day carries across it, the length of February 1900) is
*refused* (``None`` / ``Unjudged``) rather than guessed: Excel and the
Gregorian calendar differ there and the property names only three anchors.
"""
import calendar
import datetime

MIN_SERIAL = 1
MAX_SERIAL = 2958465
PHANTOM = 60
_BASE = datetime.date(1899, 12, 30).toordinal()


class Unjudged(Exception):
    """The reference declines to judge (reason in args[0])."""


class Beyond(Unjudged):
    """The result would lie after 9999-12-31: there is no such date.  Which
    error value stands for that is not fixed - but it is an error value, not a
    date and not a Python exception."""


# -- serial <-> date -------------------------------------------------------
def date_of(serial):
    """datetime.date of a whole serial; None for 60 and outside 1..MAX."""
    if 61 <= serial <= MAX_SERIAL:
        return datetime.date.fromordinal(_BASE + serial)
    if 1 <= serial <= 59:
        return datetime.date.fromordinal(_BASE + serial + 1)
    return None


def serial_of(d):
    """Serial of a datetime.date (None before 1900-01-01)."""
    n = d.toordinal() - _BASE
    if n >= 61:
        return n
    n -= 1
    return n if n >= 1 else None


def in_range(serial):
    return MIN_SERIAL <= serial <= MAX_SERIAL


def fields(serial):
    d = date_of(serial)
    return (d.year, d.month, d.day)


# -- weekday / ISO week (defined for serial >= 61 only) --------------------
def sunday0(serial):
    """0 = Sunday .. 6 = Saturday, by modular arithmetic on the serial."""
    assert serial >= 61
    return (serial - 1) % 7


WEEKDAY_TYPES = (1, 2, 3, 11, 12, 13, 14, 15, 16, 17)
# first day of the week (0 = Sunday) and the number it receives
_WD_FIRST = {1: (0, 1), 2: (1, 1), 3: (1, 0), 11: (1, 1), 12: (2, 1),
             13: (3, 1), 14: (4, 1), 15: (5, 1), 16: (6, 1), 17: (0, 1)}


def weekday(serial, rtype=None):
    first, base = _WD_FIRST[1 if rtype is None else rtype]
    return (sunday0(serial) - first) % 7 + base


def is_leap(y):
    return y % 4 == 0 and (y % 100 != 0 or y % 400 == 0)


_MDAYS = (31, 28, 31, 30, 31, 30, 31, 31, 30, 31, 30, 31)


def days_in_month(y, m):
    return 29 if (m == 2 and is_leap(y)) else _MDAYS[m - 1]


def isoweeknum(serial):
    """ISO 8601 week number: the week (Monday..Sunday) belongs to the year
    that holds its Thursday."""
    monday0 = (sunday0(serial) + 6) % 7
    thursday = serial - monday0 + 3
    if thursday > MAX_SERIAL:           # 9999-12-31 is a Friday: not reached
        y = 10000
        jan1 = MAX_SERIAL + 1
    else:
        if thursday < 61:
            raise Unjudged('iso-week-reaches-before-1900-03-01')
        y = date_of(thursday).year
        jan1 = serial_of(datetime.date(y, 1, 1))
        if jan1 < 61:
            # day-of-year counted across the phantom day: use ordinals
            return (date_of(thursday).toordinal()
                    - datetime.date(y, 1, 1).toordinal()) // 7 + 1
    return (thursday - jan1) // 7 + 1


# -- DATE ------------------------------------------------------------------
def date_serial(y, m, d):
    """Serial of DATE(y, m, d) with month and day carries, for 1900 <= y <=
    9999.  Raises Unjudged when the result leaves 1..MAX_SERIAL, or when the
    day carry crosses the phantom 1900-02-29."""
    if not 1900 <= y <= 9999:
        raise Unjudged('date-year-outside-1900..9999')
    months = y * 12 + (m - 1)
    yy, mm = months // 12, months % 12 + 1
    if yy > 9999:
        raise Beyond('date-result-after-9999')
    if yy < 1900:
        raise Unjudged('date-result-out-of-range')
    first = datetime.date(yy, mm, 1).toordinal()
    o = first + (d - 1)
    lo = datetime.date(1900, 1, 1).toordinal()
    hi = datetime.date(9999, 12, 31).toordinal()
    if o > hi:
        raise Beyond('date-result-after-9999')
    if o < lo:
        raise Unjudged('date-result-out-of-range')
    s_first = serial_of(datetime.date(yy, mm, 1))
    s = serial_of(datetime.date.fromordinal(o))
    if (s_first >= 61) != (s >= 61):
        raise Unjudged('day-carry-across-phantom-1900-02-29')
    return s


# -- EDATE / EOMONTH -------------------------------------------------------
def _shift(serial, k):
    d = date_of(serial)
    if d is None:
        raise Unjudged('start-is-phantom-or-out-of-range')
    months = d.year * 12 + (d.month - 1) + k
    y, m = months // 12, months % 12 + 1
    if y > 9999:
        raise Beyond('month-shift-result-after-9999')
    if y < 1900:
        raise Unjudged('month-shift-result-out-of-range')
    return d, y, m


def edate(serial, k):
    d, y, m = _shift(serial, k)
    dim = days_in_month(y, m)
    if (y, m) == (1900, 2) and d.day > 28:
        raise Unjudged('clip-to-february-1900')
    return serial_of(datetime.date(y, m, min(d.day, dim)))


def eomonth(serial, k):
    d, y, m = _shift(serial, k)
    if (y, m) == (1900, 2):
        raise Unjudged('end-of-february-1900')
    return serial_of(datetime.date(y, m, days_in_month(y, m)))


def shifted_first_reference(serial, k):
    """Serial of the unclipped-day-1 date of the target month (a feature of
    the input used for tags)."""
    d, y, m = _shift(serial, k)
    return serial_of(datetime.date(y, m, 1))


# -- pairs -----------------------------------------------------------------
def straddles_phantom(s1, s2):
    return (s1 >= 61) != (s2 >= 61)


def serial_difference(s_start, s_end):
    """DAYS / subtraction of dates: in the 1900 system a date IS its serial,
    so the difference of two dates is the difference of their serials - also
    across the phantom day (1900-03-01 minus 1900-02-28 is 61 - 59 = 2, as in
    Excel).  Only the phantom day itself is not judged."""
    if s_start == PHANTOM or s_end == PHANTOM:
        raise Unjudged('phantom-day')
    return s_end - s_start


def days_between(s_start, s_end):
    if s_start == PHANTOM or s_end == PHANTOM:
        raise Unjudged('phantom-day')
    if straddles_phantom(s_start, s_end):
        raise Unjudged('day-count-across-phantom-1900-02-29')
    return s_end - s_start


def is_month_end(s):
    y, m, d = fields(s)
    return d == days_in_month(y, m)


def datedif(s1, s2, unit):
    """D / M / Y for s1 <= s2.  'M' = 12*dy + dm - [day2 < day1], 'Y' = that
    div 12 (DESIGN.md fixed this rule in advance; it is Excel's: a month
    counts once the day of the start date is reached again, so 31 Jan -> 28
    Feb is 0 complete months - a rule that clips the start day to the end of
    a shorter month would say 1)."""
    if s1 > s2:
        raise Unjudged('datedif-start-after-end')
    if unit == 'D':
        return days_between(s1, s2)
    if s1 == PHANTOM or s2 == PHANTOM:
        raise Unjudged('phantom-day')
    y1, m1, d1 = fields(s1)
    y2, m2, d2 = fields(s2)
    if (y2, m2) == (1900, 2) and d1 > 28:
        raise Unjudged('end-of-february-1900')
    months = 12 * (y2 - y1) + (m2 - m1) - (1 if d2 < d1 else 0)
    if unit == 'M':
        return months
    if unit == 'Y':
        return months // 12
    raise Unjudged('datedif-unit-not-in-statement')


def _feb29_between(d1, d2):
    """Excel's rule for spans of at most one year: 366 when a 29 February
    lies in [d1, d2]."""
    for y in (d1.year, d2.year):
        if is_leap(y):
            f = datetime.date(y, 2, 29)
            if d1 <= f <= d2:
                return True
    return False


def yearfrac(s1, s2, basis):
    """YEARFRAC for s1 <= s2.  Returns (value, tolerance)."""
    if s1 > s2:
        raise Unjudged('yearfrac-start-after-end')
    days = days_between(s1, s2)
    if basis == 2:
        return days / 360, 0.0
    if basis == 3:
        return days / 365, 0.0
    y1, m1, d1 = fields(s1)
    y2, m2, d2 = fields(s2)
    if basis in (0, 4):
        if d1 > 28 or d2 > 28:
            raise Unjudged('30-360-day-of-month-29-31')
        if basis == 0 and (
                (m1 == 2 and d1 == days_in_month(y1, 2)) or
                (m2 == 2 and d2 == days_in_month(y2, 2))):
            # the US convention turns the last day of February into the
            # 30th; the European one (basis 4) knows no such rule: 28 is 28
            raise Unjudged('30-360-us-last-day-of-february')
        return (360 * (y2 - y1) + 30 * (m2 - m1) + (d2 - d1)) / 360, 0.0
    if basis == 1:
        if y1 == 1900:
            # Excel counts 1900 as a leap year; the Gregorian year has 365
            raise Unjudged('actual-actual-length-of-year-1900')
        a, b = date_of(s1), date_of(s2)
        if days == 0:
            return 0.0, 1e-3
        within_a_year = y1 == y2 or (
            y2 == y1 + 1 and (m1 > m2 or (m1 == m2 and d1 >= d2)))
        if within_a_year:
            if y1 == y2:
                den = 366 if is_leap(y1) else 365
            else:
                den = 366 if _feb29_between(a, b) else 365
            return days / den, 1e-3
        nyears = y2 - y1 + 1
        span = (datetime.date(y2 + 1, 1, 1).toordinal()
                - datetime.date(y1, 1, 1).toordinal()) if y2 < 9999 else (
            datetime.date(9999, 12, 31).toordinal() + 1
            - datetime.date(y1, 1, 1).toordinal())
        return days / (span / nyears), 1e-3
    raise Unjudged('yearfrac-basis-not-in-statement')


def basis1_kind(s1, s2):
    """Input feature for tags: how basis 1 spans calendar years."""
    y1, m1, d1 = fields(s1)
    y2, m2, d2 = fields(s2)
    if y1 == y2:
        return 'same-year'
    if y2 == y1 + 1 and (m1 > m2 or (m1 == m2 and d1 >= d2)):
        return 'within-one-year'
    return 'multi-year'


# -- self test -------------------------------------------------------------
def selftest():
    D = datetime.date
    # anchors named by the property and by DESIGN.md A.4
    assert date_of(1) == D(1900, 1, 1)
    assert date_of(59) == D(1900, 2, 28)
    assert date_of(60) is None
    assert date_of(61) == D(1900, 3, 1)
    assert date_of(MAX_SERIAL) == D(9999, 12, 31)
    assert date_of(0) is None and date_of(MAX_SERIAL + 1) is None
    # well-known serials
    for s, d in ((2, D(1900, 1, 2)), (32, D(1900, 2, 1)), (367, D(1901, 1, 1)),
                 (25569, D(1970, 1, 1)), (36526, D(2000, 1, 1)),
                 (36585, D(2000, 2, 29)), (39448, D(2008, 1, 1)),
                 (43831, D(2020, 1, 1)), (44197, D(2021, 1, 1)),
                 (45658, D(2025, 1, 1)), (73051, D(2100, 1, 1))):
        assert date_of(s) == d and serial_of(d) == s, (s, d)
    assert serial_of(D(1899, 12, 31)) is None
    # bijection on a sample of the whole range, against toordinal
    prev = None
    for s in list(range(1, 3000)) + list(range(61, MAX_SERIAL, 997)) + \
            list(range(MAX_SERIAL - 800, MAX_SERIAL + 1)):
        d = date_of(s)
        if s == 60:
            assert d is None
            continue
        assert serial_of(d) == s
        if s >= 61:
            assert d.toordinal() - D(1899, 12, 30).toordinal() == s
            # weekday / ISO week against the datetime module
            wd = d.weekday()                      # Monday = 0
            assert sunday0(s) == (wd + 1) % 7
            assert weekday(s) == weekday(s, 1) == weekday(s, 17) == \
                (wd + 1) % 7 + 1
            assert weekday(s, 2) == weekday(s, 11) == wd + 1
            assert weekday(s, 3) == wd
            for t, first in ((12, 1), (13, 2), (14, 3), (15, 4), (16, 5)):
                assert weekday(s, t) == (wd - first) % 7 + 1
            try:
                assert isoweeknum(s) == d.isocalendar()[1], s
            except Unjudged:
                assert s < 64
        if prev is not None and s == prev[0] + 1 and s != 61:
            assert d == prev[1] + datetime.timedelta(days=1)
        prev = (s, d)
    # fixed weekday / week facts (calendar knowledge, not the library)
    assert weekday(43831) == 4            # 2020-01-01 was a Wednesday
    assert weekday(39492) == 5            # 2008-02-14 was a Thursday
    assert weekday(MAX_SERIAL) == 6       # 9999-12-31 is a Friday
    assert weekday(61) == 5               # 1900-03-01 was a Thursday
    assert isoweeknum(43831) == 1 and isoweeknum(44197) == 53
    assert isoweeknum(36526) == 52 and isoweeknum(40977) == 10  # 2012-03-09
    assert isoweeknum(MAX_SERIAL) == 52
    for y in (1900, 1999, 2000, 2023, 2024, 2100, 2400):
        assert is_leap(y) == calendar.isleap(y)
        for m in range(1, 13):
            assert days_in_month(y, m) == calendar.monthrange(y, m)[1]
    # DATE carries
    assert date_serial(2020, 1, 1) == 43831
    assert date_serial(2009, 14, 1) == serial_of(D(2010, 2, 1))
    assert date_serial(2009, -1, 1) == serial_of(D(2008, 11, 1))
    assert date_serial(2009, 1, -1) == serial_of(D(2008, 12, 30))
    assert date_serial(2009, 1, 400) == serial_of(D(2010, 2, 4))
    assert date_serial(2008, 1, 35) == serial_of(D(2008, 2, 4))  # Excel docs
    assert date_serial(2008, 1, -15) == serial_of(D(2007, 12, 16))
    assert date_serial(2008, 14, 2) == serial_of(D(2009, 2, 2))
    assert date_serial(2008, -3, 2) == serial_of(D(2007, 9, 2))
    assert date_serial(2020, 0, 0) == serial_of(D(2019, 11, 30))
    assert date_serial(1900, 1, 1) == 1 and date_serial(1900, 2, 28) == 59
    assert date_serial(1900, 3, 1) == 61 and date_serial(9999, 12, 31) == \
        MAX_SERIAL
    for bad in ((1900, 1, 0), (9999, 12, 32), (1900, 2, 29), (1900, 3, 0),
                (1900, 0, 1), (9999, 13, 1), (1899, 1, 1), (10000, 1, 1)):
        try:
            date_serial(*bad)
        except Unjudged:
            pass
        else:
            raise AssertionError(bad)
    # EDATE / EOMONTH (Excel documentation examples and clipping)
    s = serial_of
    assert edate(s(D(2011, 1, 15)), 1) == s(D(2011, 2, 15))
    assert edate(s(D(2011, 1, 15)), -1) == s(D(2010, 12, 15))
    assert edate(s(D(2020, 1, 31)), 1) == s(D(2020, 2, 29))
    assert edate(s(D(2019, 1, 31)), 1) == s(D(2019, 2, 28))
    assert edate(s(D(2020, 2, 29)), 12) == s(D(2021, 2, 28))
    assert edate(s(D(2020, 3, 31)), -1) == s(D(2020, 2, 29))
    assert eomonth(s(D(2011, 1, 1)), 1) == s(D(2011, 2, 28))
    assert eomonth(s(D(2011, 1, 1)), -3) == s(D(2010, 10, 31))
    assert eomonth(1, 0) == 31 and eomonth(61, 0) == 91
    # DATEDIF
    a, b = s(D(2001, 6, 1)), s(D(2002, 8, 15))
    assert datedif(a, b, 'D') == 440 and datedif(a, b, 'M') == 14 and \
        datedif(a, b, 'Y') == 1
    assert datedif(s(D(2011, 1, 1)), s(D(2011, 12, 31)), 'M') == 11
    assert datedif(s(D(2011, 1, 1)), s(D(2012, 12, 31)), 'Y') == 1
    assert datedif(s(D(2020, 1, 31)), s(D(2020, 3, 1)), 'M') == 1
    assert datedif(s(D(2020, 2, 29)), s(D(2021, 3, 1)), 'Y') == 1
    assert datedif(s(D(2020, 1, 15)), s(D(2020, 2, 14)), 'M') == 0
    assert datedif(s(D(2020, 1, 15)), s(D(2020, 2, 15)), 'M') == 1
    assert datedif(s(D(2020, 1, 31)), s(D(2020, 2, 29)), 'M') == 0
    assert datedif(s(D(2020, 2, 29)), s(D(2021, 2, 28)), 'Y') == 0
    # YEARFRAC (Excel documentation examples)
    a, b = s(D(2012, 1, 1)), s(D(2012, 7, 30))
    assert abs(yearfrac(a, b, 1)[0] - 0.57650273) < 1e-8
    assert abs(yearfrac(a, b, 3)[0] - 0.57808219) < 1e-8
    assert abs(yearfrac(s(D(2008, 1, 1)), s(D(2015, 4, 20)), 0)[0]
               - 7.30277777777778) < 1e-12
    assert abs(yearfrac(s(D(2008, 1, 1)), s(D(2015, 4, 20)), 2)[0]
               - 7.405555556) < 1e-8
    assert yearfrac(s(D(2024, 1, 1)), s(D(2025, 1, 1)), 1)[0] == 1.0
    assert yearfrac(s(D(2023, 1, 1)), s(D(2024, 1, 1)), 1)[0] == 1.0
    assert abs(yearfrac(s(D(2023, 6, 1)), s(D(2024, 3, 1)), 1)[0]
               - 274 / 366) < 1e-12
    # multi-year: days / mean length of the calendar years touched
    assert abs(yearfrac(s(D(2001, 1, 1)), s(D(2004, 1, 1)), 1)[0]
               - 1095 / 365.25) < 1e-12
    for bad in ((s(D(2020, 1, 30)), s(D(2020, 3, 1)), 0),
                (s(D(2019, 2, 28)), s(D(2019, 3, 1)), 0),
                (59, 61, 2)):
        try:
            yearfrac(*bad)
        except Unjudged:
            pass
        else:
            raise AssertionError(bad)
    # European 30/360 has no end-of-February rule
    assert yearfrac(s(D(2019, 2, 28)), s(D(2019, 3, 28)), 4)[0] == 30 / 360
    assert yearfrac(s(D(2019, 2, 28)), s(D(2020, 2, 28)), 4)[0] == 1.0
    assert serial_difference(59, 61) == 2
    return True


if __name__ == '__main__':
    selftest()
    print('dates1900 selftest ok')
