"""Reference lazy evaluator for IF / AND / OR / NOT (property C10).

Independent of xlcalculator (never imports it).

Expression nodes (tuples or lists, JSON-able):

    ('lit', text, value)      literal; value is bool / float / str
    ('ref', 'A1')             cell reference, value from the environment
    ('rng', 'A1:B2', cells)   range; cells = addresses in row-major order
    ('err', text, code)       expression that yields an error VALUE ('1/0')
    ('raise', text)           expression whose evaluation raises in the
                              library (unknown function, circular reference)
    ('spy', k, sub)           SPY(k, sub): eager function, logs k, returns sub
    ('wrapraise', text, sub)  unknown function around sub: NOSUCH(sub)
    ('if', c, a) / ('if', c, a, b)
    ('and', [args]) / ('or', [args]) / ('not', x)
    ('gt', x, y)              x > y

Environment: cell address -> bool / float / None (blank, also when absent) /
Err.

What the property fixes is returned; what it leaves open raises ``Unjudged``:
an error, a text or an array as an IF condition or NOT argument (errors are
property C07's), AND/OR whose evaluated elements are all blank, text elements
of AND/OR, ``>`` with a blank, and any result that depends on whether AND/OR
short-circuits.  ``Raises`` = the selected path meets a raising construct
(unspecified: the property only speaks about the *unselected* branch).
"""
import itertools

from . import order


class Err:
    __slots__ = ('code',)

    def __init__(self, code):
        self.code = code

    def __eq__(self, other):
        return isinstance(other, Err) and other.code == self.code

    def __hash__(self):
        return hash(('Err', self.code))

    def __repr__(self):
        return 'Err(%s)' % self.code


class Arr(tuple):
    """Elements of a range in row-major order."""


class Unjudged(Exception):
    pass


class Raises(Exception):
    pass


class Res:
    __slots__ = ('value', 'run', 'norun', 'may')

    def __init__(self, value, run=(), norun=(), may=()):
        self.value = value
        self.run = set(run)        # spies that must have run
        self.norun = set(norun)    # spies that must not have run
        self.may = set(may)        # spies that may or may not run

    def absorb(self, other, as_may=False):
        if as_may:
            self.may |= other.run | other.may
        else:
            self.run |= other.run
            self.may |= other.may
        self.norun |= other.norun


def spies(node):
    """All spy ids occurring syntactically in ``node``."""
    k = node[0]
    if k == 'spy':
        return {node[1]} | spies(node[2])
    if k == 'wrapraise':
        return spies(node[2])
    if k == 'if':
        out = set()
        for sub in node[1:]:
            out |= spies(sub)
        return out
    if k in ('and', 'or'):
        out = set()
        for sub in node[1]:
            out |= spies(sub)
        return out
    if k == 'not':
        return spies(node[1])
    if k == 'gt':
        return spies(node[1]) | spies(node[2])
    return set()


def render(node):
    k = node[0]
    if k in ('lit', 'err', 'raise', 'ref', 'rng'):
        return node[1]
    if k == 'spy':
        return 'SPY(%d,%s)' % (node[1], render(node[2]))
    if k == 'wrapraise':
        return '%s(%s)' % (node[1], render(node[2]))
    if k == 'if':
        return 'IF(%s)' % ','.join(render(s) for s in node[1:])
    if k in ('and', 'or'):
        return '%s(%s)' % (k.upper(), ','.join(render(s) for s in node[1]))
    if k == 'not':
        return 'NOT(%s)' % render(node[1])
    if k == 'gt':
        return '%s>%s' % (render(node[1]), render(node[2]))
    raise AssertionError(node)


def refs(node):
    """Cell addresses read by the expression (ranges expanded)."""
    k = node[0]
    if k == 'ref':
        return {node[1]}
    if k == 'rng':
        return set(node[2])
    if k in ('spy', 'wrapraise'):
        return refs(node[2])
    if k == 'if':
        return set().union(*[refs(s) for s in node[1:]])
    if k in ('and', 'or'):
        return set().union(*[refs(s) for s in node[1]])
    if k == 'not':
        return refs(node[1])
    if k == 'gt':
        return refs(node[1]) | refs(node[2])
    return set()


# -- truth ---------------------------------------------------------------
def is_number(v):
    return isinstance(v, (int, float)) and not isinstance(v, bool)


def condition_truth(v):
    """Truth of an IF condition / NOT argument."""
    if isinstance(v, bool):
        return v
    if is_number(v):
        return v != 0
    if v is None:
        return False
    if isinstance(v, Err):
        raise Unjudged('error-as-condition(C07)')
    if isinstance(v, str):
        raise Unjudged('text-as-condition')
    raise Unjudged('array-as-condition')


def elements(v):
    return list(v) if isinstance(v, Arr) else [v]


# -- AND / OR ---------------------------------------------------------------
UNJUSTIFIED = 'UNJUSTIFIED'


def andor_given(kind, arg_elems, evaluated):
    """Outcome fixed by the property when exactly the arguments in
    ``evaluated`` (indices) were evaluated.

    Returns a set of acceptable values; UNJUSTIFIED when an argument was left
    out although no evaluated element decides the result; raises Unjudged."""
    evaluated = sorted(evaluated)
    elems = [e for i in evaluated for e in arg_elems[i]]
    errs = [e for e in elems if isinstance(e, Err)]
    if any(isinstance(e, str) for e in elems):
        raise Unjudged('text-operand-of-and-or')
    if errs:
        return set(errs)
    truths = [condition_truth(e) for e in elems if e is not None]
    decisive = (kind == 'or')
    complete = len(evaluated) == len(arg_elems)
    if decisive in truths:
        return {decisive}
    if not complete:
        return UNJUSTIFIED
    if not truths:
        raise Unjudged('no-non-blank-element')
    return {not decisive}


def andor_any(kind, arg_elems):
    """Union of the outcomes over every legal set of evaluated arguments
    (all of them, or any subset that contains a deciding element)."""
    n = len(arg_elems)
    out = set()
    for r in range(1, n + 1):
        for ev in itertools.combinations(range(n), r):
            res = andor_given(kind, arg_elems, ev)   # may raise Unjudged
            if res is not UNJUSTIFIED:
                out |= res
    return out


def legal_skip_possible(kind, arg_elems):
    """Can a conforming implementation leave an argument unevaluated?"""
    n = len(arg_elems)
    for r in range(1, n):
        for ev in itertools.combinations(range(n), r):
            try:
                if andor_given(kind, arg_elems, ev) is not UNJUSTIFIED:
                    return True
            except Unjudged:
                continue
    return False


# -- evaluation -----------------------------------------------------------
def evaluate(node, env):
    k = node[0]
    if k == 'lit':
        return Res(node[2])
    if k == 'ref':
        return Res(env.get(node[1]))
    if k == 'rng':
        return Res(Arr(env.get(c) for c in node[2]))
    if k == 'err':
        return Res(Err(node[2]))
    if k == 'raise':
        raise Raises(node[1])
    if k == 'wrapraise':
        raise Raises(node[1])
    if k == 'spy':
        r = evaluate(node[2], env)
        r.run.add(node[1])
        return r
    if k == 'not':
        r = evaluate(node[1], env)
        r.value = not condition_truth(r.value)
        return r
    if k == 'gt':
        a, b = evaluate(node[1], env), evaluate(node[2], env)
        a.absorb(b)
        x, y = a.value, b.value
        for v in (x, y):
            if not (isinstance(v, bool) or is_number(v)):
                raise Unjudged('comparison-operand-not-number-or-logical(C09)')

        def abstract(v):
            return ('bool', v) if isinstance(v, bool) else ('num', float(v))
        a.value = order.holds('gt', abstract(x), abstract(y))
        return a
    if k == 'if':
        r = evaluate(node[1], env)
        t = condition_truth(r.value)
        branches = list(node[2:])
        idx = 0 if t else 1
        sel = branches[idx] if idx < len(branches) else None
        for i, other in enumerate(branches):
            if i != idx:
                r.norun |= spies(other)
        if sel is None:
            r.value = False
            return r
        rs = evaluate(sel, env)
        r.absorb(rs)
        r.value = rs.value
        return r
    if k in ('and', 'or'):
        parts = []
        for arg in node[1]:
            try:
                parts.append(evaluate(arg, env))
            except Raises:
                raise Unjudged('raising-argument-of-and-or')
        arg_elems = [elements(p.value) for p in parts]
        outcomes = andor_any(k, arg_elems)
        if len(outcomes) != 1:
            raise Unjudged('depends-on-short-circuit')
        skippable = legal_skip_possible(k, arg_elems)
        r = Res(next(iter(outcomes)))
        for p in parts:
            r.absorb(p, as_may=skippable)
        return r
    raise AssertionError(node)


def selftest():
    T, F = ('lit', 'TRUE', True), ('lit', 'FALSE', False)
    A, B, C = ('ref', 'A1'), ('ref', 'B1'), ('ref', 'C1')
    D0 = ('err', '1/0', '#DIV/0!')
    NS = ('raise', 'NOSUCH()')

    def S(k, x):
        return ('spy', k, x)
    five = ('lit', '5', 5.0)
    # IF selects and is lazy (Excel documentation of IF; IF(FALSE,5) = FALSE)
    r = evaluate(('if', S(0, A), S(1, five), S(2, NS)), {'A1': True})
    assert r.value == 5.0 and r.run == {0, 1} and r.norun == {2}
    r = evaluate(('if', A, S(1, five), S(2, D0)), {'A1': 2.0})
    assert r.value == 5.0 and r.norun == {2}
    r = evaluate(('if', A, S(1, five), S(2, D0)), {})
    assert r.value == Err('#DIV/0!') and r.run == {2} and r.norun == {1}
    assert evaluate(('if', F, five), {}).value is False
    assert evaluate(('if', ('lit', '0', 0.0), five), {}).value is False
    assert evaluate(('if', ('lit', '-1', -1.0), five), {}).value == 5.0
    try:
        evaluate(('if', F, five, NS), {})
        raise AssertionError('selected raising branch')
    except Raises:
        pass
    try:
        evaluate(('if', D0, five, five), {})
        raise AssertionError
    except Unjudged:
        pass
    # NOT
    assert evaluate(('not', A), {'A1': 0.0}).value is True
    assert evaluate(('not', A), {'A1': 2.0}).value is False
    assert evaluate(('not', A), {}).value is True
    # AND / OR: AND(TRUE,2)=TRUE, AND(TRUE,0)=FALSE, OR(FALSE,0)=FALSE,
    # blanks ignored, all blank unjudged
    g = andor_given
    assert g('and', [[True], [2.0]], {0, 1}) == {True}
    assert g('and', [[True], [0.0]], {0, 1}) == {False}
    assert g('or', [[False], [0.0]], {0, 1}) == {False}
    assert g('or', [[False, None, 2.0]], {0}) == {True}
    assert g('and', [[True], [None]], {0, 1}) == {True}
    assert g('and', [[False], [Err('#DIV/0!')]], {0}) == {False}
    assert g('and', [[False], [Err('#DIV/0!')]], {0, 1}) == {Err('#DIV/0!')}
    assert g('and', [[True], [Err('#DIV/0!')]], {0}) is UNJUSTIFIED
    assert g('and', [[False, Err('#N/A')]], {0}) == {Err('#N/A')}
    assert g('or', [[Err('#N/A')], [Err('#DIV/0!')]], {0, 1}) == {
        Err('#N/A'), Err('#DIV/0!')}
    try:
        g('and', [[None], [None]], {0, 1})
        raise AssertionError
    except Unjudged:
        pass
    assert andor_any('and', [[False], [Err('#DIV/0!')]]) == {
        False, Err('#DIV/0!')}
    assert andor_any('and', [[Err('#DIV/0!')], [True]]) == {Err('#DIV/0!')}
    assert andor_any('or', [[False], [2.0], [0.0]]) == {True}
    assert legal_skip_possible('or', [[False], [2.0], [0.0]])
    assert not legal_skip_possible('and', [[True], [2.0]])
    # nested: spies of skippable arguments are neither required nor forbidden
    r = evaluate(('and', [S(1, A), S(2, B)]), {'A1': False, 'B1': True})
    assert r.value is False and r.may == {1, 2} and not r.run
    r = evaluate(('and', [S(1, A), S(2, B)]), {'A1': True, 'B1': 2.0})
    assert r.value is True and r.run == {1, 2}
    r = evaluate(('if', ('and', [A, ('or', [B, C])]), S(1, five), D0),
                 {'A1': True, 'B1': False, 'C1': 2.0})
    assert r.value == 5.0 and r.run == {1}
    try:
        evaluate(('and', [F, D0]), {})
        raise AssertionError
    except Unjudged:
        pass
    assert evaluate(('and', [T, D0]), {}).value == Err('#DIV/0!')
    # comparison: bool > number (C09 order), blank unjudged
    assert evaluate(('gt', A, ('lit', '1', 1.0)), {'A1': False}).value is True
    assert evaluate(('gt', A, ('lit', '1', 1.0)), {'A1': 0.0}).value is False
    try:
        evaluate(('gt', A, ('lit', '1', 1.0)), {})
        raise AssertionError
    except Unjudged:
        pass
    assert render(('if', ('and', [A, ('not', B)]), S(1, five), NS)) == \
        'IF(AND(A1,NOT(B1)),SPY(1,5),NOSUCH())'
    assert spies(('if', S(0, A), ('wrapraise', 'NOSUCH', S(3, five)))) == {
        0, 3}
    assert refs(('and', [A, ('rng', 'B1:C1', ['B1', 'C1'])])) == {
        'A1', 'B1', 'C1'}
