"""Reference model of Excel's twelve base-conversion functions (property C19).

Independent of xlcalculator (never imports it) and of Python's own
``format``/``int(s, base)`` (those are used by ``selftest`` only, as the
independent facts the model is checked against).

Model, as quoted in the property statement
  * every non-decimal number is a string of at most 10 digits of its base and
    denotes a 10-digit two's-complement integer: 10 bits (BIN, -512..511),
    30 bits (OCT, -2^29..2^29-1), 40 bits (HEX, -2^39..2^39-1);
  * X2Y(number[, places]) returns the digits of the value in the destination
    base, upper case; a non-negative result is left-padded with zeros to
    ``places``; a negative result always has 10 digits;
  * #NUM!  : value outside the window of one of the two bases, a character that
             is not a digit of the source base, a fractional digit string, more
             than 10 digits, ``places`` outside 1..10 or smaller than the
             number of digits of a non-negative result;
  * #VALUE!: a boolean in either argument.

What the statement leaves open is either refused (``None`` is returned and the
check counts the case as skipped) or judged by a set of accepted observations:
  * two different error classes apply at once (TRUE as number and places 0):
    either error is accepted;
  * a negative value with a valid ``places`` below 10: Excel ignores places,
    the statement only speaks of padding non-negative results and of a places
    "too small" -> the 10-digit result and #NUM! are both accepted;
  * fractional decimal numbers (DEC2BIN(5.5)), numeric text as a decimal
    number, empty text, blanks, fractional or text ``places``: refused.
"""

DIGITS = '0123456789ABCDEF'
RADIX = {'BIN': 2, 'OCT': 8, 'HEX': 16}
BASES = ('BIN', 'OCT', 'HEX', 'DEC')
NDIGITS = 10
OMIT = None

NUM = 'err:#NUM!'
VALUE = 'err:#VALUE!'

FUNCTIONS = tuple('%s2%s' % (a, b) for a in BASES for b in BASES if a != b)
assert len(FUNCTIONS) == 12


def split(fn):
    src, dst = fn.split('2')
    return src, dst


def takes_places(fn):
    return not fn.endswith('2DEC')


def window(base):
    """(lowest, highest) integer representable in 10 digits of ``base``."""
    half = RADIX[base] ** NDIGITS // 2
    return -half, half - 1


def common_window(src, dst):
    lo, hi = -2 ** 63, 2 ** 63
    for b in (src, dst):
        if b != 'DEC':
            l, h = window(b)
            lo, hi = max(lo, l), min(hi, h)
    return lo, hi


def digits_of(v, radix):
    """Digits of a non-negative integer, most significant first."""
    if v == 0:
        return '0'
    out = []
    while v:
        v, d = divmod(v, radix)
        out.append(DIGITS[d])
    out.reverse()
    return ''.join(out)


def encode(v, base):
    """Canonical digit string of an integer of the window of ``base``."""
    r = RADIX[base]
    lo, hi = window(base)
    assert lo <= v <= hi, (v, base)
    if v < 0:
        v += r ** NDIGITS
    return digits_of(v, r)


def decode(s, base):
    """Value of a valid digit string (1..10 digits, either case)."""
    r = RADIX[base]
    v = 0
    for ch in s.upper():
        v = v * r + DIGITS.index(ch)
    if v >= r ** NDIGITS // 2:
        v -= r ** NDIGITS
    return v


def valid_digits(s, base):
    allowed = DIGITS[:RADIX[base]]
    return all(ch.upper() in allowed for ch in s)


def num_obs(v):
    return 'num:%r' % float(v)


class Expect:
    __slots__ = ('accept', 'tags', 'nontrivial', 'value')

    def __init__(self, accept, tags, nontrivial, value=None):
        self.accept = tuple(accept)
        self.tags = tags
        self.nontrivial = nontrivial
        self.value = value

    @property
    def want(self):
        return '|'.join(self.accept)


def is_bool(x):
    return isinstance(x, bool)


def expected(fn, number, places=OMIT):
    """What ``fn(number[, places])`` must return.

    number: int | float | str | bool (a Python spelling of the Excel value),
    places: OMIT | int | bool.  Returns an Expect or None (statement silent).
    """
    src, dst = split(fn)
    tags = {'fn:' + fn, 'src:' + src.lower(), 'dst:' + dst.lower()}
    errs = set()
    if not takes_places(fn):
        assert places is OMIT
    # -- places ----------------------------------------------------------
    if places is OMIT:
        tags.add('places:omitted')
    elif is_bool(places):
        tags.add('places:bool')
        errs.add(VALUE)
    elif isinstance(places, int):
        if 1 <= places <= NDIGITS:
            tags.add('places:valid')
        else:
            tags.add('places:out-of-range')
            errs.add(NUM)
    else:
        return None                       # fractional / text places
    # -- number ----------------------------------------------------------
    value = None
    if is_bool(number):
        tags.add('num:bool')
        errs.add(VALUE)
    elif src == 'DEC':
        if isinstance(number, float):
            if number != int(number):
                return None               # fractional decimal number
            tags.add('spell:float')
        elif not isinstance(number, int):
            return None                   # text as decimal number
        value = int(number)
    else:
        if isinstance(number, str):
            s = number
        elif isinstance(number, int):
            s = str(number)
            tags.add('spell:int')
        elif isinstance(number, float):
            if number == int(number) and abs(number) < 1e15:
                s = str(int(number))
                tags.add('spell:float')
            else:
                s = repr(number)          # has a fractional part
                tags.add('spell:float')
        else:
            return None
        if s == '':
            return None                   # empty text: statement silent
        bad = False
        if '.' in s and all(c in '0123456789.' for c in s):
            tags.add('digits:fraction')
            bad = True
        if not valid_digits(s, src):
            tags.add('digits:invalid-char')
            bad = True
        if len(s) > NDIGITS:
            tags.add('digits:too-long')
            bad = True
        if bad:
            errs.add(NUM)
        else:
            if s != s.upper():
                tags.add('digits:lowercase')
            if len(s) > 1 and s[0] == '0':
                tags.add('digits:leading-zero')
            value = decode(s, src)
    if value is not None:
        lo, hi = common_window(src, dst)
        if not lo <= value <= hi:
            tags.add('num:out-of-window')
            errs.add(NUM)
        if min(abs(value - lo), abs(value - hi)) <= 4:
            tags.add('edge:window')
        tags.add('sign:neg' if value < 0 else 'sign:nonneg')
    # -- errors ------------------------------------------------------------
    if errs:
        if len(errs) > 1:
            tags.add('err:two-classes')
        return Expect(sorted(errs), tags, True, value)
    # -- result --------------------------------------------------------------
    if dst == 'DEC':
        return Expect((num_obs(value),), tags,
                      value < 0 or 'edge:window' in tags, value)
    out = encode(value, dst)
    if value < 0:
        assert len(out) == NDIGITS
        if places is not OMIT and places < NDIGITS:
            tags.add('places:below-10-for-negative')
            return Expect(('text:' + out, NUM), tags, True, value)
        return Expect(('text:' + out,), tags, True, value)
    if places is OMIT:
        return Expect(('text:' + out,), tags, 'edge:window' in tags, value)
    if places < len(out):
        tags.add('places:too-small')
        return Expect((NUM,), tags, True, value)
    if places == len(out):
        tags.add('places:exact')
    else:
        tags.add('places:pads')
    return Expect(('text:' + '0' * (places - len(out)) + out,), tags, True,
                  value)


def selftest():
    # digits_of / encode / decode against Python's own conversions
    fmt = {'BIN': 'b', 'OCT': 'o', 'HEX': 'X'}
    bits = {'BIN': 10, 'OCT': 30, 'HEX': 40}
    for base in ('BIN', 'OCT', 'HEX'):
        lo, hi = window(base)
        assert (lo, hi) == (-2 ** (bits[base] - 1), 2 ** (bits[base] - 1) - 1)
        probe = set(range(-600, 600)) | {lo, lo + 1, hi - 1, hi}
        for k in range(0, 40):
            for d in (-1, 0, 1):
                probe.update((2 ** k + d, -2 ** k + d))
        for v in sorted(probe):
            if not lo <= v <= hi:
                continue
            s = encode(v, base)
            assert s == format(v & (2 ** bits[base] - 1), fmt[base]), (v, s)
            u = int(s, RADIX[base])
            if u >= 2 ** (bits[base] - 1):
                u -= 2 ** bits[base]
            assert u == v == decode(s, base) == decode(s.lower(), base)
            if v >= 0:
                assert decode('0' * (10 - len(s)) + s, base) == v
            else:
                assert len(s) == 10
    # facts from the Excel function documentation (all hand-checkable)
    facts = [
        ('DEC2BIN', 9, 4, 'text:1001'), ('DEC2BIN', -100, OMIT,
                                         'text:1110011100'),
        ('DEC2HEX', 100, 4, 'text:0064'), ('DEC2HEX', -54, OMIT,
                                           'text:FFFFFFFFCA'),
        ('DEC2HEX', 28, OMIT, 'text:1C'), ('DEC2OCT', 58, 3, 'text:072'),
        ('DEC2OCT', -100, OMIT, 'text:7777777634'),
        ('BIN2DEC', '1100100', OMIT, 'num:100.0'),
        ('BIN2DEC', 1111111111, OMIT, 'num:-1.0'),
        ('BIN2HEX', '11111011', 4, 'text:00FB'),
        ('BIN2HEX', '1110', OMIT, 'text:E'),
        ('BIN2HEX', '1111111111', OMIT, 'text:FFFFFFFFFF'),
        ('BIN2OCT', '1001', 3, 'text:011'),
        ('BIN2OCT', '1100100', OMIT, 'text:144'),
        ('BIN2OCT', '1111111111', OMIT, 'text:7777777777'),
        ('HEX2BIN', 'F', 8, 'text:00001111'),
        ('HEX2BIN', 'B7', OMIT, 'text:10110111'),
        ('HEX2BIN', 'FFFFFFFFFF', OMIT, 'text:1111111111'),
        ('HEX2DEC', 'A5', OMIT, 'num:165.0'),
        ('HEX2DEC', 'FFFFFFFF5B', OMIT, 'num:-165.0'),
        ('HEX2DEC', '3DA408B9', OMIT, 'num:1034160313.0'),
        ('HEX2OCT', 'F', 3, 'text:017'), ('HEX2OCT', '3B4E', OMIT,
                                          'text:35516'),
        ('HEX2OCT', 'FFFFFFFF00', OMIT, 'text:7777777400'),
        ('OCT2BIN', '3', 3, 'text:011'),
        ('OCT2BIN', '7777777000', OMIT, 'text:1000000000'),
        ('OCT2DEC', '54', OMIT, 'num:44.0'),
        ('OCT2DEC', '7777777533', OMIT, 'num:-165.0'),
        ('OCT2HEX', '100', 4, 'text:0040'),
        ('OCT2HEX', '7777777533', OMIT, 'text:FFFFFFFF5B'),
        # the error classes of the statement
        ('DEC2BIN', 512, OMIT, NUM), ('DEC2BIN', -513, OMIT, NUM),
        ('DEC2BIN', 511, OMIT, 'text:111111111'),
        ('DEC2BIN', -512, OMIT, 'text:1000000000'),
        ('DEC2OCT', 2 ** 29, OMIT, NUM), ('DEC2OCT', -2 ** 29 - 1, OMIT, NUM),
        ('DEC2OCT', -2 ** 29, OMIT, 'text:4000000000'),
        ('DEC2HEX', 2 ** 39, OMIT, NUM), ('DEC2HEX', -2 ** 39 - 1, OMIT, NUM),
        ('DEC2HEX', 2 ** 39 - 1, OMIT, 'text:7FFFFFFFFF'),
        ('DEC2HEX', -2 ** 39, OMIT, 'text:8000000000'),
        ('HEX2BIN', '200', OMIT, NUM), ('HEX2BIN', 'FFFFFFFDFF', OMIT, NUM),
        ('HEX2OCT', '20000000', OMIT, NUM),
        ('HEX2OCT', 'FFE0000000', OMIT, 'text:4000000000'),
        ('OCT2BIN', '1000', OMIT, NUM), ('OCT2BIN', '777', OMIT,
                                         'text:111111111'),
        ('BIN2DEC', '102', OMIT, NUM), ('OCT2DEC', '8', OMIT, NUM),
        ('HEX2DEC', 'G', OMIT, NUM), ('BIN2DEC', '1.0', OMIT, NUM),
        ('BIN2DEC', 1.5, OMIT, NUM), ('BIN2DEC', '-1', OMIT, NUM),
        ('BIN2DEC', '00000000001', OMIT, NUM),
        ('BIN2DEC', 11111111111, OMIT, NUM),
        ('DEC2BIN', 5, 2, NUM), ('DEC2BIN', 5, 3, 'text:101'),
        ('DEC2BIN', 5, 0, NUM), ('DEC2BIN', 5, 11, NUM),
        ('DEC2BIN', 5, -1, NUM), ('DEC2BIN', 5, True, VALUE),
        ('DEC2BIN', True, OMIT, VALUE), ('BIN2DEC', False, OMIT, VALUE),
        ('HEX2DEC', 'ff', OMIT, 'num:255.0'),
        ('DEC2BIN', 0, OMIT, 'text:0'), ('DEC2BIN', 0, 10, 'text:0000000000'),
        ('DEC2BIN', 5.0, OMIT, 'text:101'),
    ]
    for fn, n, p, want in facts:
        e = expected(fn, n, p)
        assert e is not None and e.accept == (want,), (fn, n, p, want,
                                                        e and e.accept)
    assert expected('DEC2BIN', True, 0).accept == (NUM, VALUE)
    assert expected('DEC2BIN', -1, 3).accept == ('text:1111111111', NUM)
    assert expected('DEC2BIN', -1, 10).accept == ('text:1111111111',)
    assert expected('DEC2BIN', -1, 11).accept == (NUM,)
    assert expected('DEC2BIN', 5.5) is None
    assert expected('DEC2BIN', 5, 3.9) is None
    assert expected('DEC2BIN', '5') is None
    assert expected('BIN2DEC', '') is None
    # there and back
    for src in ('BIN', 'OCT', 'HEX'):
        for dst in ('BIN', 'OCT', 'HEX', 'DEC'):
            if src == dst:
                continue
            lo, hi = common_window(src, dst)
            for v in (lo, lo + 1, -1, 0, 1, 77, hi - 1, hi):
                s = encode(v, src)
                e = expected('%s2%s' % (src, dst), s)
                if dst == 'DEC':
                    assert e.accept == (num_obs(v),)
                    back = expected('DEC2%s' % src, v)
                else:
                    back = expected('%s2%s' % (dst, src), e.accept[0][5:])
                assert back.accept == ('text:' + s,), (src, dst, v)
