"""Reference evaluation of operator expressions under Excel's grammar.

Independent of xlcalculator (never imports it).  Values:
  number -> Python float          logical -> bool
  text   -> Txt(canonical, alts)  error   -> Err(code)

``alts`` lists every spelling the text may legitimately have when an
integral number was turned into text ("2" or "2.0"): which of them a number
takes is the business of properties C08/C17, not of the grammar, so a result
is accepted in any of them and an ambiguous text that flows into a further
non-& operator makes the case unjudgeable (Skip).
"""
import itertools
import math
import re


class Skip(Exception):
    """The reference declines to judge this case (reason in args[0])."""


class Err:
    __slots__ = ('code',)

    def __init__(self, code):
        self.code = code

    def __repr__(self):
        return 'Err(%s)' % self.code


class Txt:
    __slots__ = ('s', 'alts')

    def __init__(self, s, alts=None):
        self.s = s
        self.alts = tuple(alts) if alts else (s,)

    def __repr__(self):
        return 'Txt(%r)' % (self.s,)


DIV0 = '#DIV/0!'
VALUE = '#VALUE!'
NUM = '#NUM!'

BIG = 1e12
_CANON_NUM = re.compile(r'^[0-9]+(\.[0-9]+)?$')

ARITH = ('+', '-', '*', '/', '^')
COMPARE = ('=', '<>', '<', '>', '<=', '>=')


def number_text(x):
    """(canonical text, alternatives) of a number flowing into &."""
    if x != x or math.isinf(x):
        raise Skip('nonfinite-into-text')
    if x == int(x) and abs(x) < 1e15:
        i = str(int(x))
        return i, (i, i + '.0')
    r = repr(x)
    if 'e' in r or 'E' in r:
        raise Skip('text-form-exponent')
    digits = r.replace('-', '').replace('.', '').lstrip('0')
    if len(digits) > 15:
        raise Skip('text-form-over-15-digits')
    return r, (r,)


def to_number(v, tags):
    if isinstance(v, bool):
        tags.add('coerce:bool-in-arith')
        return 1.0 if v else 0.0
    if isinstance(v, float):
        return v
    if isinstance(v, Txt):
        if len(v.alts) > 1:
            raise Skip('ambiguous-text-into-arith')
        if not _CANON_NUM.match(v.s):
            raise Skip('noncanonical-text-into-arith')
        tags.add('coerce:numeric-text-in-arith')
        return float(v.s)
    raise AssertionError(v)


def rank(v):
    if isinstance(v, bool):
        return 2
    if isinstance(v, float):
        return 0
    return 1


def compare(op, a, b, tags):
    ra, rb = rank(a), rank(b)
    if ra != rb:
        tags.add('cmp:mixed-types')
        if 1 in (ra, rb):
            tags.add('cmp:text-vs-other')
        c = -1 if ra < rb else 1
    elif ra == 1:
        for t in (a, b):
            if len(t.alts) > 1:
                raise Skip('ambiguous-text-into-compare')
        x, y = a.s.upper(), b.s.upper()
        if op not in ('=', '<>') and ('-' in x or '-' in y):
            raise Skip('text-order-with-hyphen')
        tags.add('cmp:text-text')
        c = -1 if x < y else (1 if x > y else 0)
    elif ra == 2:
        tags.add('cmp:bool-bool')
        c = int(a) - int(b)
    else:
        c = -1 if a < b else (1 if a > b else 0)
    return {'=': c == 0, '<>': c != 0, '<': c < 0, '>': c > 0,
            '<=': c <= 0, '>=': c >= 0}[op]


def binop(op, a, b, tags):
    if isinstance(a, Err):
        return a
    if isinstance(b, Err):
        return b
    if op == '&':
        parts = []
        for v in (a, b):
            if isinstance(v, bool):
                raise Skip('bool-into-concat')
            if isinstance(v, float):
                s, alts = number_text(v)
                parts.append(Txt(s, alts))
            else:
                parts.append(v)
        alts = [x + y for x, y in itertools.product(parts[0].alts,
                                                    parts[1].alts)]
        if len(alts) > 64:
            raise Skip('too-many-text-alternatives')
        return Txt(parts[0].s + parts[1].s, alts)
    if op in COMPARE:
        return compare(op, a, b, tags)
    x = to_number(a, tags)
    y = to_number(b, tags)
    if op == '+':
        r = x + y
    elif op == '-':
        r = x - y
    elif op == '*':
        r = x * y
    elif op == '/':
        if y == 0:
            tags.add('div:zero')
            return Err(DIV0)
        r = x / y
    elif op == '^':
        if x == 0 and y == 0:
            raise Skip('pow-domain')      # 0^0: not fixed by any property
        if x == 0 and y < 0:
            tags.add('pow:zero-to-negative')
            return Err(DIV0)
        if x < 0 and y != int(y):
            # no real power (C16: "arguments outside a function's domain
            # yield an Excel error value"); without it -x^0.5 could not be
            # told from -(x^0.5)
            tags.add('pow:negative-base-fractional-exponent')
            return Err(NUM)
        try:
            r = math.pow(x, y)
        except (OverflowError, ValueError):
            raise Skip('pow-overflow')
    else:
        raise AssertionError(op)
    if r != r or abs(r) >= BIG:
        raise Skip('magnitude')
    if r != 0 and abs(r) < 1e-12:
        raise Skip('magnitude-small')
    return r


def evaluate(tree, leaf_values, tags=None):
    """tree: ('leaf', i) | ('neg', t) | ('pct', t) | ('bin', op, l, r)."""
    tags = tags if tags is not None else set()
    kind = tree[0]
    if kind == 'leaf':
        return float(leaf_values[tree[1]])
    if kind == 'neg':
        v = evaluate(tree[1], leaf_values, tags)
        if isinstance(v, Err):
            return v
        return -to_number(v, tags)
    if kind == 'pct':
        v = evaluate(tree[1], leaf_values, tags)
        if isinstance(v, Err):
            return v
        return to_number(v, tags) / 100.0
    if kind == 'bin':
        a = evaluate(tree[2], leaf_values, tags)
        b = evaluate(tree[3], leaf_values, tags)
        return binop(tree[1], a, b, tags)
    raise AssertionError(tree)


def accepts(want, got):
    """Does observation string ``got`` (xlmc.lib.norm form) denote the
    reference value ``want``?"""
    if isinstance(want, Err):
        return got == 'err:' + want.code
    if isinstance(want, bool):
        return got == 'bool:%s' % want
    if isinstance(want, float):
        if not got.startswith('num:'):
            return False
        g = float(got[4:])
        return g == want or abs(g - want) <= 1e-12 * max(abs(g), abs(want))
    if isinstance(want, Txt):
        return got.startswith('text:') and got[5:] in want.alts
    raise AssertionError(want)


def show(want):
    if isinstance(want, Err):
        return 'err:' + want.code
    if isinstance(want, bool):
        return 'bool:%s' % want
    if isinstance(want, float):
        return 'num:%r' % (0.0 if want == 0 else want)
    return 'text:' + want.s


# --- self test: facts about Excel that do not come from the library ------
def selftest():
    L = lambda i: ('leaf', i)  # noqa: E731
    B = lambda op, a, b: ('bin', op, a, b)  # noqa: E731
    N = lambda a: ('neg', a)  # noqa: E731
    ev = lambda t, v: evaluate(t, v)  # noqa: E731
    # -2^2 = 4 (unary minus binds tighter than ^)
    assert ev(B('^', N(L(0)), L(1)), [2, 2]) == 4.0
    # 2^3^2 = 64 (left assoc)
    assert ev(B('^', B('^', L(0), L(1)), L(2)), [2, 3, 2]) == 64.0
    # 1+2&3 = "33"
    r = ev(B('&', B('+', L(0), L(1)), L(2)), [1, 2, 3])
    assert r.s == '33' and '3.03' in r.alts
    # 1=1=1 is FALSE  (TRUE=1 compares a logical with a number)
    assert ev(B('=', B('=', L(0), L(1)), L(2)), [1, 1, 1]) is False
    # 2&3=23 is FALSE (text vs number)  ;  "23" > 99 is TRUE
    # (ambiguous text into a comparison with a number is judged: rank only)
    assert ev(B('=', B('&', L(0), L(1)), L(2)), [2, 3, 23]) is False
    assert ev(B('>', B('&', L(0), L(1)), L(2)), [2, 3, 99]) is True
    assert isinstance(ev(B('/', L(0), B('-', L(1), L(1))), [1, 2]), Err)
    # TRUE+1 = 2
    assert ev(B('+', B('=', L(0), L(0)), L(1)), [1, 1]) == 2.0
    # error: leftmost wins
    t = B('+', B('/', L(0), L(1)), B('/', L(0), L(1)))
    assert ev(t, [1, 0]).code == DIV0
