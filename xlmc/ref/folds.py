"""Reference folds for the aggregate functions of property C14.

Independent of xlcalculator (never imports it).

A cell value is one of
    int / float  a number
    None         an empty cell
    str          text
An *argument* of an aggregate is one of
    ('range', rows)     rows = tuple of tuples of cell values (a rectangle)
    ('cell', value)     a reference to one cell (a 1x1 range)
    ('lit', number)     a number written in the formula

The statement of C14 fixes
    SUM      sum of the addressed numbers              (0 for none)
    COUNT    how many of the addressed values are numbers
    COUNTA   how many of the addressed values are not empty
    AVERAGE  mean of the addressed numbers   } only when there is at
    MIN/MAX  least / greatest addressed num. } least one number
    SUMPRODUCT  sum over positions of the product of the values at that
             position; #VALUE! for ranges of different shapes
with "blanks and non-numeric text found in ranges being ignored".  It does
not fix: numeric text or booleans in ranges, AVERAGE/MIN/MAX of no numbers,
text written directly into the formula - those raise ``Unjudged``.

For SUMPRODUCT "ignored" has two readings for a position that holds a blank
or a text in one of the ranges: the position contributes nothing (Excel:
the entry counts as zero) or the entry is left out of the product (counts as
one).  ``sumproduct`` returns the first reading as the expected value and
the set of accepted values (both readings).
"""
import re
from fractions import Fraction

FUNCTIONS = ('SUM', 'AVERAGE', 'MIN', 'MAX', 'COUNT', 'COUNTA')

_NUMERIC_TEXT = re.compile(
    r'^\s*[+-]?(\d+\.?\d*|\.\d+)([eE][+-]?\d+)?%?\s*$')


class Unjudged(Exception):
    """The property does not fix the result (reason in args[0])."""


def is_number(v):
    return isinstance(v, (int, float)) and not isinstance(v, bool)


def classify(v):
    """'num' | 'blank' | 'text'; Unjudged for what the property is silent on."""
    if isinstance(v, bool):
        raise Unjudged('boolean-in-range')
    if is_number(v):
        return 'num'
    if v is None:
        return 'blank'
    if isinstance(v, str):
        if v == '':
            raise Unjudged('empty-text')
        if _NUMERIC_TEXT.match(v):
            raise Unjudged('numeric-text')
        # ("true", "2020-01-01", "inf": text that some converter would accept
        # is still text that is not numeric)
        return 'text'
    raise Unjudged('unknown-value-kind')


def addressed(args):
    """All addressed values of an argument list, in argument order."""
    out = []
    for a in args:
        kind = a[0]
        if kind == 'range':
            rows = a[1]
            width = len(rows[0])
            for row in rows:
                assert len(row) == width, 'not a rectangle'
                out.extend(row)
        elif kind == 'cell':
            out.append(a[1])
        elif kind == 'lit':
            if not is_number(a[1]):
                raise Unjudged('non-number-literal-argument')
            out.append(a[1])
        else:
            raise AssertionError(kind)
    return out


def features(args):
    """Input feature tags of an argument list (never implementation facts)."""
    kinds = {classify(v) for v in addressed(args)}
    tags = set()
    if 'blank' in kinds:
        tags.add('has:blank')
    if 'text' in kinds:
        tags.add('has:text')
    tags.add('nums:some' if 'num' in kinds else 'nums:none')
    return tags


def aggregate(fn, args):
    """Expected value (a Fraction for exact comparison, or int) of fn(args).
    Raises Unjudged where the property is silent."""
    vals = addressed(args)
    kinds = [classify(v) for v in vals]
    nums = [Fraction(v) for v, k in zip(vals, kinds) if k == 'num']
    if fn == 'SUM':
        return sum(nums, Fraction(0))
    if fn == 'COUNT':
        return Fraction(len(nums))
    if fn == 'COUNTA':
        return Fraction(sum(1 for k in kinds if k != 'blank'))
    if fn in ('AVERAGE', 'MIN', 'MAX'):
        if not nums:
            raise Unjudged('%s-of-no-numbers' % fn.lower())
        if fn == 'AVERAGE':
            return sum(nums, Fraction(0)) / len(nums)
        return min(nums) if fn == 'MIN' else max(nums)
    raise AssertionError(fn)


def shape(rows):
    return (len(rows), len(rows[0]))


def sumproduct(ranges):
    """(kind, expected, accepted) with kind 'err' (expected = '#VALUE!',
    differently shaped ranges) or 'num' (expected Fraction under the
    zero reading, accepted = set of Fractions under both readings)."""
    assert ranges
    shapes = {shape(r) for r in ranges}
    for r in ranges:
        for row in r:
            assert len(row) == len(r[0]), 'not a rectangle'
            for v in row:
                classify(v)
    if len(shapes) > 1:
        return 'err', '#VALUE!', None
    nrows, ncols = shape(ranges[0])
    zero = Fraction(0)
    one = Fraction(0)
    for i in range(nrows):
        for j in range(ncols):
            items = [r[i][j] for r in ranges]
            pz = Fraction(1)
            po = Fraction(1)
            any_num = False
            for v in items:
                if is_number(v):
                    pz *= Fraction(v)
                    po *= Fraction(v)
                    any_num = True
                else:
                    pz = pz * 0
            zero += pz
            # "left out of the product": a position without any number
            # contributes nothing under this reading as well
            one += po if any_num else 0
    return 'num', zero, {zero, one}


def selftest():
    import itertools
    import statistics
    R = lambda *rows: ('range', tuple(tuple(r) for r in rows))  # noqa: E731
    # hand-derived facts
    a = [R((2, -3, 0.5), (None, 'x', 2))]
    assert aggregate('SUM', a) == Fraction(3, 2)
    assert aggregate('COUNT', a) == 4
    assert aggregate('COUNTA', a) == 5
    assert aggregate('AVERAGE', a) == Fraction(3, 8)
    assert aggregate('MIN', a) == -3 and aggregate('MAX', a) == 2
    b = [R((None, 'x')), ('cell', None), ('cell', 'x')]
    assert aggregate('SUM', b) == 0 and aggregate('COUNT', b) == 0
    assert aggregate('COUNTA', b) == 2
    for fn in ('AVERAGE', 'MIN', 'MAX'):
        try:
            aggregate(fn, b)
        except Unjudged:
            pass
        else:
            raise AssertionError(fn)
    assert aggregate('AVERAGE', b + [('lit', 4)]) == 4
    assert aggregate('COUNT', b + [('lit', 4)]) == 1
    assert aggregate('SUM', [R((1, 'TRUE', '2020-01-01', 'inf'))]) == 1
    assert aggregate('COUNTA', [R((1, 'TRUE'))]) == 2
    for silent in ('5', ' 1e3 ', True, ''):
        try:
            aggregate('SUM', [R((1, silent))])
        except Unjudged:
            pass
        else:
            raise AssertionError(silent)
    # against the standard library on every multiset of up to 4 values
    alpha = (2, -3, 0.5, None, 'x')
    for n in range(1, 5):
        for fill in itertools.product(alpha, repeat=n):
            nums = [v for v in fill if is_number(v)]
            arg = [R(fill)]
            assert aggregate('SUM', arg) == Fraction(sum(nums))
            assert aggregate('COUNT', arg) == len(nums)
            assert aggregate('COUNTA', arg) == len(
                [v for v in fill if v is not None])
            if nums:
                assert float(aggregate('AVERAGE', arg)) == \
                    statistics.fmean(nums)
                assert aggregate('MIN', arg) == min(nums)
                assert aggregate('MAX', arg) == max(nums)
                assert aggregate('MIN', arg) <= aggregate('AVERAGE', arg) \
                    <= aggregate('MAX', arg)
            # invariance under permutation and partition
            for perm in itertools.permutations(fill):
                if n > 3:
                    break
                for fn in ('SUM', 'COUNT', 'COUNTA'):
                    assert aggregate(fn, [R(perm)]) == aggregate(fn, arg)
            for cut in range(1, n):
                parts = [R(fill[:cut]), R(fill[cut:])]
                assert aggregate('SUM', parts) == aggregate('SUM', arg)
                assert aggregate('SUM', parts[::-1]) == aggregate('SUM', arg)
    # SUMPRODUCT
    k, want, acc = sumproduct([((2, -3), (0.5, 2)), ((2, 2), (-3, 0.5))])
    assert (k, want) == ('num', Fraction(4 - 6 - 1.5 + 1)) and acc == {want}
    k, want, acc = sumproduct([((2,), (-3,)), ((None,), (2,))])
    assert (k, want, acc) == ('num', Fraction(-6), {Fraction(-6),
                                                    Fraction(-4)})
    k, want, acc = sumproduct([((None, 2),), ((None, 'x'),)])
    assert (k, want, acc) == ('num', Fraction(0), {Fraction(0), Fraction(2)})
    assert sumproduct([((2, -3),), ((2,), (-3,))])[:2] == ('err', '#VALUE!')
    assert sumproduct([((2, -3),), ((2,),)])[:2] == ('err', '#VALUE!')
    assert sumproduct([((2, -3), (2, 2))])[1] == Fraction(3)
    assert sumproduct([((2,),), ((-3,),), ((0.5,),)])[1] == Fraction(-3)
