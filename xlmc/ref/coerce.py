"""Reference coercion rules of C08 and the catalogue of spellings of a value.
Never imports xlcalculator.

A *spec* is the JSON-able description of one value in one spelling (see
xlmc/gen/fcall.py for how it is materialised); ``typed(spec)`` gives the Excel
value it denotes:
  ('num', float) ('text', str) ('bool', bool) ('blank',) ('date', serial)
  ('err', code)
"""
import datetime
import re


class Unjudged(Exception):
    """The property does not fix the outcome (reason in args[0])."""


class XlError(Exception):
    """An Excel error value as the outcome (code in args[0])."""


_NUMERIC_TEXT = re.compile(
    r'^[+-]?([0-9]+(\.[0-9]*)?|\.[0-9]+)([eE][+-]?[0-9]+)?$')


def serial_of(y, m, d):
    n = (datetime.date(y, m, d) - datetime.date(1899, 12, 30)).days
    assert n >= 61, 'dates before 1900-03-01 are not used'
    return n


def typed(spec):
    k = spec[0]
    if k in ('int', 'float', 'npint', 'npfloat', 'npint32', 'npfloat32',
             'Number'):
        return ('num', float(spec[1]))
    if k == 'sci':
        return ('num', float(spec[1]))
    if k in ('str', 'Text'):
        return ('text', spec[1])
    if k in ('bool', 'Boolean'):
        return ('bool', bool(spec[1]))
    if k in ('None', 'BLANK'):
        return ('blank',)
    if k in ('datetime', 'DateTime'):
        return ('date', serial_of(*spec[1]))
    if k in ('err', 'errlit'):
        return ('err', spec[1])
    raise ValueError(spec)


def is_numeric_text(s):
    return bool(_NUMERIC_TEXT.match(s))


def to_number(v):
    """Number an arithmetic operator / numeric parameter sees."""
    t = v[0]
    if t == 'num':
        return v[1]
    if t == 'bool':
        return 1.0 if v[1] else 0.0
    if t == 'blank':
        return 0.0
    if t == 'date':
        return float(v[1])
    if t == 'text':
        if is_numeric_text(v[1]):
            return float(v[1])
        if v[1].strip() != v[1] or re.search(r'[%/:,$-]', v[1][1:]):
            # blanks around a number, percent / date / time / currency
            # notations: Excel reads some of them; the property only speaks of
            # "numeric text" and "text that is not numeric"
            if v[1].strip() == '':
                raise XlError('#VALUE!')
            raise Unjudged('text-in-a-notation-the-property-does-not-fix')
        raise XlError('#VALUE!')
    if t == 'err':
        raise XlError(v[1])
    raise ValueError(v)


def number_text(x):
    """Text form of a number (Excel's General format) for the magnitudes the
    checks use; anything needing more than 15 digits or an exponent is not
    judged."""
    if x != x or x in (float('inf'), float('-inf')):
        raise Unjudged('nonfinite')
    if x == int(x) and abs(x) < 1e15:
        return str(int(x))
    r = repr(float(x))
    if 'e' in r or len(r.replace('-', '').replace('.', '').lstrip('0')) > 15:
        raise Unjudged('number-text-form-needs-rounding-or-exponent')
    return r


def to_text(v):
    t = v[0]
    if t == 'text':
        return v[1]
    if t == 'num':
        return number_text(v[1])
    if t == 'bool':
        return 'TRUE' if v[1] else 'FALSE'
    if t == 'blank':
        return ''
    if t == 'err':
        raise XlError(v[1])
    raise Unjudged('text form of a %s' % t)


def arith(op, a, b=None):
    """Reference outcome of + - * / (binary), NEG and PERCENT (unary) as an
    observation string.  Two independent error sources in one expression are
    not judged (which one Excel reports first is not in the property)."""
    sources = 0
    nums = []
    for v in (a, b):
        if v is None:
            continue
        try:
            nums.append(to_number(v))
        except XlError as e:
            sources += 1
            code = e.args[0]
            nums.append(None)
    if op == '/' and nums[1] == 0:
        sources += 1
        code = '#DIV/0!'
    if sources > 1:
        raise Unjudged('two-error-sources')
    if sources == 1:
        return 'err:%s' % code
    x = nums[0]
    if op == 'NEG':
        r = -x
    elif op == 'PERCENT':
        r = x * 0.01
    else:
        y = nums[1]
        r = {'+': x + y, '-': x - y, '*': x * y, '/': None}[op] \
            if op != '/' else x / y
    if r != r or r in (float('inf'), float('-inf')):
        raise Unjudged('nonfinite')
    return 'num:%s' % repr(float(r) + 0.0 if r != 0 else 0.0)


def concat(a, b):
    try:
        return 'text:%s%s' % (to_text(a), to_text(b))
    except XlError as e:
        return 'err:%s' % e.args[0]


# ---- spellings ----------------------------------------------------------
def sci_text(x):
    """Scientific notation of a number as Excel writes it: 2E+0, 5E-1."""
    s = '%.15E' % float(x)
    m, e = s.split('E')
    m = m.rstrip('0').rstrip('.')
    return '%sE%s%d' % (m, e[0], int(e[1:]))


def dec_text(x):
    if float(x) == int(x):
        return str(int(x))
    r = repr(float(x))
    assert 'e' not in r, x
    return r


def alt_texts(x):
    """Other decimal texts Excel reads as the number x: no digit before the
    point (.5), no digit after it (5.), an explicit plus sign (+5)."""
    out = []
    d = dec_text(x)
    if 0 < abs(x) < 1:
        out.append(('dot', d.replace('0.', '.', 1)))
    if float(x) == int(x):
        out.append(('trail', d + '.'))
    if x > 0:
        out.append(('plus', '+' + d))
    for _lab, t in out:
        assert is_numeric_text(t) and float(t) == float(x), (x, t)
    return out


def number_spellings(x, direct=True):
    """[(label, carrier family, spec)] - every way the checks spell the number
    x; the first entry is the canonical one.  ``direct``: for a direct call
    (else: what can be written in a formula / stored in a cell)."""
    integral = float(x) == int(x)
    out = []
    if direct:
        if integral:
            out.append(('int', 'native', ['int', int(x)]))
        out.append(('float', 'native', ['float', float(x)]))
        if integral:
            out.append(('npint', 'numpy', ['npint', int(x)]))
            if abs(int(x)) < 2 ** 31:
                out.append(('npint32', 'numpy', ['npint32', int(x)]))
        out.append(('npfloat', 'numpy', ['npfloat', float(x)]))
        import struct
        if struct.unpack('f', struct.pack('f', float(x)))[0] == float(x):
            # exactly representable in single precision
            out.append(('npfloat32', 'numpy', ['npfloat32', float(x)]))
        if integral:
            out.append(('Number-int', 'object', ['Number', int(x)]))
        out.append(('Number-float', 'object', ['Number', float(x)]))
        out.append(('str-dec', 'text', ['str', dec_text(x)]))
        out.append(('Text-dec', 'text', ['Text', dec_text(x)]))
        out.append(('str-sci', 'text-sci', ['str', sci_text(x)]))
        out.append(('Text-sci', 'text-sci', ['Text', sci_text(x)]))
        for lab, t in alt_texts(x):
            out.append(('str-' + lab, 'text', ['str', t]))
            out.append(('Text-' + lab, 'text', ['Text', t]))
        if x in (0, 1):
            out.append(('bool', 'bool', ['bool', bool(x)]))
            out.append(('Boolean', 'bool', ['Boolean', bool(x)]))
        if x == 0:
            out.append(('None', 'blank', ['None']))
            out.append(('BLANK', 'blank', ['BLANK']))
    else:
        num = ['int', int(x)] if integral else ['float', float(x)]
        out.append(('lit-dec', 'native', num, 'lit'))
        out.append(('lit-sci', 'native', ['sci', sci_text(x)], 'lit'))
        out.append(('cell-num', 'native', num, 'cell'))
        out.append(('lit-text-dec', 'text', ['str', dec_text(x)], 'lit'))
        out.append(('cell-text-dec', 'text', ['str', dec_text(x)], 'cell'))
        out.append(('lit-text-sci', 'text-sci', ['str', sci_text(x)], 'lit'))
        for lab, t in alt_texts(x):
            out.append(('lit-text-' + lab, 'text', ['str', t], 'lit'))
            out.append(('cell-text-' + lab, 'text', ['str', t], 'cell'))
        if x in (0, 1):
            out.append(('lit-bool', 'bool', ['bool', bool(x)], 'lit'))
            out.append(('cell-bool', 'bool', ['bool', bool(x)], 'cell'))
        if x == 0:
            out.append(('cell-blank', 'blank', ['None'], 'cell'))
    return out


def text_spellings(s, direct=True):
    """Spellings of the text s; numbers and booleans whose text form is s
    are spellings of it ("text arguments accept numbers and booleans by their
    text form")."""
    out = []
    as_num = None
    if re.match(r'^-?(0|[1-9][0-9]*)(\.[0-9]*[1-9])?$', s):
        as_num = float(s)
        assert number_text(as_num) == s
    integral = as_num is not None and as_num == int(as_num)
    if direct:
        out.append(('str', 'text', ['str', s]))
        out.append(('Text', 'text', ['Text', s]))
        if as_num is not None:
            if integral:
                out.append(('int', 'native', ['int', int(as_num)]))
                out.append(('Number-int', 'object', ['Number', int(as_num)]))
                out.append(('npint', 'numpy', ['npint', int(as_num)]))
                out.append(('float', 'float-integral',
                            ['float', float(as_num)]))
                out.append(('Number-float', 'float-integral',
                            ['Number', float(as_num)]))
            else:
                out.append(('float', 'native', ['float', as_num]))
                out.append(('Number-float', 'object', ['Number', as_num]))
        if s in ('TRUE', 'FALSE'):
            out.append(('bool', 'bool', ['bool', s == 'TRUE']))
            out.append(('Boolean', 'bool', ['Boolean', s == 'TRUE']))
        if s == '':
            out.append(('None', 'blank', ['None']))
            out.append(('BLANK', 'blank', ['BLANK']))
    else:
        out.append(('lit-text', 'text', ['str', s], 'lit'))
        out.append(('cell-text', 'text', ['str', s], 'cell'))
        if as_num is not None:
            num = ['int', int(as_num)] if integral else ['float', as_num]
            out.append(('lit-num', 'native', num, 'lit'))
            out.append(('cell-num', 'native', num, 'cell'))
            if integral:
                out.append(('cell-float', 'float-integral',
                            ['float', float(as_num)], 'cell'))
        if s in ('TRUE', 'FALSE'):
            out.append(('lit-bool', 'bool', ['bool', s == 'TRUE'], 'lit'))
            out.append(('cell-bool', 'bool', ['bool', s == 'TRUE'], 'cell'))
        if s == '':
            out.append(('cell-blank', 'blank', ['None'], 'cell'))
    return out


def bool_spellings(b, direct=True):
    """Spellings of a logical argument: a number is TRUE exactly when it is
    not zero, a blank is FALSE."""
    n = 1 if b else 0
    out = []
    if direct:
        out.append(('bool', 'bool', ['bool', b]))
        out.append(('Boolean', 'bool', ['Boolean', b]))
        out.append(('int', 'native', ['int', n]))
        out.append(('float', 'native', ['float', float(n)]))
        out.append(('Number-int', 'object', ['Number', n]))
        out.append(('npint', 'numpy', ['npint', n]))
        if b:
            out.append(('int-2', 'native', ['int', 2]))
            out.append(('float-0.5', 'native', ['float', 0.5]))
        else:
            out.append(('None', 'blank', ['None']))
            out.append(('BLANK', 'blank', ['BLANK']))
    else:
        out.append(('lit-bool', 'bool', ['bool', b], 'lit'))
        out.append(('cell-bool', 'bool', ['bool', b], 'cell'))
        out.append(('lit-num', 'native', ['int', n], 'lit'))
        out.append(('cell-num', 'native', ['int', n], 'cell'))
        if b:
            out.append(('lit-num-2', 'native', ['int', 2], 'lit'))
        else:
            out.append(('cell-blank', 'blank', ['None'], 'cell'))
    return out


def date_spellings(ymd, direct=True):
    """Spellings of a date argument: its serial number in every numeric
    spelling, and (direct calls) the date objects."""
    serial = serial_of(*ymd)
    out = []
    if direct:
        out.append(('int', 'native', ['int', serial]))
        out.append(('float', 'native', ['float', float(serial)]))
        out.append(('npint', 'numpy', ['npint', serial]))
        out.append(('npfloat', 'numpy', ['npfloat', float(serial)]))
        out.append(('Number-int', 'object', ['Number', serial]))
        out.append(('str-dec', 'text', ['str', str(serial)]))
        out.append(('Text-dec', 'text', ['Text', str(serial)]))
        out.append(('str-sci', 'text-sci', ['str', sci_text(serial)]))
        out.append(('datetime', 'date-object', ['datetime', list(ymd)]))
        out.append(('DateTime', 'date-object', ['DateTime', list(ymd)]))
    else:
        out.append(('lit-dec', 'native', ['int', serial], 'lit'))
        out.append(('cell-num', 'native', ['int', serial], 'cell'))
        out.append(('lit-text-dec', 'text', ['str', str(serial)], 'lit'))
        out.append(('cell-text-dec', 'text', ['str', str(serial)], 'cell'))
        out.append(('lit-date', 'date-object', ['datetime', list(ymd)],
                    'lit'))
        out.append(('cell-date', 'date-object', ['datetime', list(ymd)],
                    'cell'))
    return out


# texts that are not numeric: a numeric parameter must answer #VALUE!
NONNUMERIC_TEXTS = (('abc', 'letters'), ('1x', 'number-with-suffix'),
                    (' ', 'space'), ('', 'empty'),
                    ('TRUE', 'boolean-looking'),
                    # what Python's float()/int() or a lenient date parser
                    # would take although it spells no number
                    ('1_000', 'python-number-syntax'), ('nan', 'python-nan'),
                    ('inf', 'python-inf'), ('Infinity', 'python-inf'),
                    ('may', 'word-a-date-parser-knows'),
                    ('sat', 'word-a-date-parser-knows'))


def selftest():
    # the literal facts of the property
    assert arith('+', ('text', '3'), ('num', 1.0)) == 'num:4.0'
    assert arith('+', ('bool', True), ('num', 1.0)) == 'num:2.0'
    assert arith('+', ('blank',), ('num', 1.0)) == 'num:1.0'
    assert concat(('num', 1.0), ('num', 2.0)) == 'text:12'
    assert concat(('bool', True), ('text', 'x')) == 'text:TRUEx'
    assert concat(('blank',), ('text', 'x')) == 'text:x'
    assert concat(('num', 0.5), ('text', '')) == 'text:0.5'
    assert concat(('num', 1.0), ('text', '')) == 'text:1'   # 2/2&"" is "1"
    # arithmetic
    assert arith('/', ('num', 1.0), ('num', 0.0)) == 'err:#DIV/0!'
    assert arith('/', ('num', 1.0), ('blank',)) == 'err:#DIV/0!'
    assert arith('-', ('text', 'abc'), ('num', 1.0)) == 'err:#VALUE!'
    assert arith('*', ('text', ''), ('num', 1.0)) == 'err:#VALUE!'
    assert arith('*', ('text', '2E+0'), ('text', '1.5')) == 'num:3.0'
    assert arith('NEG', ('bool', True)) == 'num:-1.0'
    assert arith('NEG', ('blank',)) == 'num:0.0'
    assert arith('PERCENT', ('text', '50')) == 'num:0.5'
    assert arith('-', ('date', 43831), ('num', 1.0)) == 'num:43830.0'
    for bad in (lambda: arith('/', ('text', 'abc'), ('num', 0.0)),
                lambda: to_number(('text', ' 3 ')),
                lambda: to_number(('text', '50%')),
                lambda: to_number(('text', '2020-01-01')),
                lambda: number_text(1e20), lambda: number_text(1 / 3)):
        try:
            bad()
        except Unjudged:
            pass
        else:
            raise AssertionError('should be unjudged')
    # numeric text
    for s in ('3', '-3', '+3', '0.5', '.5', '5.', '2E+0', '5e-1', '-3E+0'):
        assert is_numeric_text(s), s
        assert to_number(('text', s)) == float(s)
    for s, _ in NONNUMERIC_TEXTS:
        assert not is_numeric_text(s), s
        try:
            to_number(('text', s))
        except XlError as e:
            assert e.args[0] == '#VALUE!'
        else:
            raise AssertionError(s)
    assert sci_text(2) == '2E+0' and sci_text(0.5) == '5E-1'
    assert sci_text(-3) == '-3E+0' and sci_text(0) == '0E+0'
    assert sci_text(43831) == '4.3831E+4'
    assert serial_of(2020, 1, 1) == 43831 and serial_of(1900, 3, 1) == 61
    assert serial_of(2021, 1, 1) == 44197 and serial_of(9999, 12, 31) == 2958465
    # every spelling of a value denotes that value
    for x in (0, 1, 2, 0.5, -3, 10, 1.5, 100, -1, 1000):
        for direct in (True, False):
            sp = number_spellings(x, direct)
            assert len({s[0] for s in sp}) == len(sp)
            for s in sp:
                assert to_number(typed(s[2])) == float(x), (x, s)
    for s0 in ('ab', '1', '', '0.5', 'TRUE', '-3', 'FALSE', '12'):
        for direct in (True, False):
            for s in text_spellings(s0, direct):
                assert to_text(typed(s[2])) == s0, (s0, s)
    for b in (True, False):
        for direct in (True, False):
            for s in bool_spellings(b, direct):
                assert (to_number(typed(s[2])) != 0) is b, (b, s)
    for direct in (True, False):
        for s in date_spellings((2020, 1, 1), direct):
            assert to_number(typed(s[2])) == 43831.0, s
