"""Reference model of the financial functions of property C20.

Independent of xlcalculator, numpy-financial and scipy: closed forms in exact
rational arithmetic (``fractions.Fraction``) where the exponents are integers
(NPV, PMT, PV, SLN), ``math.fsum`` over ``math.pow`` terms for XNPV, plain
bisection for the IRR / XIRR roots.

Every closed form returns ``(value, scale)``: ``scale`` is the sum of the
magnitudes of the terms the value is composed of, the natural yardstick of a
relative tolerance (a result that is small only because large terms cancel is
not required to be accurate relative to itself).

Equations (the property statement)
  NPV(r, c1..cn)       = sum c_i / (1+r)^i                      i = 1..n
  PMT(r, n, pv, fv)    = -(pv*T + fv) * r / (T - 1),  T = (1+r)^n   (period end)
                       = -(pv + fv) / n                          for r = 0
  PV(r, n, pmt, fv, t) = -(fv + pmt*(1 + r*t)*(T - 1)/r) / T     t in {0, 1}
                       = -(fv + pmt*n)                           for r = 0
  SLN(cost, salvage, life) = (cost - salvage) / life             life > 0
  XNPV(r, v, d)        = sum v_i / (1+r)^((d_i - d_1)/365)
  IRR(v)  : the rate with sum_{i>=0} v_i/(1+r)^i = 0
  XIRR(v, d): the rate with XNPV(r, v, d) = 0
  for v = (outlay < 0, returns >= 0 ...) with positive undiscounted sum the
  discounted sum is strictly decreasing in r on (-1, inf), positive at 0, so
  exactly one root exists and it is positive.
"""
import math
from fractions import Fraction

RATE_LO, RATE_HI = -0.9, 10.0      # the property quantifies over (-0.9, 10]
REL = 1e-9                         # closed forms
ROOT_TOL = 1e-6                    # IRR / XIRR
MAX_LOG = 650.0                    # |n*log(1+r)| beyond this: (1+r)^n is not a double


def frac(x):
    """Exact rational of a decimal literal (0.1 means one tenth)."""
    if isinstance(x, Fraction):
        return x
    if isinstance(x, int):
        return Fraction(x)
    return Fraction(repr(x))


def rate_in_scope(r):
    return RATE_LO < r <= RATE_HI


def npv(rate, flows):
    q = 1 / (1 + frac(rate))
    total, scale, d = Fraction(0), Fraction(0), Fraction(1)
    for c in flows:
        d *= q
        t = frac(c) * d
        total += t
        scale += abs(t)
    return float(total), float(scale)


def representable(rate, nper):
    return abs(nper * math.log1p(rate)) <= MAX_LOG


def pmt(rate, nper, pv, fv=0):
    """Payment at period end; nper a positive integer."""
    r, pv, fv = frac(rate), frac(pv), frac(fv)
    if r == 0:
        return float(-(pv + fv) / nper), float((abs(pv) + abs(fv)) / nper)
    T = (1 + r) ** nper
    k = r / (T - 1)
    return float(-(pv * T + fv) * k), float((abs(pv) * T + abs(fv)) * abs(k))


def pv(rate, nper, pmt_, fv=0, typ=0):
    r, p, fv = frac(rate), frac(pmt_), frac(fv)
    assert typ in (0, 1)
    if r == 0:
        return float(-(fv + p * nper)), float(abs(fv) + abs(p) * nper)
    T = (1 + r) ** nper
    a = (1 + r * typ) * (T - 1) / r
    return float(-(fv + p * a) / T), float((abs(fv) + abs(p * a)) / T)


def sln(cost, salvage, life):
    c, s, n = frac(cost), frac(salvage), frac(life)
    assert n > 0
    return float((c - s) / n), float((abs(c) + abs(s)) / n)


def xnpv(rate, flows, dates):
    base = 1.0 + rate
    terms = [v / math.pow(base, (d - dates[0]) / 365.0)
             for v, d in zip(flows, dates)]
    return math.fsum(terms), math.fsum(abs(t) for t in terms)


def irr_f(rate, flows):
    """Discounted sum with the first flow at time 0."""
    base = 1.0 + rate
    return math.fsum(v / math.pow(base, i) for i, v in enumerate(flows))


def one_root_flows(flows):
    """Initial outlay followed by returns that exceed it."""
    return (len(flows) >= 2 and flows[0] < 0 and
            all(v >= 0 for v in flows[1:]) and math.fsum(flows) > 0)


def bisect(f, lo, hi, steps=200):
    flo, fhi = f(lo), f(hi)
    if flo == 0:
        return lo
    if fhi == 0:
        return hi
    if (flo > 0) == (fhi > 0):
        return None
    for _ in range(steps):
        mid = 0.5 * (lo + hi)
        if mid == lo or mid == hi:
            break
        fm = f(mid)
        if fm == 0:
            return mid
        if (fm > 0) == (flo > 0):
            lo = mid
        else:
            hi = mid
    return 0.5 * (lo + hi)


def irr(flows):
    """Root in (0, RATE_HI] of an in-scope flow vector, else None."""
    assert one_root_flows(flows)
    return bisect(lambda r: irr_f(r, flows), 0.0, RATE_HI)


def xirr(flows, dates):
    assert one_root_flows(flows)
    return bisect(lambda r: xnpv(r, flows, dates)[0], 0.0, RATE_HI)


def close(got, want, scale, rel=REL):
    return abs(got - want) <= rel * max(scale, abs(want))


def selftest():
    # hand-checkable values and the published examples of the Excel
    # documentation (rounded as printed there)
    v, s = npv(0.1, [-10000, 3000, 4200, 6800])
    assert abs(v - 1188.4434123352207) < 1e-9 and s > abs(v)
    assert npv(0, [1, 2, 3]) == (6.0, 6.0)
    assert npv(1, [2, 4, 8])[0] == 3.0
    assert npv(-0.5, [1, 1])[0] == 6.0
    assert abs(npv(0.08, [8000, 9200, 10000, 12000, 14500])[0] - 41922.06
               ) < 0.01
    # PMT / PV: documentation examples
    assert abs(pmt(0.08 / 12, 10, 10000)[0] + 1037.03) < 0.01
    assert abs(pmt(0.06 / 12, 18 * 12, 0, 50000)[0] + 129.08) < 0.01
    assert pmt(0, 10, 1000, 200)[0] == -120.0
    assert pmt(1, 1, 100)[0] == -200.0              # repay 100 + 100% interest
    assert pmt(1, 2, 300)[0] == -400.0              # 300*4*1/(4-1)
    assert abs(pv(0.08 / 12, 12 * 20, 500)[0] + 59777.15) < 0.01
    assert pv(0, 12, -100, 50)[0] == 1150.0
    assert pv(1, 1, -100)[0] == 50.0
    assert pv(1, 1, -100, 0, 1)[0] == 100.0         # paid today: no discount
    assert pv(1, 2, 0, -400)[0] == 100.0
    # PV and PMT invert each other (exactly, in rational arithmetic)
    for r in (Fraction(1, 20), Fraction(-1, 2), Fraction(10)):
        for n in (1, 2, 12, 30):
            for p0 in (-1000, 0, 1000):
                for f0 in (0, 100, -100):
                    T = (1 + r) ** n
                    m = -(p0 * T + f0) * r / (T - 1)
                    back = -(f0 + m * (T - 1) / r) / T
                    assert back == p0
                    got, scale = pv(r, n, float(m), f0)
                    assert close(got, p0, scale, 1e-12), (r, n, p0, f0, got)
    assert sln(30000, 7500, 10) == (2250.0, 3750.0)
    assert sln(1000, 100, 0.5)[0] == 1800.0
    # XNPV / XIRR: the documentation example
    vals = [-10000, 2750, 4250, 3250, 2750]
    dates = [39448, 39508, 39751, 39859, 39904]
    assert abs(xnpv(0.09, vals, dates)[0] - 2086.65) < 0.01
    assert abs(xirr(vals, dates) - 0.373362535) < 1e-8
    assert xnpv(0.1, [-100, 110], [1, 366])[0] == -100 + 110 / 1.1
    assert abs(xirr([-100, 110], [1, 366]) - 0.1) < 1e-12
    # IRR: documentation example and exact roots
    assert abs(irr([-70000, 12000, 15000, 18000, 21000, 26000]) -
               0.08663094803653162) < 1e-9
    assert abs(irr([-100, 110]) - 0.1) < 1e-12
    assert abs(irr([-100, 0, 121]) - 0.1) < 1e-12
    assert abs(irr([-100, 1100]) - 10.0) < 1e-12
    assert irr([-100, 1200]) is None                # root 11 > 10
    assert one_root_flows([-100, 60, 60]) and not one_root_flows([-100, 50])
    assert not one_root_flows([-100, 200, -50])
    assert not one_root_flows([100, 60])
    # residual at the root is zero, and the function is decreasing
    r = irr([-1000, 300, 420, 680])
    assert abs(irr_f(r, [-1000, 300, 420, 680])) < 1e-9
    assert irr_f(r - 0.01, [-1000, 300, 420, 680]) > 0 > irr_f(
        r + 0.01, [-1000, 300, 420, 680])
    assert representable(1, 360) and not representable(10, 360)
    assert representable(-0.5, 360) and representable(0.001, 360)
