"""Linear-scan reference for criteria counting and lookups (property C15).

Independent of xlcalculator (never imports it).

Cell values: int/float (number) or str (text).  Blank cells, booleans,
numeric text and dates are outside what the statement of C15 fixes and are
refused (``Unjudged``).

Criterion semantics, as quoted in the statement:
  * a criterion is a value (number or text), or text with an optional
    comparison prefix  =  <>  <  <=  >  >=  followed by a numeric (possibly
    negative) or text operand; no prefix means "equals";
  * text is matched case-insensitively;
  * an ordering criterion (< <= > >=) only matches cells of its operand's
    own type (a number operand never matches text cells and vice versa);
  * "=" / plain values compare across types: a cell of another type is
    simply not equal, so it does not match "=" and does match "<>";
  * several criteria are combined conjunctively, position by position.
Lookups:
  * exact MATCH: 1-based position of the first cell equal to the key, #N/A
    when there is none; approximate MATCH over ascending numbers: the last
    position whose value does not exceed the key (none: not a position);
  * VLOOKUP: value in the requested column of the first row whose first cell
    equals the key, #N/A when there is none, an error value for a column
    index outside 1..columns;
  * CHOOSE(i, v1..vn) = v_i for an integer i in 1..n, #VALUE! outside.
Keys are only compared in the spelling in which they occur in the table: a
text key that equals a cell only after case folding is refused.
"""
import re

PREFIXES = ('<=', '>=', '<>', '<', '>', '=')      # longest first
ORDERING = ('<', '<=', '>', '>=')

_NUMBER = re.compile(r'^[+-]?(\d+\.?\d*|\.\d+)([eE][+-]?\d+)?$')

NA = '#N/A'
VALUE = '#VALUE!'
ANY_ERROR = 'any-error'


class Unjudged(Exception):
    """The statement does not fix the result (reason in args[0])."""


def is_number(v):
    return isinstance(v, (int, float)) and not isinstance(v, bool)


def kind(v):
    if is_number(v):
        return 'number'
    if isinstance(v, str):
        if v == '' or _NUMBER.match(v.strip()) or \
                v.strip().lower() in ('true', 'false'):
            raise Unjudged('blank-numeric-or-boolean-text-cell')
        return 'text'
    raise Unjudged('cell-kind-outside-the-statement')


def parse_criterion(crit):
    """crit: number | str  ->  (op, operand) with operand number | str."""
    if is_number(crit):
        return '=', crit
    if not isinstance(crit, str):
        raise Unjudged('criterion-kind-outside-the-statement')
    op = '='
    rest = crit
    for p in PREFIXES:
        if crit.startswith(p):
            op, rest = p, crit[len(p):]
            break
    if rest == '':
        raise Unjudged('criterion-without-operand')
    if any(ch in rest for ch in '*?~'):
        raise Unjudged('wildcard')
    if rest != rest.strip() or rest[0] in '<>=':
        raise Unjudged('criterion-spelling-outside-the-statement')
    if _NUMBER.match(rest):
        f = float(rest)
        return op, (int(f) if f == int(f) else f)
    if rest.lower() in ('true', 'false'):
        raise Unjudged('boolean-operand')
    return op, rest


def fold(s):
    return s.casefold()


def holds(cell, op, operand):
    """Does the criterion (op, operand) hold for the cell?"""
    if is_number(operand) and op in ORDERING and isinstance(cell, str) \
            and cell != '':
        # "an ordering criterion only matches cells of its operand's own
        # type": a text cell - also one that spells a number - is not a
        # number
        return False
    ck, ok = kind(cell), ('number' if is_number(operand) else 'text')
    if ck != ok:
        # another type: never equal, never ordered
        return op == '<>'
    a, b = (cell, operand) if ck == 'number' else (fold(cell), fold(operand))
    return {'=': a == b, '<>': a != b, '<': a < b, '<=': a <= b,
            '>': a > b, '>=': a >= b}[op]


def criterion_tags(crit, cells):
    """Feature tags of one criterion applied to one column."""
    op, operand = parse_criterion(crit)
    tags = set()
    prefixed = isinstance(crit, str) and crit.startswith(PREFIXES)
    if prefixed and is_number(operand) and operand < 0:
        tags.add('crit:prefixed-negative-operand')
    okind = 'number' if is_number(operand) else 'text'
    if op in ORDERING:
        tags.add('crit:ordering')
        if any(kind(c) != okind for c in cells):
            tags.add('crit:ordering-over-other-type')
    return tags


def countifs(pairs):
    """pairs: [(cells, criterion), ...] over columns of equal length."""
    n = len(pairs[0][0])
    parsed = []
    for cells, crit in pairs:
        if len(cells) != n:
            raise Unjudged('ranges-of-different-length')
        parsed.append((cells, parse_criterion(crit)))
    return sum(1 for i in range(n)
               if all(holds(cells[i], op, operand)
                      for cells, (op, operand) in parsed))


def countif(cells, crit):
    return countifs([(cells, crit)])


def sumifs(sum_cells, pairs):
    n = len(sum_cells)
    for v in sum_cells:
        if not is_number(v):
            raise Unjudged('non-number-in-sum-range')
    parsed = []
    for cells, crit in pairs:
        if len(cells) != n:
            raise Unjudged('ranges-of-different-length')
        parsed.append((cells, parse_criterion(crit)))
    return sum(sum_cells[i] for i in range(n)
               if all(holds(cells[i], op, operand)
                      for cells, (op, operand) in parsed))


def sumif(cells, crit, sum_cells=None):
    return sumifs(cells if sum_cells is None else sum_cells, [(cells, crit)])


def _same(cell, key):
    """Equality of a lookup key and a cell, in the table's own spelling."""
    ck, kk = kind(cell), kind(key)
    if ck != kk:
        return False
    if ck == 'text':
        # "equals" is the equality of the = operator: texts are equal
        # whatever their case (property C09)
        return fold(cell) == fold(key)
    return cell == key


def match_exact(cells, key):
    """1-based position of the first equal cell, or NA."""
    hits = [i + 1 for i, c in enumerate(cells) if _same(c, key)]
    return hits[0] if hits else NA


def match_approx(cells, key):
    """Last 1-based position whose value <= key over ascending numbers;
    ANY_ERROR when no position qualifies (the statement names no value)."""
    if not is_number(key) or not all(is_number(c) for c in cells):
        raise Unjudged('approximate-match-over-non-numbers')
    if any(a > b for a, b in zip(cells, cells[1:])):
        raise Unjudged('data-not-ascending')
    pos = [i + 1 for i, c in enumerate(cells) if c <= key]
    return pos[-1] if pos else ANY_ERROR


def match_approx_mixed(cells, key):
    """Approximate MATCH over a column of numbers followed by texts (ascending
    in Excel's order).  Judged only where "the last position whose value does
    not exceed the lookup value" is a cell of the key's own type: then it does
    not matter whether cells of the other type are compared or skipped."""
    def rank(v):
        if is_number(v):
            return (0, v)
        if kind(v) == 'text':
            return (1, fold(v))
        raise Unjudged('cell-kind-outside-the-statement')
    ranks = [rank(c) for c in cells]
    if any(a > b for a, b in zip(ranks, ranks[1:])):
        raise Unjudged('data-not-ascending')
    rk = rank(key)
    same = [i + 1 for i, r in enumerate(ranks) if r[0] == rk[0] and r <= rk]
    if not same:
        raise Unjudged('no-cell-of-the-key-type-qualifies')
    return same[-1]


def vlookup(table, key, col):
    """table: list of rows.  Returns the value, NA, or ANY_ERROR."""
    width = len(table[0])
    assert all(len(r) == width for r in table)
    hits = [r for r in table if _same(r[0], key)]
    if not (isinstance(col, int) and not isinstance(col, bool)):
        raise Unjudged('non-integer-column-index')
    if col < 1 or col > width:
        return ANY_ERROR
    return hits[0][col - 1] if hits else NA


def choose(index, values):
    if isinstance(index, bool):
        raise Unjudged('non-integer-index')
    if isinstance(index, float) and index != int(index):
        # Excel truncates a fractional index.  Below 1 it is outside 1..n
        # under every reading; between 1 and n the truncated index selects;
        # between n and n+1 the statement ("outside 1..n") and Excel's
        # truncation disagree: not judged.
        if index < 1:
            return VALUE
        if index < len(values):
            return values[int(index) - 1]
        if index > len(values) + 1:
            return VALUE
        raise Unjudged('fractional-index-between-n-and-n+1')
    index = int(index)
    if 1 <= index <= len(values):
        return values[index - 1]
    return VALUE


def selftest():
    col = [1, 5, -3, 'apple', 'Banana', 'b']
    facts = {
        5: 1, -3: 1, 0: 0, 'apple': 1, 'APPLE': 1, 'banana': 1, '5': 1,
        '-3': 1, '=5': 1, '<>5': 5, '<5': 2, '<=5': 3, '>5': 0, '>=5': 1,
        '<-3': 0, '<=-3': 1, '>-3': 2, '>=-3': 3, '=-3': 1, '<>-3': 5,
        '<0': 1, '>0': 2, '=apple': 1, '<>apple': 5, '<apple': 0,
        '<=apple': 1, '>apple': 2, '>=apple': 3, '<b': 1, '<=b': 2, '>b': 1,
        '>=b': 2, '=B': 1, '<>B': 5, '>=BANANA': 1, '<banana': 2,
    }
    for crit, want in facts.items():
        assert countif(col, crit) == want, (crit, countif(col, crit), want)
    # complement and partition laws over every criterion operand
    for operand in ('5', '-3', '0', 'apple', 'b', 'BANANA'):
        n = len(col)
        assert countif(col, '=' + operand) + countif(col, '<>' + operand) == n
        same = [c for c in col
                if is_number(c) == bool(_NUMBER.match(operand))]
        assert countif(col, '<' + operand) + countif(col, '=' + operand) + \
            countif(col, '>' + operand) == len(same)
        assert countif(col, '<=' + operand) == countif(col, '<' + operand) + \
            countif(col, '=' + operand)
        assert countif(col, '>=' + operand) == countif(col, '>' + operand) + \
            countif(col, '=' + operand)
    assert parse_criterion('<=-3') == ('<=', -3)
    assert parse_criterion('<>apple') == ('<>', 'apple')
    assert parse_criterion('2.5') == ('=', 2.5)
    for bad in ('<', 'a*', '> 5', '=TRUE', '=<5'):
        try:
            parse_criterion(bad)
        except Unjudged:
            pass
        else:
            raise AssertionError(bad)
    a = [1, 5, 5, 'apple']
    b = ['b', 'apple', 'b', 'B']
    assert countifs([(a, '>0'), (b, 'b')]) == 2
    assert countifs([(a, 5), (b, '<>b')]) == 1
    assert countifs([(a, '<>5'), (b, 'B'), (a, '<2')]) == 1
    assert sumifs([1, 2, 4, 8], [(a, '>0'), (b, 'b')]) == 5
    assert sumif(a, '<>5', [1, 2, 4, 8]) == 9
    assert sumif([1, 5, 5], '>1') == 10
    # lookups
    assert match_exact(col, 5) == 2 and match_exact(col, 'b') == 6
    assert match_exact(col, 7) == NA and match_exact(col, 'zz') == NA
    assert match_exact([3, 1, 3], 3) == 1
    assert match_exact(['5x', 5], 5) == 2
    assert match_exact(col, 'APPLE') == 4 and match_exact(col, 'B') == 6
    asc = [1, 3, 3, 7]
    assert [match_approx(asc, k) for k in range(0, 9)] == \
        [ANY_ERROR, 1, 1, 3, 3, 3, 3, 4, 4]
    # agrees with bisect on every ascending column
    import bisect
    import itertools
    for n in range(1, 5):
        for cells in itertools.combinations_with_replacement((1, 3, 5, 7), n):
            for k in range(0, 9):
                want = bisect.bisect_right(cells, k) or ANY_ERROR
                assert match_approx(list(cells), k) == want
    t = [[1, 12, 'r1'], ['a', 22, 'r2'], [1, 32, 'r3'], ['B', 42, 'r4']]
    assert vlookup(t, 1, 2) == 12 and vlookup(t, 1, 3) == 'r1'
    assert vlookup(t, 'a', 1) == 'a' and vlookup(t, 'B', 3) == 'r4'
    assert vlookup(t, 3, 2) == NA and vlookup(t, 'zz', 3) == NA
    assert vlookup(t, 1, 0) == ANY_ERROR and vlookup(t, 1, 4) == ANY_ERROR
    assert vlookup(t, 3, 4) == ANY_ERROR
    assert choose(1, [10, 't2']) == 10 and choose(2, [10, 't2']) == 't2'
    assert [choose(i, [10, 't2']) for i in (-1, 0, 3)] == [VALUE] * 3
