"""Reference values of the elementary functions of property C16.

Independent of xlcalculator (never imports it) and of libm / numpy: every
function is evaluated on the *exact* binary value of its double arguments in
``decimal`` arithmetic with 80 working digits (argument reduction with 400
digits of pi, Taylor series, decimal's correctly rounded exp / ln / log10 /
sqrt) and rounded once to the nearest double.  At 80 digits the probability
of a double-rounding error is ~1e-60 and irrelevant under the property's
tolerance of a few units in the last place.

``compute(fn, args)`` returns
  * a float          - the correctly rounded reference value,
  * ``DOMAIN``       - the arguments are outside the function's domain (or the
                       exact result exceeds the double range): the property
                       demands an Excel error value,
  * ``Lenient(vals)``- conventions differ (IEEE vs Excel) or the property is
                       silent: any of ``vals`` or an error value is accepted,
and a set of input-feature tags.
"""
import decimal
import math
from decimal import Decimal as D
from fractions import Fraction

from .rounding import DOMAIN, Lenient  # noqa: F401  (shared markers)

PREC = 80
DBL_MAX = float.fromhex('0x1.fffffffffffffp+1023')
# a real number >= this rounds to infinity
_OVER = D(2) ** 1024 - D(2) ** 970
TRIG_LIMIT = 2.0 ** 27          # Excel's own limit for SIN/COS/TAN arguments


def _ctx(prec=PREC):
    c = decimal.Context(prec=prec, rounding=decimal.ROUND_HALF_EVEN,
                        Emin=-9999999, Emax=9999999)
    c.traps[decimal.Inexact] = False
    c.traps[decimal.Rounded] = False
    c.traps[decimal.Subnormal] = False
    c.traps[decimal.Underflow] = False
    return c


def _pi_digits(n):
    """pi with n decimals by Machin's formula in integer arithmetic."""
    guard = 10
    one = 10 ** (n + guard)

    def arctan_inv(x):
        total = term = one // x
        x2 = x * x
        k = 1
        sign = -1
        while term:
            term //= x2
            k += 2
            total += sign * (term // k)
            sign = -sign
        return total
    pi = 4 * (4 * arctan_inv(5) - arctan_inv(239))
    digits = tuple(int(ch) for ch in str(pi // 10 ** guard))
    return D((0, digits, -n))          # exact, independent of any context


PI = _pi_digits(420)
HALF_PI = _ctx(440).divide(PI, D(2))


def dec(x):
    """Exact decimal value of a number (int or double)."""
    if isinstance(x, bool):
        raise TypeError(x)
    return D(x)


def to_float(d):
    """Nearest double of a Decimal; None when it rounds to infinity."""
    if abs(d) >= _OVER:
        return None
    f = float(d)
    return f + 0.0 if f != 0 else 0.0


# -- series ------------------------------------------------------------------
def _sin_small(r, c):
    # |r| <= pi/4
    r2 = c.multiply(r, r)
    term = total = r
    k = 1
    eps = D(10) ** (-(c.prec + 5))
    while True:
        term = c.divide(c.multiply(term, r2), D((k + 1) * (k + 2)))
        term = -term
        k += 2
        total = c.add(total, term)
        if abs(term) <= eps * max(abs(total), D('1e-9999')):
            return total


def _cos_small(r, c):
    r2 = c.multiply(r, r)
    term = total = D(1)
    k = 0
    eps = D(10) ** (-(c.prec + 5))
    while True:
        term = -c.divide(c.multiply(term, r2), D((k + 1) * (k + 2)))
        k += 2
        total = c.add(total, term)
        if abs(term) <= eps:
            return total


def _reduce(x):
    """x = k*(pi/2) + r with |r| <= pi/4, r accurate to ~PREC significant
    digits (x is exact, pi has 420 digits, |x| < 1e300 is supported)."""
    big = _ctx(PREC + 340)
    k = int(big.divide(x, HALF_PI).to_integral_value(
        rounding=decimal.ROUND_HALF_EVEN))
    r = big.subtract(x, big.multiply(D(k), HALF_PI))
    return k, _ctx().plus(r)


def sin(x):
    c = _ctx()
    k, r = _reduce(dec(x))
    k &= 3
    if k == 0:
        return _sin_small(r, c)
    if k == 1:
        return _cos_small(r, c)
    if k == 2:
        return -_sin_small(r, c)
    return -_cos_small(r, c)


def cos(x):
    c = _ctx()
    k, r = _reduce(dec(x))
    k &= 3
    if k == 0:
        return _cos_small(r, c)
    if k == 1:
        return -_sin_small(r, c)
    if k == 2:
        return -_cos_small(r, c)
    return _sin_small(r, c)


def tan(x):
    c = _ctx()
    k, r = _reduce(dec(x))
    s, co = _sin_small(r, c), _cos_small(r, c)
    if k & 1:
        return -c.divide(co, s)
    return c.divide(s, co)


def _atan_dec(t, c):
    """atan of a Decimal t (any magnitude)."""
    if t == 0:
        return D(0)
    if t < 0:
        return -_atan_dec(-t, c)
    if t > 1:
        return c.subtract(c.plus(HALF_PI), _atan_dec(c.divide(D(1), t), c))
    # halve the angle until the series converges quickly
    n = 0
    while t > D('0.05'):
        t = c.divide(t, c.add(D(1), c.sqrt(c.add(D(1), c.multiply(t, t)))))
        n += 1
    t2 = c.multiply(t, t)
    term = total = t
    k = 1
    eps = D(10) ** (-(c.prec + 5))
    while True:
        term = -c.multiply(term, t2)
        k += 2
        piece = c.divide(term, D(k))
        total = c.add(total, piece)
        if abs(piece) <= eps * abs(total):
            break
    return c.multiply(total, D(2) ** n)


def atan(x):
    return _atan_dec(dec(x), _ctx())


def atan2(y, x):
    """Angle of the point (x, y); not both zero."""
    c = _ctx()
    y, x = dec(y), dec(x)
    if x == 0:
        return c.plus(HALF_PI) if y > 0 else -c.plus(HALF_PI)
    if y == 0:
        return D(0) if x > 0 else c.plus(PI)
    big = _ctx(PREC + 10)
    a = _atan_dec(big.divide(abs(y), abs(x)), c)
    if x < 0:
        a = c.subtract(c.plus(PI), a)
    return a if y > 0 else -a


def asin(x):
    c = _ctx()
    x = dec(x)
    if abs(x) == 1:
        return c.plus(HALF_PI) if x > 0 else -c.plus(HALF_PI)
    big = _ctx(PREC + 40)
    den = big.sqrt(big.multiply(big.subtract(D(1), x), big.add(D(1), x)))
    return _atan_dec(big.divide(x, den), c)


def acos(x):
    c = _ctx()
    x = dec(x)
    if x == 1:
        return D(0)
    if x == -1:
        return c.plus(PI)
    big = _ctx(PREC + 40)
    t = big.sqrt(big.divide(big.subtract(D(1), x), big.add(D(1), x)))
    return c.multiply(D(2), _atan_dec(t, c))


def exp(x):
    return _ctx().exp(dec(x))


def _sinh_dec(x, c):
    if abs(x) < D('0.5'):
        x2 = c.multiply(x, x)
        term = total = x
        k = 1
        eps = D(10) ** (-(c.prec + 5))
        while True:
            term = c.divide(c.multiply(term, x2), D((k + 1) * (k + 2)))
            k += 2
            total = c.add(total, term)
            if abs(term) <= eps * abs(total):
                return total
    e = c.exp(x)
    return c.divide(c.subtract(e, c.divide(D(1), e)), D(2))


def sinh(x):
    return _sinh_dec(dec(x), _ctx())


def cosh(x):
    c = _ctx()
    e = c.exp(dec(x))
    return c.divide(c.add(e, c.divide(D(1), e)), D(2))


def tanh(x):
    c = _ctx()
    x = dec(x)
    if abs(x) > 200:
        return D(1) if x > 0 else D(-1)      # 1 - 2e-174: rounds to 1
    return c.divide(_sinh_dec(x, c), cosh(x))


def asinh(x):
    c = _ctx()
    x = dec(x)
    a = abs(x)
    if a < D('1e-30'):
        return c.plus(x)                     # x - x^3/6: below 1e-60 relative
    big = _ctx(PREC + 40)
    r = big.ln(big.add(a, big.sqrt(big.add(big.multiply(a, a), D(1)))))
    r = c.plus(r)
    return r if x > 0 else -r


def acosh(x):
    x = dec(x)
    big = _ctx(PREC + 40)
    root = big.sqrt(big.multiply(big.subtract(x, D(1)), big.add(x, D(1))))
    return _ctx().plus(big.ln(big.add(x, root)))


def atanh(x):
    c = _ctx()
    x = dec(x)
    if abs(x) < D('1e-30'):
        return c.plus(x)
    big = _ctx(PREC + 40)
    return c.multiply(D('0.5'), big.ln(big.divide(big.add(D(1), x),
                                                  big.subtract(D(1), x))))


def ln(x):
    return _ctx().ln(dec(x))


def log10(x):
    return _ctx().log10(dec(x))


def log(x, b):
    big = _ctx(PREC + 20)
    return _ctx().divide(big.ln(dec(x)), big.ln(dec(b)))


def sqrt(x):
    return _ctx().sqrt(dec(x))


def _is_integral(x):
    return x == math.floor(x)


def power(x, y):
    """x**y for x > 0, or x < 0 with integral y.  OverflowError when the
    result certainly exceeds the double range."""
    big = _ctx(PREC + 30)
    xd, yd = dec(x), dec(y)
    neg = False
    if xd < 0:
        neg = int(yd) % 2 == 1
        xd = -xd
    if xd == 1 or yd == 0:
        return D(-1) if neg else D(1)
    t = big.multiply(yd, big.ln(xd))
    if t > 720:
        raise OverflowError
    if t < -800:
        return D(0)
    r = _ctx().plus(big.exp(t))
    return -r if neg else r


def fact(n):
    return math.factorial(n)


def factdouble(n):
    p = 1
    while n > 1:
        p *= n
        n -= 2
    return p


def mod(n, d):
    """n - d*floor(n/d) on the exact values of the doubles: the remainder
    with the sign of the divisor (exact rational arithmetic)."""
    fn, fd = Fraction(n), Fraction(d)
    q = fn / fd
    k = q.numerator // q.denominator
    return fn - fd * k


# -- classification ----------------------------------------------------------
def _num(d):
    f = to_float(d)
    return DOMAIN if f is None else f


def _frac_float(fr):
    try:
        return fr.numerator / fr.denominator + 0.0
    except OverflowError:
        return DOMAIN


UNARY_TOTAL = {'SIN': sin, 'COS': cos, 'TAN': tan, 'ATAN': atan,
               'ASINH': asinh, 'SINH': sinh, 'COSH': cosh, 'TANH': tanh,
               'EXP': exp}


def compute(fn, args):
    """(expected, tags) - see the module docstring."""
    # unary minus / abs / operators on Decimals round to the *current*
    # context: make that the 80-digit one for the whole computation
    with decimal.localcontext(_ctx()):
        return _compute(fn, args)


def _compute(fn, args):
    tags = set()
    a = args[0] if args else None
    if fn == 'PI':
        return float(_ctx().plus(PI)), tags
    if fn == 'ABS':
        return abs(a) + 0.0, tags
    if fn == 'SIGN':
        return (0.0 if a == 0 else math.copysign(1.0, a)), tags
    if fn in ('SIN', 'COS', 'TAN') and abs(a) >= TRIG_LIMIT:
        tags.add('domain:trig-beyond-2^27')
        return Lenient((_num(UNARY_TOTAL[fn](a)),)), tags
    if fn in ('EXP', 'SINH', 'COSH') and abs(a) > 800:
        if fn == 'EXP' and a < 0:
            return 0.0, tags
        tags.add('domain:overflow')
        return DOMAIN, tags
    if fn in UNARY_TOTAL:
        r = _num(UNARY_TOTAL[fn](a))
        if r is DOMAIN:
            tags.add('domain:overflow')
        return r, tags
    if fn == 'DEGREES':
        r = _num(_ctx().divide(_ctx().multiply(dec(a), D(180)), PI))
        if r is DOMAIN:
            tags.add('domain:overflow')
        return r, tags
    if fn == 'RADIANS':
        return _num(_ctx().divide(_ctx().multiply(dec(a), PI), D(180))), tags
    if fn == 'SQRT':
        if a < 0:
            tags.add('domain:sqrt-negative')
            return DOMAIN, tags
        return _num(sqrt(a)), tags
    if fn in ('LN', 'LOG10'):
        if a <= 0:
            tags.add('domain:log-zero' if a == 0 else 'domain:log-negative')
            return DOMAIN, tags
        return _num((ln if fn == 'LN' else log10)(a)), tags
    if fn == 'LOG':
        b = args[1] if len(args) > 1 else 10
        if a <= 0:
            tags.add('domain:log-zero' if a == 0 else 'domain:log-negative')
            return DOMAIN, tags
        if b <= 0:
            tags.add('domain:log-base-nonpositive')
            return DOMAIN, tags
        if b == 1:
            tags.add('domain:log-base-one')
            return DOMAIN, tags
        return _num(log(a, b)), tags
    if fn in ('ASIN', 'ACOS'):
        if abs(a) > 1:
            tags.add('domain:arc-beyond-1')
            return DOMAIN, tags
        return _num((asin if fn == 'ASIN' else acos)(a)), tags
    if fn == 'ACOSH':
        if a < 1:
            tags.add('domain:acosh-below-1')
            return DOMAIN, tags
        return _num(acosh(a)), tags
    if fn == 'ATANH':
        if abs(a) >= 1:
            tags.add('domain:atanh-beyond-1')
            return DOMAIN, tags
        return _num(atanh(a)), tags
    if fn == 'ATAN2':
        x, y = args
        if x == 0 and y == 0:
            tags.add('domain:atan2-origin')      # IEEE 0, Excel #DIV/0!
            return Lenient((0.0,)), tags
        return _num(atan2(y, x)), tags           # ATAN2(x, y) = atan2(y, x)
    if fn in ('POWER', '^'):
        x, y = args
        if x == 0:
            if y == 0:
                tags.add('domain:zero-pow-zero')  # IEEE 1, Excel #NUM!
                return Lenient((1.0,)), tags
            if y < 0:
                tags.add('domain:zero-pow-negative')
                return DOMAIN, tags
            return 0.0, tags
        if x < 0 and not _is_integral(y):
            tags.add('domain:negative-pow-fraction')
            return DOMAIN, tags
        try:
            r = _num(power(x, y))
        except OverflowError:
            r = DOMAIN
        if r is DOMAIN:
            tags.add('domain:overflow')
        return r, tags
    if fn == 'MOD':
        n, d = args
        if d == 0:
            tags.add('domain:mod-zero-divisor')
            return DOMAIN, tags
        r = _frac_float(mod(n, d))
        if abs(Fraction(n) / Fraction(d)) >= 2 ** 27:
            tags.add('domain:mod-quotient-beyond-2^27')   # Excel: #NUM!
            return Lenient((r,)), tags
        return r, tags
    if fn in ('FACT', 'FACTDOUBLE'):
        # "If number is not an integer, it is truncated" (both functions)
        n = int(a)
        if n != a:
            assert a > 0, 'non-integral arguments: positive ones only'
            tags.add('arg:truncated')
        if n < 0:
            if fn == 'FACTDOUBLE' and n == -1:
                tags.add('domain:factdouble-minus-one')   # (-1)!! = 1
                return Lenient((1.0,)), tags
            tags.add('domain:fact-negative')
            return DOMAIN, tags
        v = (fact if fn == 'FACT' else factdouble)(n)
        try:
            return float(v), tags
        except OverflowError:
            tags.add('domain:overflow')
            return DOMAIN, tags
    raise KeyError(fn)


def ulps(a, b):
    import struct

    def key(x):
        i = struct.unpack('<q', struct.pack('<d', x))[0]
        return i if i >= 0 else -(i & 0x7fffffffffffffff)
    return abs(key(a) - key(b))


def selftest():
    with decimal.localcontext(_ctx()):
        _selftest()


def _selftest():
    c = _ctx(60)

    def near(d, text, digits=40):
        want = D(text)
        assert abs(d - want) <= abs(want) * D(10) ** (-digits) \
            + D(10) ** (-digits - 5), (d, text)
    # constants known to many digits (OEIS A000796, A001113, A002162,
    # A002193, A049469, A049470, A049471, A073742, A073743)
    near(PI, '3.14159265358979323846264338327950288419716939937510')
    near(exp(1.0), '2.71828182845904523536028747135266249775724709369995')
    near(ln(2.0), '0.69314718055994530941723212145817656807550013436026')
    near(sqrt(2.0), '1.41421356237309504880168872420969807856967187537694')
    near(sin(1.0), '0.84147098480789650665250232163029899962256306079837')
    near(cos(1.0), '0.54030230586813971740093660744297660373231042061792')
    near(tan(1.0), '1.55740772465490223050697480745836017308725077238152')
    near(sinh(1.0), '1.17520119364380145688238185059560081515571798133410')
    near(cosh(1.0), '1.54308063481524377847790562075706168260152911236587')

    def pi_times(p, q):
        return str(c.divide(c.multiply(PI, D(p)), D(q)))
    near(atan(1.0), pi_times(1, 4))
    near(asin(0.5), pi_times(1, 6))
    near(acos(0.5), pi_times(1, 3))
    near(acos(-0.5), pi_times(2, 3))
    near(atan2(1.0, -1.0), pi_times(3, 4))
    near(atan2(-1.0, -1.0), pi_times(-3, 4))
    near(atan2(-1.0, 0.0), pi_times(-1, 2))
    near(atan2(0.0, -2.0), pi_times(1, 1))
    near(asinh(1.0), str(c.ln(c.add(D(1), c.sqrt(D(2))))))
    near(acosh(2.0), str(c.ln(c.add(D(2), c.sqrt(D(3))))))
    near(atanh(0.5), str(c.divide(c.ln(D(3)), D(2))))
    near(log10(1000.0), '3')
    near(log(8.0, 2.0), '3')
    near(power(2.0, 0.5), str(sqrt(2.0)))
    near(power(-2.0, 3.0), '-8')
    near(power(-2.0, -2.0), '0.25')
    near(power(10.0, 300.0), '1e300')
    # identities at high precision on awkward arguments
    for x in (1e-8, 0.3, 2.5, 100.0, 12345.678, 9.9e7, 1.5707963267948966,
              3.141592653589793, 710.0):
        b = _ctx(200)
        s, co = sin(x), cos(x)
        assert abs(b.subtract(b.add(b.multiply(s, s), b.multiply(co, co)),
                              D(1))) < D('1e-70'), x
        if x < 700:
            ch, sh = cosh(x), sinh(x)
            assert abs(b.subtract(b.subtract(b.multiply(ch, ch),
                                             b.multiply(sh, sh)), D(1))) \
                < b.multiply(D('1e-70'), b.multiply(ch, ch)), x
        near(c.exp(ln(x)), str(D(x)), 55)
        near(tan(atan(x)), str(D(x)), 50)
    # sin(pi as a double) = d - d^3/6 with d the distance of that double
    # from pi (1.22e-16): argument reduction keeps full relative accuracy
    dist = _ctx(100).subtract(PI, D(3.141592653589793))
    near(sin(3.141592653589793),
         str(_ctx(100).subtract(dist, _ctx(100).divide(
             _ctx(100).power(dist, D(3)), D(6)))), 60)
    # agreement with libm (an independent implementation) within 1 ulp
    pairs = [('SIN', math.sin), ('COS', math.cos), ('TAN', math.tan),
             ('ATAN', math.atan), ('ASINH', math.asinh), ('EXP', math.exp),
             ('COSH', math.cosh), ('SINH', math.sinh), ('TANH', math.tanh),
             ('LN', math.log), ('LOG10', math.log10), ('SQRT', math.sqrt),
             ('ASIN', math.asin), ('ACOS', math.acos),
             ('ACOSH', math.acosh), ('ATANH', math.atanh),
             ('DEGREES', math.degrees), ('RADIANS', math.radians)]
    xs = [float('%de%d' % (m, e)) for m in (1, 3, 7, 25, 99)
          for e in (-6, -3, -1, 0, 1, 2, 6)]
    xs += [-v for v in xs]
    for name, f in pairs:
        for x in xs:
            want, _ = compute(name, (x,))
            if want is DOMAIN or isinstance(want, Lenient):
                continue
            try:
                got = f(x)
            except (ValueError, OverflowError):
                raise AssertionError((name, x, want))
            assert ulps(want, got) <= 2, (name, x, want, got)
    for x in xs:
        for y in xs[::3]:
            want, _ = compute('ATAN2', (x, y))
            assert ulps(want, math.atan2(y, x)) <= 1, (x, y)
            if x > 0:
                want, _ = compute('POWER', (x, y))
                if want is not DOMAIN:
                    assert ulps(want, math.pow(x, y)) <= 1, (x, y)
            want, _ = compute('MOD', (x, y))
            if not isinstance(want, Lenient):
                got = math.fmod(x, y)
                if got and (got < 0) != (y < 0):
                    got += y
                assert want == got, (x, y, want, got)
    # domains
    assert compute('LN', (0.0,))[0] is DOMAIN
    assert compute('LOG', (8.0, 1.0))[0] is DOMAIN
    assert compute('ACOS', (1.0000000000000002,))[0] is DOMAIN
    assert compute('ACOS', (1.0,))[0] == 0.0
    assert compute('ACOSH', (0.9999999999999999,))[0] is DOMAIN
    assert compute('ACOSH', (1.0,))[0] == 0.0
    assert compute('EXP', (709.782712893384,))[0] == math.exp(709.782712893384)
    assert compute('EXP', (709.7827128933841,))[0] is DOMAIN
    assert compute('EXP', (-1000.0,))[0] == 0.0
    assert compute('POWER', (0.0, -1.0))[0] is DOMAIN
    assert compute('POWER', (-8.0, 0.5))[0] is DOMAIN
    assert compute('POWER', (10.0, 400.0))[0] is DOMAIN
    assert compute('POWER', (10.0, 308.0))[0] == 1e308
    assert compute('POWER', (0.0, 3.0))[0] == 0.0
    assert compute('MOD', (5.0, 0.0))[0] is DOMAIN
    assert compute('MOD', (-3.0, 2.0))[0] == 1.0
    assert compute('MOD', (3.0, -2.0))[0] == -1.0
    assert compute('MOD', (-3.0, -2.0))[0] == -1.0
    assert compute('MOD', (5.5, 2.0))[0] == 1.5
    assert compute('FACT', (170,))[0] == 7.257415615307999e306
    assert compute('FACT', (171,))[0] is DOMAIN
    assert compute('FACT', (0,))[0] == 1.0
    assert compute('FACT', (5,))[0] == 120.0
    assert compute('FACTDOUBLE', (6,))[0] == 48.0
    assert compute('FACTDOUBLE', (7,))[0] == 105.0
    assert compute('FACTDOUBLE', (0,))[0] == 1.0
    assert compute('FACTDOUBLE', (300,))[0] < float('inf')
    assert compute('FACTDOUBLE', (301,))[0] is DOMAIN
    assert compute('FACT', (-1,))[0] is DOMAIN
    assert compute('PI', ())[0] == math.pi
    assert compute('SIGN', (-0.5,))[0] == -1.0
    assert compute('DEGREES', (math.pi,))[0] == 180.0
    assert compute('ATAN2', (1.0, 2.0))[0] == math.atan2(2.0, 1.0)
