"""Reference order on Excel scalar values (property C09) and the order laws.

Independent of xlcalculator (never imports it).  A value is a pair

    ('num', float) | ('date', serial) | ('text', str) | ('bool', bool) | ('blank', None)

What the property states, and nothing more:

* numbers (dates counting as their serials) order numerically;
* texts order and compare case-insensitively;
* every number < every text < FALSE < TRUE;
* blank = 0, blank = "", blank = FALSE, blank = blank.

What it does not state is answered with ``None`` ("not judged"):

* any operator other than ``=`` with a blank operand, and ``=`` between a blank
  and anything but 0 / "" / FALSE / blank;
* the *ordering* (not the equality) of two texts when one of them contains a
  character outside ``[A-Za-z0-9 ]``: Excel collates by locale, the property
  only says "case-insensitively", and code-point order of the upper-cased
  strings differs from a locale collation there (``"é"`` vs ``"f"``).
"""
import datetime
import itertools

OPS = ('lt', 'le', 'eq', 'ne', 'ge', 'gt')
SYMBOL = {'lt': '<', 'le': '<=', 'eq': '=', 'ne': '<>', 'ge': '>=', 'gt': '>'}
OPNAME = {'lt': 'OP_LT', 'le': 'OP_LE', 'eq': 'OP_EQ', 'ne': 'OP_NE',
          'ge': 'OP_GE', 'gt': 'OP_GT'}
CLASS_RANK = {'num': 0, 'date': 0, 'text': 1, 'bool': 2}

_PLAIN = set('ABCDEFGHIJKLMNOPQRSTUVWXYZabcdefghijklmnopqrstuvwxyz0123456789 ')


def serial(year, month, day):
    """1900-system serial of a calendar day (1900-01-01 is 1, 1900-02-28 is
    59, 1900-03-01 is 61: the system counts a 29 February 1900)."""
    d = datetime.date(year, month, day)
    assert d >= datetime.date(1900, 1, 1)
    n = (d - datetime.date(1899, 12, 30)).days
    return n if n >= 61 else n - 1


def plain(s):
    return all(c in _PLAIN for c in s)


def stable_fold(s):
    """upper() and lower() are inverse on s (false for sharp s, dotless i,
    ligatures ...): only then "case-insensitive" has one meaning."""
    return s.upper().lower() == s.lower() and s.lower().upper() == s.upper()


def fold(s):
    """Case-insensitive form.  Only used on strings for which upper() and
    lower() folding induce the same equality (asserted by the check's
    alphabet self-test)."""
    return s.upper()


def compare(a, b):
    """-1 / 0 / 1 for two non-blank values, 'ne' when they are known to be
    different but their order is not judged."""
    (ca, va), (cb, vb) = a, b
    ra, rb = CLASS_RANK[ca], CLASS_RANK[cb]
    if ra != rb:
        return -1 if ra < rb else 1
    if ra == 0:
        fa, fb = float(va), float(vb)
        return (fa > fb) - (fa < fb)
    if ra == 2:
        return (int(va) > int(vb)) - (int(va) < int(vb))
    if not (stable_fold(va) and stable_fold(vb)):
        return None            # e.g. "straße": no case-insensitive form
    ua, ub = fold(va), fold(vb)
    if ua == ub:
        return 0
    if plain(va) and plain(vb):
        return -1 if ua < ub else 1
    return 'ne'


_BY_CMP = {
    'lt': lambda c: c < 0, 'le': lambda c: c <= 0, 'eq': lambda c: c == 0,
    'ne': lambda c: c != 0, 'ge': lambda c: c >= 0, 'gt': lambda c: c > 0,
}


def blank_partner(v):
    """Is ``v`` one of the values a blank is stated to be equal to?"""
    c, x = v
    return (c == 'blank' or (c == 'num' and float(x) == 0.0)
            or (c == 'text' and x == '') or (c == 'bool' and x is False))


def holds(op, a, b):
    """True / False, or None when the property does not fix the answer."""
    if a[0] == 'blank' or b[0] == 'blank':
        if op != 'eq':
            return None
        other = b if a[0] == 'blank' else a
        return True if blank_partner(other) else None
    c = compare(a, b)
    if c is None:
        return None
    if c == 'ne':
        return {'eq': False, 'ne': True}.get(op)
    return _BY_CMP[op](c)


# -- the laws, on an OBSERVED relation ------------------------------------
def pair_laws(fwd, rev_gt):
    """``fwd``: dict op -> True/False/None (None = the observation was not a
    logical) for the ordered pair (a, b); ``rev_gt``: observed b > a.
    Returns the names of the violated laws (empty list = all hold)."""
    bad = []
    vals = [fwd[o] for o in OPS]
    if any(v is None for v in vals) or rev_gt is None:
        bad.append('logical-result')
        return bad
    if [fwd['lt'], fwd['eq'], fwd['gt']].count(True) != 1:
        bad.append('trichotomy')
    if fwd['le'] != (fwd['lt'] or fwd['eq']):
        bad.append('le')
    if fwd['ge'] != (fwd['gt'] or fwd['eq']):
        bad.append('ge')
    if fwd['ne'] != (not fwd['eq']):
        bad.append('ne')
    if fwd['lt'] != rev_gt:
        bad.append('converse')
    return bad


def transitive(ab, bc, ac):
    """a<b and b<c imply a<c (on observed truth values)."""
    return not (ab is True and bc is True) or ac is True


def selftest():
    N = lambda x: ('num', float(x))  # noqa: E731
    T = lambda s: ('text', s)  # noqa: E731
    B = lambda b: ('bool', b)  # noqa: E731
    D = lambda *ymd: ('date', serial(*ymd))  # noqa: E731
    BL = ('blank', None)
    # Excel's documented sort order: numbers, text, FALSE, TRUE
    chain = [N(-2), N(-1.5), N(0), N(1), N(2.5), N(1e10), T(''), T('1'),
             T('10'), T('9'), T('a'), T('ab'), T('B'), T('FALSE'), T('true'),
             B(False), B(True)]
    for i, j in itertools.product(range(len(chain)), repeat=2):
        c = compare(chain[i], chain[j])
        assert c == (i > j) - (i < j), (chain[i], chain[j], c)
    # well-known serials
    assert serial(2020, 1, 1) == 43831 and serial(1900, 3, 1) == 61
    assert serial(1900, 2, 28) == 59 and serial(1900, 1, 1) == 1
    assert serial(2000, 1, 1) == 36526
    assert holds('eq', D(2020, 1, 1), N(43831)) is True
    assert holds('lt', D(2020, 1, 1), N(43831.5)) is True
    assert holds('gt', D(2020, 1, 2), N(43831.5)) is True
    assert holds('lt', D(2020, 1, 1), T('')) is True
    # case-insensitive
    assert holds('eq', T('a'), T('A')) is True
    assert holds('ne', T('a'), T('A')) is False
    assert holds('le', T('A'), T('a')) is True
    assert holds('eq', T('é'), T('É')) is True
    assert holds('eq', T('true'), B(True)) is False
    assert holds('lt', T('true'), B(False)) is True
    assert holds('eq', T('1'), N(1)) is False and holds('lt', N(99), T('1'))
    assert holds('eq', N(1), N(1.0)) is True
    assert holds('eq', B(True), N(1)) is False and holds('gt', B(False), N(7))
    # locale-dependent text order is not judged, equality is
    assert holds('lt', T('é'), T('f')) is None
    assert holds('eq', T('é'), T('f')) is False
    assert holds('ne', T('é'), T('f')) is True
    assert holds('lt', T('-1'), T('1')) is None
    # blank: only the stated equalities
    for v in (N(0), N(0.0), T(''), B(False), BL):
        assert holds('eq', BL, v) is True and holds('eq', v, BL) is True
    for v in (N(1), T('a'), B(True), D(2020, 1, 1)):
        assert holds('eq', BL, v) is None
    for op in OPS:
        if op != 'eq':
            assert holds(op, BL, N(0)) is None and holds(op, N(0), BL) is None
    # laws: a consistent relation passes, each single flaw is named
    for a, b in itertools.product(chain, repeat=2):
        fwd = {o: holds(o, a, b) for o in OPS}
        assert pair_laws(fwd, holds('gt', b, a)) == []
    good = {'lt': True, 'le': True, 'eq': False, 'ne': True, 'ge': False,
            'gt': False}
    assert pair_laws(good, True) == []
    assert pair_laws(good, False) == ['converse']
    assert pair_laws(dict(good, gt=True), True) == ['trichotomy', 'ge']
    assert pair_laws(dict(good, lt=False), False) == ['trichotomy', 'le']
    assert pair_laws(dict(good, ne=False), True) == ['ne']
    assert pair_laws(dict(good, eq=None), True) == ['logical-result']
    assert transitive(True, True, True) and not transitive(True, True, False)
    assert transitive(True, False, False) and transitive(False, True, False)
    assert not transitive(True, True, None)
