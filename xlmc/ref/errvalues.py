"""Reference rules for Excel error values (C07).  Never imports xlcalculator.

Typed values are tuples:
  ('num', float) ('text', str) ('bool', bool) ('blank',) ('date', serial)
  ('err', code)
"""

ERROR_CODES = ('#NULL!', '#DIV/0!', '#VALUE!', '#REF!', '#NAME?', '#NUM!',
               '#N/A')

# error values an operator may produce from non-error operands
OPERATOR_ERRORS = ('#VALUE!', '#DIV/0!', '#NUM!')

VALUE_CLASSES = ('num:', 'text:', 'bool:', 'blank', 'date:')


def is_error(v):
    return v[0] == 'err'


def leftmost_error(values):
    """Code of the first error among the operands / arguments, in the order
    given, or None."""
    for v in values:
        if is_error(v):
            assert v[1] in ERROR_CODES, v
            return v[1]
    return None


def propagate(values):
    """Observation demanded when at least one operand is an error."""
    code = leftmost_error(values)
    assert code is not None
    return 'err:%s' % code


def inspector(fn, v):
    """Truth value Excel's IS* function reports for a typed value; None when
    the property does not say (type inspectors applied to an error; ISNUMBER
    of a date object, which Excel only knows as a number)."""
    t = v[0]
    if fn == 'ISERROR':
        return t == 'err'
    if fn == 'ISERR':
        return t == 'err' and v[1] != '#N/A'
    if fn == 'ISNA':
        return t == 'err' and v[1] == '#N/A'
    if t == 'err':
        return None
    if fn == 'ISNUMBER':
        if t == 'date':
            return None
        return t == 'num'
    if fn == 'ISTEXT':
        return t == 'text'
    if fn == 'ISBLANK':
        return t == 'blank'
    raise KeyError(fn)


def operator_outcome_ok(obs):
    """'a value or an Excel error value (#VALUE!, #DIV/0!, #NUM!)' - the
    classes of observation an operator over scalar operands may have.
    Returns (ok, judged): non-finite floats are not judged here (overflow
    belongs to C16)."""
    if obs.startswith('nonfinite:'):
        return True, False
    if obs.startswith('err:'):
        return obs[4:] in OPERATOR_ERRORS, True
    if obs.startswith(VALUE_CLASSES):
        return True, True
    return False, True


def selftest():
    e = lambda c: ('err', c)   # noqa: E731
    assert leftmost_error([('num', 1.0), e('#N/A')]) == '#N/A'
    assert leftmost_error([e('#REF!'), e('#N/A')]) == '#REF!'
    assert leftmost_error([('num', 1.0), ('text', '#N/A')]) is None
    assert propagate([('blank',), e('#DIV/0!'), e('#NULL!')]) == 'err:#DIV/0!'
    # the property's own sentences
    for code in ERROR_CODES:
        assert inspector('ISERROR', e(code)) is True
        assert inspector('ISERR', e(code)) is (code != '#N/A')
        assert inspector('ISNA', e(code)) is (code == '#N/A')
        for fn in ('ISNUMBER', 'ISTEXT', 'ISBLANK'):
            assert inspector(fn, e(code)) is None
    for v in (('num', 0.0), ('text', ''), ('text', '#N/A'), ('bool', False),
              ('blank',), ('date', 43831)):
        for fn in ('ISERROR', 'ISERR', 'ISNA'):
            assert inspector(fn, v) is False
    assert inspector('ISNUMBER', ('num', 0.0)) is True
    assert inspector('ISNUMBER', ('text', '1')) is False      # not altered
    assert inspector('ISNUMBER', ('bool', True)) is False
    assert inspector('ISNUMBER', ('blank',)) is False
    assert inspector('ISTEXT', ('text', '')) is True
    assert inspector('ISTEXT', ('num', 1.0)) is False
    assert inspector('ISTEXT', ('blank',)) is False
    assert inspector('ISBLANK', ('blank',)) is True
    assert inspector('ISBLANK', ('text', '')) is False        # ="" is text
    assert inspector('ISBLANK', ('num', 0.0)) is False
    assert inspector('ISBLANK', ('bool', False)) is False
    assert operator_outcome_ok('num:1.0') == (True, True)
    assert operator_outcome_ok('err:#DIV/0!') == (True, True)
    assert operator_outcome_ok('err:#N/A') == (False, True)
    assert operator_outcome_ok('err:#NAME?') == (False, True)
    assert operator_outcome_ok('raise:TypeError') == (False, True)
    assert operator_outcome_ok('timeout') == (False, True)
    assert operator_outcome_ok('other:DataFrame') == (False, True)
    assert operator_outcome_ok('nonfinite:inf') == (True, False)
    assert operator_outcome_ok('text:') == (True, True)
    assert operator_outcome_ok('blank') == (True, True)
