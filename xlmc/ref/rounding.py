"""Reference model of Excel's rounding family (property C16).

Independent of xlcalculator (never imports it).

The property defines the result as the *decimal* rounding of the argument's
shortest decimal representation (``repr`` of the double), in the direction of
the function, converted back to the nearest double.  Everything here is done
in exact integer / rational arithmetic: the shortest representation is read
as ``sign * coefficient * 10**exponent`` and the final conversion is one
correctly rounded ``int / int`` true division (CPython guarantees correct
rounding of integer true division and of ``float(Fraction)``).

Results: a Python float (the one double the function must return),
``DOMAIN`` (an Excel error value is required), or ``Lenient(values)`` (the
property is ambiguous: any of the listed floats or an error value is accepted,
a Python exception / NaN / infinity is not).
"""
import decimal
from fractions import Fraction


class _Domain:
    def __repr__(self):
        return 'DOMAIN'


DOMAIN = _Domain()


class Lenient:
    def __init__(self, values):
        self.values = tuple(values)

    def __repr__(self):
        return 'Lenient(%r)' % (self.values,)


HALF_AWAY = 'half-away'      # ROUND
AWAY = 'away'                # ROUNDUP
TOWARD = 'toward'            # ROUNDDOWN, TRUNC
FLOOR_ = 'floor'             # INT

MODE_OF = {'ROUND': HALF_AWAY, 'ROUNDUP': AWAY, 'ROUNDDOWN': TOWARD,
           'TRUNC': TOWARD}


def parts(x):
    """(sign, coefficient, exponent) of the shortest decimal representation
    of the number x (int or float): x == sign * coefficient * 10**exponent."""
    if isinstance(x, bool):
        raise TypeError(x)
    if isinstance(x, int):
        return (-1 if x < 0 else 1), abs(x), 0
    if x != x or x in (float('inf'), float('-inf')):
        raise ValueError(x)
    t = decimal.Decimal(repr(x)).as_tuple()
    c = int(''.join(map(str, t.digits)))
    return (-1 if t.sign else 1), c, t.exponent


def exact(x):
    """The shortest decimal representation of x as an exact Fraction."""
    s, c, e = parts(x)
    return Fraction(s * c) * Fraction(10) ** e


def to_float(fr):
    """Correctly rounded double of an exact rational; None on overflow."""
    try:
        f = fr.numerator / fr.denominator
    except OverflowError:
        return None
    return f + 0.0          # -0.0 never arises: numerators are exact ints


def round_to(x, digits, mode):
    """(result double, discarded) - ``discarded`` tells whether non-zero
    digits were dropped (the case exercised the rounding direction) and
    ``tie`` cases are those where exactly half of the quantum is dropped."""
    s, c, e = parts(x)
    d = int(digits)
    shift = e + d                     # exponent of c measured in quanta
    if shift >= 0:
        q, r, div = c * 10 ** shift, 0, 1
    else:
        div = 10 ** (-shift)
        q, r = divmod(c, div)
    if r:
        if mode == HALF_AWAY:
            up = 2 * r >= div
        elif mode == AWAY:
            up = True
        elif mode == TOWARD:
            up = False
        elif mode == FLOOR_:
            up = s < 0
        else:
            raise AssertionError(mode)
        if up:
            q += 1
    if d >= 0:
        val = to_float(Fraction(s * q, 10 ** d))
    else:
        val = to_float(Fraction(s * q * 10 ** (-d)))
    info = {'discarded': bool(r), 'tie': bool(r) and 2 * r == div,
            'intdigits': len(str(c)) + e if c else 0}
    if val is None:
        return DOMAIN, info           # the rounded value exceeds the doubles
    return val, info


def int_(x):
    return round_to(x, 0, FLOOR_)


def even(x):
    """Next even integer away from zero."""
    fr = exact(x)
    a = abs(fr)
    half = a / 2
    k = -((-half.numerator) // half.denominator)      # ceil
    val = to_float(Fraction((-1 if fr < 0 else 1) * 2 * k))
    info = {'discarded': Fraction(2 * k) != a, 'tie': False}
    return (DOMAIN if val is None else val), info


def _multiple(x, sig, up):
    n, s = exact(x), exact(sig)
    info = {'discarded': False, 'tie': False}
    if s == 0:
        # "the multiple of the significance" of 0 is 0; Excel answers 0 for
        # CEILING and #DIV/0! for FLOOR - the property names neither
        return Lenient((0.0,)), info
    if n == 0:
        return 0.0, info
    if n > 0 and s < 0:
        return DOMAIN, info
    ratio = n / s
    if up:
        k = -((-ratio.numerator) // ratio.denominator)
    else:
        k = ratio.numerator // ratio.denominator
    info['discarded'] = Fraction(k) != ratio
    val = to_float(k * s)
    return (DOMAIN if val is None else val), info


def ceiling(x, sig):
    """significance * ceil(number / significance): up for positive numbers,
    toward zero for negative number / positive significance, away from zero
    for both negative; positive number with negative significance is outside
    the domain."""
    return _multiple(x, sig, True)


def floor(x, sig):
    return _multiple(x, sig, False)


def compute(fn, args):
    if fn in MODE_OF:
        digits = args[1] if len(args) > 1 else 0
        return round_to(args[0], digits, MODE_OF[fn])
    if fn == 'INT':
        return int_(args[0])
    if fn == 'EVEN':
        return even(args[0])
    if fn == 'CEILING':
        return ceiling(args[0], args[1])
    if fn == 'FLOOR':
        return floor(args[0], args[1])
    raise KeyError(fn)


def selftest():
    def v(fn, *a):
        return compute(fn, a)[0]
    # Microsoft's documentation examples and classic binary-tie cases
    assert v('ROUND', 2.15, 1) == 2.2
    assert v('ROUND', 2.149, 1) == 2.1
    assert v('ROUND', -1.475, 2) == -1.48
    assert v('ROUND', 21.5, -1) == 20.0
    assert v('ROUND', 626.3, -3) == 1000.0
    assert v('ROUND', 1.98, -1) == 0.0
    assert v('ROUND', -50.55, -2) == -100.0
    assert v('ROUND', 2.675, 2) == 2.68        # the double is 2.67499999...
    assert v('ROUND', 1.005, 2) == 1.01
    assert v('ROUND', -2.5, 0) == -3.0
    assert v('ROUND', 0.5, 0) == 1.0
    assert v('ROUND', 2.67499999999999, 2) == 2.67
    assert v('ROUND', 2.67500000000001, 2) == 2.68
    assert v('ROUNDUP', 3.2, 0) == 4.0
    assert v('ROUNDUP', 76.9, 0) == 77.0
    assert v('ROUNDUP', 3.14159, 3) == 3.142
    assert v('ROUNDUP', -3.14159, 1) == -3.2
    assert v('ROUNDUP', 31415.92654, -2) == 31500.0
    assert v('ROUNDUP', 3.0, 0) == 3.0
    assert v('ROUNDDOWN', 3.2, 0) == 3.0
    assert v('ROUNDDOWN', 76.9, 0) == 76.0
    assert v('ROUNDDOWN', 3.14159, 3) == 3.141
    assert v('ROUNDDOWN', -3.14159, 1) == -3.1
    assert v('ROUNDDOWN', 31415.92654, -2) == 31400.0
    assert v('TRUNC', 8.9) == 8.0
    assert v('TRUNC', -8.9) == -8.0
    assert v('TRUNC', 0.45) == 0.0
    assert v('TRUNC', 1.13, 2) == 1.13         # 1.13*100 = 112.99999999999999
    assert v('TRUNC', -1234.5, -2) == -1200.0
    assert v('INT', 8.9) == 8.0
    assert v('INT', -8.9) == -9.0
    assert v('INT', -0.5) == -1.0
    assert v('INT', 19.5) == 19.0
    assert v('INT', -3.0) == -3.0
    assert v('EVEN', 1.5) == 2.0
    assert v('EVEN', 3.0) == 4.0
    assert v('EVEN', 2.0) == 2.0
    assert v('EVEN', -1.0) == -2.0
    assert v('EVEN', 0.0) == 0.0
    assert v('EVEN', -2.000001) == -4.0
    assert v('EVEN', 1e-7) == 2.0
    assert v('CEILING', 2.5, 1.0) == 3.0
    assert v('CEILING', -2.5, -2.0) == -4.0
    assert v('CEILING', -2.5, 2.0) == -2.0
    assert v('CEILING', 1.5, 0.1) == 1.5
    assert v('CEILING', 0.234, 0.01) == 0.24
    assert v('CEILING', 0.0, -2.0) == 0.0
    assert v('CEILING', 2.0, -2.0) is DOMAIN
    assert v('CEILING', 0.7, 0.1) == 0.7       # 0.7/0.1 = 6.999999999999999
    assert isinstance(v('CEILING', 2.0, 0.0), Lenient)
    assert v('FLOOR', 3.7, 2.0) == 2.0
    assert v('FLOOR', -2.5, -2.0) == -2.0
    assert v('FLOOR', -2.5, 2.0) == -4.0
    assert v('FLOOR', 1.58, 0.1) == 1.5
    assert v('FLOOR', 0.234, 0.01) == 0.23
    assert v('FLOOR', 0.7, 0.1) == 0.7
    assert v('FLOOR', 0.6, 0.1) == 0.6         # 6 * 0.1 = 0.6000000000000001
    assert v('FLOOR', 2.5, -2.0) is DOMAIN
    # extremes of the double range, negative digit counts beyond the number
    assert v('ROUND', 1e300, 2) == 1e300
    assert v('ROUND', 1.5e-300, 5) == 0.0
    assert v('ROUNDUP', 1.5e-300, 5) == 1e-05
    assert v('ROUNDUP', -1.5e-300, 0) == -1.0
    assert v('ROUND', 123456789012345.0, 10) == 123456789012345.0
    assert v('ROUND', 499.0, -3) == 0.0
    assert v('ROUND', 500.0, -3) == 1000.0
    assert v('ROUNDUP', 1.0, -10) == 1e10
    assert v('ROUNDUP', 1.7976931348623157e308, -308) is DOMAIN
    # info flags
    assert compute('ROUND', (2.5, 0))[1] == {'discarded': True, 'tie': True,
                                             'intdigits': 1}
    assert compute('ROUND', (2.5, 1))[1] == {'discarded': False,
                                             'tie': False, 'intdigits': 1}
    assert compute('ROUND', (1e30, 0))[1]['intdigits'] == 31
    assert compute('ROUND', (0.00123, 0))[1]['intdigits'] == -2
    assert compute('ROUND', (2.675, 2))[1]['tie']
    # integer carriers
    assert v('ROUND', 1250, -2) == 1300.0
    assert v('ROUNDDOWN', -1250, -2) == -1200.0
    # exhaustive cross-check of the integer algorithm against decimal's
    # quantize on a small lattice (decimal is stdlib, not the library)
    modes = {HALF_AWAY: decimal.ROUND_HALF_UP, AWAY: decimal.ROUND_UP,
             TOWARD: decimal.ROUND_DOWN, FLOOR_: decimal.ROUND_FLOOR}
    with decimal.localcontext() as dc:
        dc.prec = 60
        for m in range(1, 200, 7):
            for e in range(-4, 4):
                for sgn in (1, -1):
                    x = float('%de%d' % (sgn * m, e))
                    for d in range(-4, 5):
                        for mode, dm in modes.items():
                            want = float(decimal.Decimal(repr(x)).quantize(
                                decimal.Decimal(1).scaleb(-d), rounding=dm))
                            got = round_to(x, d, mode)[0]
                            assert got == want, (x, d, mode, got, want)
