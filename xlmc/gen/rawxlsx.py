"""Minimal raw SpreadsheetML writer (zipfile + XML strings) so that every
cell storage form can be emitted exactly (C11).

A cell spec is a dict:
  {'form': 'n', 'v': 1.5}                       number
  {'form': 's', 'v': 'text'}                    shared string
  {'form': 'str', 'v': 'text'}                  t="str" constant
  {'form': 'inlineStr', 'v': 'text'}
  {'form': 'b', 'v': True}
  {'form': 'date', 'v': 43831}                  number with a date style
  {'form': 'e', 'v': '#N/A'}                    constant error
  {'form': 'f', 'f': 'B1+1'}                    formula, no cached value
  {'form': 'f', 'f': 'B1+1', 'ct': 'n'|'str'|'b'|'e', 'cv': ...}   cached
  {'form': 'shared-master', 'f': 'B1+1', 'ref': 'A1:A3', 'si': 0, 'ct','cv'}
  {'form': 'shared-member', 'si': 0, 'ct', 'cv'}
"""
import io
import re
import zipfile
from xml.sax.saxutils import escape

CT = '''<?xml version="1.0" encoding="UTF-8" standalone="yes"?>
<Types xmlns="http://schemas.openxmlformats.org/package/2006/content-types">
<Default Extension="rels" ContentType="application/vnd.openxmlformats-package.relationships+xml"/>
<Default Extension="xml" ContentType="application/xml"/>
<Override PartName="/xl/workbook.xml" ContentType="application/vnd.openxmlformats-officedocument.spreadsheetml.sheet.main+xml"/>
%s
<Override PartName="/xl/styles.xml" ContentType="application/vnd.openxmlformats-officedocument.spreadsheetml.styles+xml"/>
<Override PartName="/xl/sharedStrings.xml" ContentType="application/vnd.openxmlformats-officedocument.spreadsheetml.sharedStrings+xml"/>
</Types>'''

RELS = '''<?xml version="1.0" encoding="UTF-8" standalone="yes"?>
<Relationships xmlns="http://schemas.openxmlformats.org/package/2006/relationships">
<Relationship Id="rId1" Type="http://schemas.openxmlformats.org/officeDocument/2006/relationships/officeDocument" Target="xl/workbook.xml"/>
</Relationships>'''

STYLES = '''<?xml version="1.0" encoding="UTF-8" standalone="yes"?>
<styleSheet xmlns="http://schemas.openxmlformats.org/spreadsheetml/2006/main">
<fonts count="1"><font><sz val="11"/><name val="Calibri"/></font></fonts>
<fills count="2"><fill><patternFill patternType="none"/></fill><fill><patternFill patternType="gray125"/></fill></fills>
<borders count="1"><border><left/><right/><top/><bottom/><diagonal/></border></borders>
<cellStyleXfs count="1"><xf numFmtId="0" fontId="0" fillId="0" borderId="0"/></cellStyleXfs>
<cellXfs count="2"><xf numFmtId="0" fontId="0" fillId="0" borderId="0" xfId="0"/><xf numFmtId="14" fontId="0" fillId="0" borderId="0" xfId="0" applyNumberFormat="1"/></cellXfs>
<cellStyles count="1"><cellStyle name="Normal" xfId="0" builtinId="0"/></cellStyles>
</styleSheet>'''


def _col_row(coord):
    m = re.match(r'^([A-Z]+)(\d+)$', coord)
    return m.group(1), int(m.group(2))


def _col_num(col):
    n = 0
    for ch in col:
        n = n * 26 + ord(ch) - 64
    return n


def _v(ct, cv):
    if ct is None:
        return '', ''
    if ct == 'n':
        return '', '<v>%s</v>' % repr(cv)
    if ct == 'str':
        return ' t="str"', '<v>%s</v>' % escape(cv)
    if ct == 'b':
        return ' t="b"', '<v>%d</v>' % int(cv)
    if ct == 'e':
        return ' t="e"', '<v>%s</v>' % escape(cv)
    if ct == 'inlineStr':
        # CT_Cell allows <f> together with <is>: a cached text kept in line
        return (' t="inlineStr"',
                '<is><t xml:space="preserve">%s</t></is>' % escape(cv))
    raise ValueError(ct)


def cell_xml(coord, spec, sst):
    form = spec['form']
    if form == 'n':
        return '<c r="%s"><v>%s</v></c>' % (coord, repr(spec['v']))
    if form == 's':
        if spec['v'] not in sst:
            sst[spec['v']] = len(sst)
        return '<c r="%s" t="s"><v>%d</v></c>' % (coord, sst[spec['v']])
    if form == 'str':
        return '<c r="%s" t="str"><v>%s</v></c>' % (coord, escape(spec['v']))
    if form == 'inlineStr':
        return ('<c r="%s" t="inlineStr"><is><t xml:space="preserve">%s</t>'
                '</is></c>' % (coord, escape(spec['v'])))
    if form == 'b':
        return '<c r="%s" t="b"><v>%d</v></c>' % (coord, int(spec['v']))
    if form == 'date':
        return '<c r="%s" s="1"><v>%s</v></c>' % (coord, repr(spec['v']))
    if form == 'e':
        return '<c r="%s" t="e"><v>%s</v></c>' % (coord, escape(spec['v']))
    t, v = _v(spec.get('ct'), spec.get('cv'))
    if form == 'f':
        style = ' s="%d"' % spec['style'] if spec.get('style') else ''
        return '<c r="%s"%s%s><f>%s</f>%s</c>' % (coord, style, t,
                                                   escape(spec['f']), v)
    if form == 'shared-master':
        return ('<c r="%s"%s><f t="shared" ref="%s" si="%d">%s</f>%s</c>'
                % (coord, t, spec['ref'], spec['si'], escape(spec['f']), v))
    if form == 'shared-member':
        return ('<c r="%s"%s><f t="shared" si="%d"/>%s</c>'
                % (coord, t, spec['si'], v))
    raise ValueError(form)


def sheet_xml(cells, sst):
    rows = {}
    for coord, spec in cells.items():
        col, row = _col_row(coord)
        rows.setdefault(row, []).append((_col_num(col), coord, spec))
    parts = ['<?xml version="1.0" encoding="UTF-8" standalone="yes"?>\n'
             '<worksheet xmlns="http://schemas.openxmlformats.org/'
             'spreadsheetml/2006/main"><sheetData>']
    for row in sorted(rows):
        parts.append('<row r="%d">' % row)
        for _, coord, spec in sorted(rows[row], key=lambda x: x[0]):
            parts.append(cell_xml(coord, spec, sst))
        parts.append('</row>')
    parts.append('</sheetData></worksheet>')
    return ''.join(parts)


def build(sheets, names=None, date1904=False, hidden=(), norefs=()):
    """sheets: list of (title, {coord: cellspec}); names: {name: target text};
    date1904: the workbook uses the 1904 date system; hidden: titles of sheets
    with state="hidden".  Returns the .xlsx file content as bytes."""
    sst = {}
    sheet_parts = [sheet_xml(cells, sst) for _, cells in sheets]
    # norefs: titles of sheets written without the (optional) r attributes of
    # rows and cells - their cells must fill the rows from A1 on without gaps
    # (norefs may be a dict title -> 'all' | 'constants': with 'constants'
    # the formula cells and the rows keep their r, a writer that states the
    # position only where it has a reason to)
    for i, (title, cells) in enumerate(sheets):
        if title in norefs:
            mode = norefs[title] if isinstance(norefs, dict) else 'all'
            if mode == 'all':
                sheet_parts[i] = re.sub(r'<(c|row) r="[A-Z]*[0-9]+"',
                                        r'<\1', sheet_parts[i])
            else:
                sheet_parts[i] = re.sub(
                    r'<c r="[A-Z]+[0-9]+"((?:(?!</c>).)*</c>)',
                    lambda m: m.group(0) if '<f' in m.group(1)
                    else '<c' + m.group(1), sheet_parts[i], flags=re.S)
    wb = ['<?xml version="1.0" encoding="UTF-8" standalone="yes"?>\n'
          '<workbook xmlns="http://schemas.openxmlformats.org/spreadsheetml/'
          '2006/main" xmlns:r="http://schemas.openxmlformats.org/'
          'officeDocument/2006/relationships">%s<sheets>'
          % ('<workbookPr date1904="1"/>' if date1904 else '')]
    for i, (title, _) in enumerate(sheets, 1):
        wb.append('<sheet name="%s" sheetId="%d"%s r:id="rId%d"/>'
                  % (escape(title, {'"': '&quot;'}), i,
                     ' state="%s"' % (hidden[title] if isinstance(
                         hidden, dict) else 'hidden')
                     if title in hidden else '', i))
    wb.append('</sheets>')
    if names:
        wb.append('<definedNames>')
        for name, target in names.items():
            if isinstance(name, tuple):
                # (name, index of the sheet it is defined for)
                wb.append('<definedName name="%s" localSheetId="%d">%s'
                          '</definedName>' % (escape(name[0]), name[1],
                                              escape(target)))
                continue
            wb.append('<definedName name="%s">%s</definedName>'
                      % (escape(name), escape(target)))
        wb.append('</definedNames>')
    wb.append('</workbook>')
    rels = ['<?xml version="1.0" encoding="UTF-8" standalone="yes"?>\n'
            '<Relationships xmlns="http://schemas.openxmlformats.org/'
            'package/2006/relationships">']
    n = len(sheets)
    for i in range(1, n + 1):
        rels.append('<Relationship Id="rId%d" Type="http://schemas.'
                    'openxmlformats.org/officeDocument/2006/relationships/'
                    'worksheet" Target="worksheets/sheet%d.xml"/>' % (i, i))
    rels.append('<Relationship Id="rId%d" Type="http://schemas.openxmlformats'
                '.org/officeDocument/2006/relationships/styles" '
                'Target="styles.xml"/>' % (n + 1))
    rels.append('<Relationship Id="rId%d" Type="http://schemas.openxmlformats'
                '.org/officeDocument/2006/relationships/sharedStrings" '
                'Target="sharedStrings.xml"/>' % (n + 2))
    rels.append('</Relationships>')
    sst_items = sorted(sst.items(), key=lambda kv: kv[1])
    sst_xml = ('<?xml version="1.0" encoding="UTF-8" standalone="yes"?>\n'
               '<sst xmlns="http://schemas.openxmlformats.org/spreadsheetml/'
               '2006/main" count="%d" uniqueCount="%d">%s</sst>'
               % (len(sst_items), len(sst_items), ''.join(
                   '<si><t xml:space="preserve">%s</t></si>' % escape(s)
                   for s, _ in sst_items)))
    overrides = ''.join(
        '<Override PartName="/xl/worksheets/sheet%d.xml" ContentType="'
        'application/vnd.openxmlformats-officedocument.spreadsheetml.'
        'worksheet+xml"/>' % i for i in range(1, n + 1))
    buf = io.BytesIO()
    with zipfile.ZipFile(buf, 'w', zipfile.ZIP_DEFLATED) as z:
        z.writestr('[Content_Types].xml', CT % overrides)
        z.writestr('_rels/.rels', RELS)
        z.writestr('xl/workbook.xml', ''.join(wb))
        z.writestr('xl/_rels/workbook.xml.rels', ''.join(rels))
        z.writestr('xl/styles.xml', STYLES)
        z.writestr('xl/sharedStrings.xml', sst_xml)
        for i, part in enumerate(sheet_parts, 1):
            z.writestr('xl/worksheets/sheet%d.xml' % i, part)
    return buf.getvalue()


# ---- generator-side translation of shared formulas ------------------------
_REF = re.compile(r"(\$?)([A-Z]{1,3})(\$?)(\d+)")


def shift_formula(text, drow, dcol):
    """Shift the relative parts of every A1 reference outside string
    literals and outside quoted sheet names (the generator's own shifter)."""
    out = []
    i = 0
    n = len(text)
    while i < n:
        ch = text[i]
        if ch == '"':
            j = i + 1
            while j < n:
                if text[j] == '"':
                    if j + 1 < n and text[j + 1] == '"':
                        j += 2
                        continue
                    break
                j += 1
            out.append(text[i:j + 1])
            i = j + 1
            continue
        if ch == "'":
            j = i + 1
            while j < n:
                if text[j] == "'":
                    if j + 1 < n and text[j + 1] == "'":
                        j += 2
                        continue
                    break
                j += 1
            out.append(text[i:j + 1])
            i = j + 1
            continue
        m = _REF.match(text, i)
        # a reference must not be preceded by a letter/digit (e.g. SUM1) and
        # must not be followed by a letter, digit, '(' or '!' (sheet name)
        if m and (i == 0 or not (text[i - 1].isalnum() or text[i - 1] == '_')):
            end = m.end()
            nxt = text[end] if end < n else ''
            if not (nxt and (nxt.isalnum() or nxt in '(!_')):
                dc, col, dr, row = m.groups()
                if not dc:
                    col = num_col(_col_num(col) + dcol)
                if not dr:
                    row = str(int(row) + drow)
                out.append('%s%s%s%s' % (dc, col, dr, row))
                i = end
                continue
        # skip over an identifier as a whole (function / sheet names)
        if ch.isalpha() or ch == '_':
            j = i
            while j < n and (text[j].isalnum() or text[j] in '_.'):
                j += 1
            out.append(text[i:j])
            i = j
            continue
        out.append(ch)
        i += 1
    return ''.join(out)


def num_col(n):
    s = ''
    while n > 0:
        n, r = divmod(n - 1, 26)
        s = chr(65 + r) + s
    return s


def selftest():
    assert shift_formula('A1+1', 1, 0) == 'A2+1'
    assert shift_formula('$A$1+A$1+$A1', 2, 1) == '$A$1+B$1+$A3'
    assert shift_formula('SUM(A1:B2)', 1, 1) == 'SUM(B2:C3)'
    assert shift_formula('"A1"&A1', 1, 0) == '"A1"&A2'
    assert shift_formula("'My Sheet'!A1*2", 0, 1) == "'My Sheet'!B1*2"
    assert shift_formula('Sheet2!A1*2', 1, 0) == 'Sheet2!A2*2'
    assert shift_formula('LOG10(A1)', 1, 0) == 'LOG10(A2)'
    data = build([('Sheet1', {'A1': {'form': 'n', 'v': 1}})])
    assert data[:2] == b'PK'
