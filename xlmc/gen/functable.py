"""Hand-written table of the registered worksheet functions: parameter kinds and
one valid baseline call per function.

Written from Excel's function reference (support.microsoft.com "<NAME>
function" pages) and the Python signatures - NOT derived from the
annotations: the whole point of C07/C08 is to find functions whose annotation
does not coerce the way the documented parameter kind requires.

This module is plain data and never imports xlcalculator.

Parameter kinds
  n   number            t  text              b  logical (eagerly evaluated)
  d   date (a serial number, or anything Excel reads as a date)
  a   any scalar (lookup value ...)          c  criterion (value or "<op>text")
  x   logical / value that the function evaluates lazily (IF, NOT)
  g   digit string of an Analysis-ToolPak base conversion (a number or text
      made of base digits; booleans are rejected with #VALUE! by Excel)
  A   array / range
  *n *t *x *a *A   variadic tail of that kind (always the last parameter)

Baseline values are Python natives: int/float, str, bool, nested lists (rows)
for arrays; dates are given as 1900-system serials.  Every optional Excel
parameter that the library implements is present in the baseline so that every
position can be exercised; ``required`` is the number of leading mandatory
arguments.

Flags
  volatile    result differs between calls (no baseline needed: RAND,
              RANDBETWEEN, NOW, TODAY)
  inspector   error-inspecting IS*/COUNT family: an error argument does not
              propagate by design (C07 leaves them out of group b/c)
  aggregator  folds an argument list / ranges (C07 group c)
  lazy        {position: reason}: positions that Excel itself evaluates only
              when selected (IF branches, CHOOSE values) - an error there
              propagates only if the position is the selected one
  selected    positions of ``lazy`` that the baseline call selects
  atp         Analysis-ToolPak function for which Excel rejects booleans
              (#VALUE!) although the parameter is numeric
  needs       optional third-party feature the implementation relies on
"""
import collections

Row = collections.namedtuple(
    'Row', 'name params base required flags')

SCALAR_KINDS = ('n', 't', 'b', 'd', 'a', 'c', 'x', 'g')
VOLATILE = ('RAND', 'RANDBETWEEN', 'NOW', 'TODAY')
INSPECTORS = ('ISERROR', 'ISERR', 'ISNA', 'ISNUMBER', 'ISTEXT', 'ISBLANK',
              'COUNT', 'COUNTA', 'COUNTIF', 'COUNTIFS', 'NA')

TABLE = {}


def _f(name, params, base, required=None, **flags):
    plist = []
    for p in params.split():
        pname, kind = p.split(':')
        plist.append((pname, kind))
    assert name not in TABLE, name
    for i, (pname, kind) in enumerate(plist):
        assert kind.lstrip('*') in SCALAR_KINDS + ('A',), (name, kind)
        if kind.startswith('*'):
            assert i == len(plist) - 1, (name, 'variadic must be last')
    nfixed = len([p for p in plist if not p[1].startswith('*')])
    if plist and plist[-1][1].startswith('*'):
        assert len(base) >= nfixed, name
    else:
        assert len(base) == nfixed, (name, base)
    if required is None:
        required = nfixed
    if name in VOLATILE:
        flags['volatile'] = True
    if name in INSPECTORS:
        flags['inspector'] = True
    TABLE[name] = Row(name, tuple(plist), tuple(base), required, flags)


# 1900-system serials used as baseline dates
D_2020_01_01 = 43831
D_2020_02_15 = 43876
D_2021_01_01 = 44197

# ---- operators (registered under OP_* names; ^ is POWER, & is CONCAT) ------
_f('OP_ADD', 'left:a right:a', (7, 2))
_f('OP_SUB', 'left:a right:a', (7, 2))
_f('OP_MUL', 'left:a right:a', (7, 2))
_f('OP_DIV', 'left:a right:a', (7, 2))
_f('OP_EQ', 'left:a right:a', (7, 2))
_f('OP_NE', 'left:a right:a', (7, 2))
_f('OP_GT', 'left:a right:a', (7, 2))
_f('OP_LT', 'left:a right:a', (7, 2))
_f('OP_GE', 'left:a right:a', (7, 2))
_f('OP_LE', 'left:a right:a', (7, 2))
_f('OP_NEG', 'right:n', (7,))
_f('OP_PERCENT', 'left:n', (7,))

# ---- math and trigonometry -------------------------------------------------
_f('ABS', 'number:n', (-3,))
_f('ACOS', 'number:n', (0.5,))
_f('ACOSH', 'number:n', (2,))
_f('ASIN', 'number:n', (0.5,))
_f('ASINH', 'number:n', (1,))
_f('ATAN', 'number:n', (1,))
_f('ATAN2', 'x_num:n y_num:n', (1, 2))
_f('CEILING', 'number:n significance:n', (2.5, 1))
_f('COS', 'number:n', (1,))
_f('COSH', 'number:n', (1,))
_f('DEGREES', 'angle:n', (1,))
_f('EVEN', 'number:n', (3,))
_f('EXP', 'number:n', (1,))
_f('FACT', 'number:n', (5,))
_f('FACTDOUBLE', 'number:n', (6,))
_f('FLOOR', 'number:n significance:n', (2.5, 1))
_f('INT', 'number:n', (2.5,))
_f('LN', 'number:n', (2,))
_f('LOG', 'number:n base:n', (8, 2), required=1)
_f('LOG10', 'number:n', (100,))
_f('MOD', 'number:n divisor:n', (7, 3))
_f('PI', '', ())
_f('POWER', 'number:n power:n', (2, 3))
_f('RADIANS', 'angle:n', (90,))
_f('RAND', '', ())
_f('RANDBETWEEN', 'bottom:n top:n', (1, 6))
_f('ROUND', 'number:n num_digits:n', (2.567, 1))
_f('ROUNDDOWN', 'number:n num_digits:n', (2.567, 1))
_f('ROUNDUP', 'number:n num_digits:n', (2.567, 1))
_f('SIGN', 'number:n', (-2,))
_f('SIN', 'number:n', (1,))
_f('SQRT', 'number:n', (4,))
_f('SQRTPI', 'number:n', (2,))
_f('SUM', 'numbers:*n', (1, 2, 3), aggregator=True)
_f('SUMIF', 'range:A criteria:c sum_range:A',
   ([[1], [2], [3]], '>1', [[10], [20], [30]]), required=2,
   needs='pandas.DataFrame.applymap')
_f('SUMIFS', 'sum_range:A criteria_range:A criteria:c more:*a',
   ([[10], [20], [30]], [[1], [2], [3]], '>1'),
   needs='pandas.DataFrame.applymap')
_f('SUMPRODUCT', 'arrays:*A', ([[1], [2]], [[3], [4]]), aggregator=True)
_f('TAN', 'number:n', (1,))
_f('TRUNC', 'number:n num_digits:n', (2.567, 1), required=1)

# ---- text ------------------------------------------------------------------
_f('CONCAT', 'texts:*t', ('a', 'b'), aggregator=True)
_f('CONCATENATE', 'texts:*t', ('a', 'b'), aggregator=True)
_f('EXACT', 'text1:t text2:t', ('ab', 'ab'))
_f('FIND', 'find_text:t within_text:t start_num:n', ('b', 'abcb', 1),
   required=2)
_f('LEFT', 'text:t num_chars:n', ('abcd', 2), required=1)
_f('LEN', 'text:t', ('abc',))
_f('LOWER', 'text:t', ('AbC',))
_f('MID', 'text:t start_num:n num_chars:n', ('abcdef', 2, 3))
_f('REPLACE', 'old_text:t start_num:n num_chars:n new_text:t',
   ('abcdef', 2, 3, 'X'))
_f('RIGHT', 'text:t num_chars:n', ('abcd', 2), required=1)
_f('TRIM', 'text:t', (' a b ',))
_f('UPPER', 'text:t', ('AbC',))

# ---- logical ---------------------------------------------------------------
_f('AND', 'logicals:*x', (True, True), aggregator=True)
_f('OR', 'logicals:*x', (False, False), aggregator=True)
_f('IF', 'logical_test:x value_if_true:x value_if_false:x', (True, 1, 2),
   required=2,
   lazy={1: 'value_if_true', 2: 'value_if_false'}, selected=(1,))
_f('NOT', 'logical:x', (True,))
_f('TRUE', '', ())
_f('FALSE', '', ())

# ---- statistical -----------------------------------------------------------
_f('AVERAGE', 'numbers:*n', (1, 2, 3), aggregator=True)
_f('COUNT', 'values:*a', (1, 2, 'x'))
_f('COUNTA', 'values:*a', (1, 2, 'x'))
_f('COUNTIF', 'range:A criteria:c', ([[1], [2], [3]], '>1'))
_f('COUNTIFS', 'range1:A criteria1:c more:*a', ([[1], [2], [3]], '>1'))
_f('MAX', 'numbers:*n', (1, 2, 3), aggregator=True)
_f('MIN', 'numbers:*n', (1, 2, 3), aggregator=True)

# ---- lookup ----------------------------------------------------------------
_f('CHOOSE', 'index_num:n values:*a', (2, 'a', 'b', 'c'),
   lazy={1: 'value1', 2: 'value2', 3: 'value3'}, selected=(2,))
_f('VLOOKUP', 'lookup_value:a table_array:A col_index_num:n range_lookup:b',
   (2, [[1, 'a'], [2, 'b'], [3, 'c']], 2, False), required=3)
_f('MATCH', 'lookup_value:a lookup_array:A match_type:n',
   (2, [[1], [2], [3]], 0), required=2)

# ---- financial -------------------------------------------------------------
_f('IRR', 'values:A guess:n', ([[-100], [60], [60]], 0.1), required=1)
_f('NPV', 'rate:n values:*n', (0.1, 100, 200), aggregator=True)
_f('PMT', 'rate:n nper:n pv:n fv:n type:n', (0.05, 10, 1000, 0, 0),
   required=3)
_f('PV', 'rate:n nper:n pmt:n fv:n type:n', (0.05, 10, -100, 0, 0),
   required=3)
_f('SLN', 'cost:n salvage:n life:n', (1000, 100, 9))
_f('VDB', 'cost:n salvage:n life:n start_period:n end_period:n factor:n '
   'no_switch:b', (2400, 300, 10, 0, 1, 2, False), required=5)
_f('XIRR', 'values:A dates:A guess:n',
   ([[-100], [110]], [[D_2020_01_01], [D_2021_01_01]], 0.1), required=2)
_f('XNPV', 'rate:n values:A dates:A',
   (0.1, [[-100], [110]], [[D_2020_01_01], [D_2021_01_01]]))

# ---- date and time ---------------------------------------------------------
_f('DATE', 'year:n month:n day:n', (2020, 2, 15))
_f('DATEDIF', 'start_date:d end_date:d unit:t',
   (D_2020_01_01, D_2021_01_01, 'D'))
_f('DAY', 'serial_number:d', (D_2020_02_15,))
_f('DAYS', 'end_date:d start_date:d', (D_2021_01_01, D_2020_01_01))
_f('EDATE', 'start_date:d months:n', (D_2020_02_15, 1))
_f('EOMONTH', 'start_date:d months:n', (D_2020_02_15, 1))
_f('ISOWEEKNUM', 'date:d', (D_2020_02_15,))
_f('MONTH', 'serial_number:d', (D_2020_02_15,))
_f('NOW', '', ())
_f('TODAY', '', ())
_f('WEEKDAY', 'serial_number:d return_type:n', (D_2020_02_15, 1), required=1)
_f('YEAR', 'serial_number:d', (D_2020_02_15,))
_f('YEARFRAC', 'start_date:d end_date:d basis:n',
   (D_2020_01_01, D_2021_01_01, 0), required=2)

# ---- information -----------------------------------------------------------
_f('ISBLANK', 'value:a', (1,))
_f('ISERR', 'value:a', (1,))
_f('ISERROR', 'value:a', (1,))
_f('ISEVEN', 'number:n', (4,))
_f('ISNA', 'value:a', (1,))
_f('ISNUMBER', 'value:a', (1,))
_f('ISODD', 'number:n', (3,))
_f('ISTEXT', 'value:a', (1,))
_f('NA', '', ())

# ---- engineering (Analysis ToolPak base conversions) -----------------------
_f('BIN2DEC', 'number:g', ('101',), atp=True)
_f('BIN2HEX', 'number:g places:n', ('101', 4), required=1, atp=True)
_f('BIN2OCT', 'number:g places:n', ('101', 4), required=1, atp=True)
_f('DEC2BIN', 'number:n places:n', (5, 4), required=1, atp=True)
_f('DEC2HEX', 'number:n places:n', (255, 4), required=1, atp=True)
_f('DEC2OCT', 'number:n places:n', (8, 4), required=1, atp=True)
_f('HEX2BIN', 'number:g places:n', ('F', 6), required=1, atp=True)
_f('HEX2DEC', 'number:g', ('FF',), atp=True)
_f('HEX2OCT', 'number:g places:n', ('F', 4), required=1, atp=True)
_f('OCT2BIN', 'number:g places:n', ('7', 4), required=1, atp=True)
_f('OCT2DEC', 'number:g', ('17',), atp=True)
_f('OCT2HEX', 'number:g places:n', ('17', 4), required=1, atp=True)


OPERATOR_NAMES = ('OP_ADD', 'OP_SUB', 'OP_MUL', 'OP_DIV', 'POWER', 'CONCAT',
                  'OP_EQ', 'OP_NE', 'OP_GT', 'OP_LT', 'OP_GE', 'OP_LE')
OPERATOR_SYMBOL = {
    'OP_ADD': '+', 'OP_SUB': '-', 'OP_MUL': '*', 'OP_DIV': '/', 'POWER': '^',
    'CONCAT': '&', 'OP_EQ': '=', 'OP_NE': '<>', 'OP_GT': '>', 'OP_LT': '<',
    'OP_GE': '>=', 'OP_LE': '<=', 'OP_NEG': '-', 'OP_PERCENT': '%'}
ARITHMETIC = ('OP_ADD', 'OP_SUB', 'OP_MUL', 'OP_DIV', 'POWER', 'OP_NEG',
              'OP_PERCENT')


class Unclassified(Exception):
    """A registered function has no row in the table (harness error)."""


def unclassified(registered_names):
    """Registered functions that have no row (functions added to the library
    after the table was written)."""
    return sorted(n for n in registered_names
                  if n not in TABLE and n not in VOLATILE)


def classify(registered_names, strict=False):
    """The sorted list of names that have rows and are registered.  A
    registered function without a row cannot be judged (its parameter kinds
    are unknown): it is reported on stderr and left out - adding a function
    to the library is not a violation of any property.  ``strict`` (used by
    the self test on the unchanged tree) raises instead."""
    missing = unclassified(registered_names)
    if missing and not strict:
        import sys
        print('NOTE: registered functions without a row in '
              'xlmc/gen/functable.py are not judged: %s' % ', '.join(missing),
              file=sys.stderr)
    if missing and strict:
        raise Unclassified(
            'registered functions without a row in xlmc/gen/functable.py: %s '
            '(add parameter kinds and a valid baseline call)'
            % ', '.join(missing))
    return sorted(n for n in registered_names if n in TABLE)


def scalar_positions(row):
    """Indexes into ``row.base`` that hold a scalar, non-variadic argument."""
    out = []
    for i, (pname, kind) in enumerate(row.params):
        if kind in SCALAR_KINDS:
            out.append(i)
    return out


def kind_at(row, i):
    """Kind of the i-th baseline argument (variadic tail included)."""
    if i < len(row.params) and not row.params[i][1].startswith('*'):
        return row.params[i][1]
    last = row.params[-1][1]
    assert last.startswith('*'), (row.name, i)
    return last[1:]


def pname_at(row, i):
    if i < len(row.params) and not row.params[i][1].startswith('*'):
        return row.params[i][0]
    return '%s[%d]' % (row.params[-1][0], i - (len(row.params) - 1))


def selftest():
    assert len(TABLE) >= 100
    for name, row in TABLE.items():
        for i in range(len(row.base)):
            k = kind_at(row, i)
            v = row.base[i]
            if k == 'A':
                assert isinstance(v, list) and isinstance(v[0], list), name
                assert len({len(r) for r in v}) == 1, name
            elif k in ('n', 'd'):
                assert isinstance(v, (int, float)) and not isinstance(
                    v, bool), (name, i)
            elif k in ('t', 'g'):
                assert isinstance(v, str), (name, i)
            elif k == 'b':
                assert isinstance(v, bool), (name, i)
        assert 0 <= row.required <= len(row.base) or row.params[-1][
            1].startswith('*'), name
    try:
        classify(['SUM', 'NOW', 'BRANDNEW'], strict=True)
    except Unclassified as exc:
        assert 'BRANDNEW' in str(exc) and 'NOW' not in str(exc)
    else:
        raise AssertionError('classify did not fail closed')
    assert scalar_positions(TABLE['VLOOKUP']) == [0, 2, 3]
    assert scalar_positions(TABLE['SUM']) == []
    assert kind_at(TABLE['NPV'], 2) == 'n' and pname_at(
        TABLE['NPV'], 2) == 'values[1]'
