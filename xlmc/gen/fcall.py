"""Argument *specs* (JSON-able descriptions of one Excel value in one
spelling), their materialisation for direct calls and their rendering into
formula text / cell dictionaries.  Shared by C07 and C08.

spec                      direct call object              formula rendering
['int', 3]                3                               3 / numeric cell
['float', 2.5]            2.5                             2.5 / numeric cell
['npint', 4]              numpy.int64(4)                  (call only)
['npfloat', 0.5]          numpy.float64(0.5)              (call only)
['Number', 2]             func_xltypes.Number(2)          (call only)
['str', 'ab']             'ab'                            "ab" / text cell
['Text', 'ab']            func_xltypes.Text('ab')         (call only)
['bool', True]            True                            TRUE / boolean cell
['Boolean', True]         func_xltypes.Boolean(True)      (call only)
['None']                  None                            reference to an empty cell
['BLANK']                 func_xltypes.BLANK              (call only)
['datetime', [y, m, d]]   datetime.datetime(y, m, d)      DATE(y,m,d) / cell =DATE(y,m,d)
['DateTime', [y, m, d]]   func_xltypes.DateTime(...)      (call only)
['err', '#N/A']           the ExcelError instance         #N/A literal / cell with an error formula
['sci', '2E+0']           (formula only) numeric literal in scientific notation
['array', [[spec, ..]]]   func_xltypes.Array(rows)        a range of cells
"""
import datetime

import numpy

from .. import lib

CALL_ONLY = ('npint', 'npfloat', 'npint32', 'npfloat32', 'Number', 'Text',
             'Boolean', 'BLANK', 'DateTime')

# how a cell comes to hold each error code (quick tier: computed where a
# plain computation yields the code, the literal otherwise)
ERROR_FORMULA = {
    '#DIV/0!': '=1/0',
    '#N/A': '=NA()',
    '#VALUE!': '="a"+1',
    '#NUM!': '=SQRT(-1)',
    '#REF!': '=#REF!',
    '#NAME?': '=#NAME?',
    '#NULL!': '=#NULL!',
}


def make_error(code):
    cls = lib.xlerrors.ERRORS_BY_CODE.get(code)
    if cls is not None:
        return cls()
    return lib.ExcelError(code)


def mat(spec):
    """The Python object a direct call receives for ``spec``."""
    k = spec[0]
    if k == 'int':
        return int(spec[1])
    if k == 'float':
        return float(spec[1])
    if k == 'npint':
        return numpy.int64(spec[1])
    if k == 'npfloat':
        return numpy.float64(spec[1])
    if k == 'npint32':
        return numpy.int32(spec[1])
    if k == 'npfloat32':
        return numpy.float32(spec[1])
    if k == 'Number':
        return lib.Number(spec[1])
    if k == 'str':
        return str(spec[1])
    if k == 'Text':
        return lib.Text(spec[1])
    if k == 'bool':
        return bool(spec[1])
    if k == 'Boolean':
        return lib.Boolean(bool(spec[1]))
    if k == 'None':
        return None
    if k == 'BLANK':
        return lib.BLANK
    if k == 'datetime':
        return datetime.datetime(*spec[1])
    if k == 'DateTime':
        return lib.DateTime(datetime.datetime(*spec[1]))
    if k == 'err':
        return make_error(spec[1])
    if k == 'array':
        return lib.Array([[mat(c) for c in row] for row in spec[1]])
    raise ValueError('spec %r has no direct-call form' % (spec,))


def native(v):
    """Spec of a baseline value of the function table."""
    if isinstance(v, bool):
        return ['bool', v]
    if isinstance(v, int):
        return ['int', v]
    if isinstance(v, float):
        return ['float', v]
    if isinstance(v, str):
        return ['str', v]
    if v is None:
        return ['None']
    if isinstance(v, list):
        return ['array', [[native(c) for c in row] for row in v]]
    raise ValueError(v)


def num_text(x):
    """Decimal literal of a number as a user types it (no exponent for the
    magnitudes used here)."""
    if isinstance(x, bool):
        raise ValueError(x)
    if isinstance(x, int):
        return str(x)
    if x == int(x) and abs(x) < 1e15:
        return str(int(x))
    r = repr(float(x))
    if 'e' in r or 'E' in r:
        m, e = r.lower().split('e')
        return '%sE%s%d' % (m, '+' if int(e) >= 0 else '-', abs(int(e)))
    return r


def quote(s):
    return '"%s"' % s.replace('"', '""')


class SetAfter(dict):
    """Cell content that is written with set_cell_value after compilation."""

    def __init__(self, value):
        dict.__init__(self, set_cell_value_after_compile=value)
        self.value = value


class Sheet:
    """Collects the cells of one case.  Helper cells are allocated downwards
    in column A from row 1, ranges in columns C.. from row 20; formulas under
    test live in column Z."""

    def __init__(self, sheet='Sheet1'):
        self.sheet = sheet
        self.cells = {}
        self._next = 1
        self._next_block = 20

    def _addr(self, ref):
        return '%s!%s' % (self.sheet, ref)

    def put(self, ref, content):
        self.cells[self._addr(ref)] = content

    def fresh(self):
        ref = 'A%d' % self._next
        self._next += 1
        return ref

    def cell_content(self, spec):
        """What to store in a cell so that it holds the value of spec;
        None = leave the cell out (blank)."""
        k = spec[0]
        if k in ('int', 'float'):
            return mat(spec)
        if k == 'bool':
            return bool(spec[1])
        if k == 'str':
            if spec[1] == '':
                # a CONSTANT cell holding the empty text (the dict reader
                # cannot take it: it is written with set_cell_value after
                # the model has been compiled)
                return SetAfter('')
            if spec[1].startswith('='):
                return '=' + quote(spec[1])
            return spec[1]
        if k == 'None':
            return None
        if k == 'datetime':
            return '=DATE(%d,%d,%d)' % tuple(spec[1])
        if k == 'err':
            return ERROR_FORMULA[spec[1]]
        if k == 'errlit':
            return '=' + spec[1]
        raise ValueError('spec %r cannot be stored in a cell' % (spec,))

    def as_cell(self, spec):
        """Store the value in a fresh cell; returns the reference text."""
        ref = self.fresh()
        content = self.cell_content(spec)
        if content is not None:
            self.put(ref, content)
        return ref

    def as_literal(self, spec):
        """Inline text of the value inside a formula."""
        k = spec[0]
        if k in ('int', 'float'):
            return num_text(mat(spec))
        if k == 'sci':
            return spec[1]
        if k == 'bool':
            return 'TRUE' if spec[1] else 'FALSE'
        if k == 'str':
            return quote(spec[1])
        if k == 'None':
            return self.as_cell(spec)       # a blank has no literal
        if k == 'datetime':
            return 'DATE(%d,%d,%d)' % tuple(spec[1])
        if k in ('err', 'errlit'):
            return spec[1]
        if k == 'array':
            return self.as_range(spec)
        raise ValueError('spec %r has no literal' % (spec,))

    def as_range(self, spec):
        rows = spec[1]
        top = self._next_block
        self._next_block += len(rows) + 1
        for r, row in enumerate(rows):
            for c, cs in enumerate(row):
                content = self.cell_content(cs)
                if content is not None:
                    self.put('%s%d' % (chr(ord('C') + c), top + r), content)
        return 'C%d:%s%d' % (top, chr(ord('C') + len(rows[0]) - 1),
                             top + len(rows) - 1)

    def arg(self, spec, how):
        """how: 'lit' | 'cell'.  Arrays are always ranges."""
        if spec[0] == 'array':
            return self.as_range(spec)
        if how == 'cell':
            return self.as_cell(spec)
        return self.as_literal(spec)


def has_formula_form(spec):
    if spec[0] in CALL_ONLY:
        return False
    if spec[0] == 'array':
        return all(has_formula_form(c) for row in spec[1] for c in row)
    return True


def call_formula(name, arg_texts):
    return '=%s(%s)' % (name, ','.join(arg_texts))


def evaluate(sheet, formula, chain=False):
    """Put ``formula`` in Z1 and evaluate.  With ``chain`` the value is read
    through two dependants (Z3 = Z2 = Z1) and the value stored in Z1's cell
    is compared with what the top cell returned; the observation is the
    common one or ``top=..|stored=..`` when they differ."""
    cells = dict(sheet.cells)
    z1 = '%s!Z1' % sheet.sheet
    cells[z1] = formula
    at = z1
    if chain:
        cells['%s!Z2' % sheet.sheet] = '=Z1'
        cells['%s!Z3' % sheet.sheet] = '=Z2'
        at = '%s!Z3' % sheet.sheet
    later = {a: v.value for a, v in cells.items() if isinstance(v, SetAfter)}
    cells = {a: v for a, v in cells.items() if a not in later}
    try:
        with lib.time_limit():
            model = lib.compile_dict(cells)
            for a, v in later.items():
                model.set_cell_value(a, v)
    except lib.CaseTimeout:
        return 'compile-timeout'
    except RecursionError:
        return 'compile-raise:RecursionError'
    except Exception as exc:  # noqa: BLE001
        return 'compile-raise:%s' % type(lib.innermost(exc)).__name__
    top = lib.eval_addr(model, at)
    if not chain or top.startswith(('raise:', 'timeout')):
        return top
    stored = lib.norm(model.cells[z1].value)
    if stored == top:
        return top
    return 'top=%s|stored=%s' % (top, stored)
