"""Abstract syntax trees of the formula grammar and their concrete renderings
(C02).  Grammar facts come from the property text / DESIGN.md A.1.

Tree nodes
  ('num', text)            numeric literal as written: '1', '1.5', '.5', '1E+2'
  ('bool', 'TRUE'|'FALSE')
  ('err', code)
  ('ref', text)            reference as written, e.g. "$A$1", "'My Sheet'!A1:B2"
  ('str', content)         string literal with this exact content
  ('call', name, [args])   name as written (may carry '@' or '_xlfn.')
  ('bin', op, l, r) ('neg', x) ('pct', x) ('paren', x)
"""
import itertools

from .exprs import PREC, NEG_PREC

PCT_PREC = 6

NUMS = ['1', '1.5', '.5', '1E+2', '2.5E-3', '10E+3', '12.5E-1', '0.5E+3']
BOOLS = ['TRUE', 'FALSE']
ERRS = ['#NULL!', '#DIV/0!', '#VALUE!', '#REF!', '#NAME?', '#NUM!', '#N/A']
REFS = ['A1', '$A$1', 'A$1', '$A1', 'AB12', 'Sheet2!A1', 'Sheet2!$A$1',
        "'My Sheet'!A1", "'It''s'!B2", 'A1:B2', '$A$1:$B$2', 'Sheet2!A1:B2',
        "'My Sheet'!A1:B2", 'A:A', '1:1', "'@home'!$B$2",
        # an exclamation mark inside a quoted sheet name
        "'Q1!new'!A1", "'a!b'!$D$4:E5"]
STRS = ['C:\\data\\', 'a\\"b', '\\', '', 'a', 'a b', 'A1', '1', '""'.replace('""', '"'), ',', ')', ': ',
        '#N/A', "'", '{;}', '%', '[x]', '=1+1', 'é',
        # what the tokenizer / parser treat specially elsewhere
        '@', '@home', 'x:OFFSET', 'use A1:INDEX(B:B,3)', ':INDEX', 'TRUE',
        '#NAME?', '1E+3']
STR_ALPHABET = 'aA1E "\'!#%(),:;[]{}+-=@\\'

FULL_LEAVES = ([('num', x) for x in NUMS] + [('bool', x) for x in BOOLS] +
               [('err', x) for x in ERRS] + [('ref', x) for x in REFS] +
               [('str', x) for x in STRS])
REDUCED_LEAVES = [('num', '1'), ('num', '2.5E-3'), ('ref', 'A1'),
                  ('ref', "'My Sheet'!$A$1:B2"), ('str', 'a,")'),
                  ('bool', 'TRUE'), ('err', '#N/A'), ('ref', 'Sheet2!B7'),
                  # a call without arguments is a value like any other
                  ('call', 'NA', [])]
TINY_LEAVES = [('num', '2'), ('ref', 'A1'), ('ref', '$B$2:C3'),
               ('str', '(: '), ('call', 'PI', [])]
BINOPS_REP = ['^', '*', '+', '&', '=']
# defined names handed to the parser in the 'names' family, and the leaves
# used there: a name used as a reference is replaced by its address, a text
# literal spelt like a name stays that text
NAMES = {'rate': 'Sheet1!B2', 'Tax_Rate': "'My Sheet'!A1:A3",
         # names that Python's float() would take for numbers
         'INF': 'Sheet1!C3', 'nan': 'Sheet1!C4'}
NAME_LEAVES = [('str', 'rate'), ('name', 'rate'), ('str', 'Tax_Rate'),
               ('name', 'Tax_Rate'), ('str', 'RATE'), ('ref', 'A1'),
               ('num', '1'), ('str', 'Sheet1!B2'), ('name', 'INF'),
               ('name', 'nan'), ('str', 'INF')]
FUNCS = ['SUM', 'IF', 'sum', '_xlfn.CONCAT', '@SUM', 'Max']


def unquote_sheet(text):
    """(sheet or None, coordinates without $) of a reference as written."""
    if '!' in text:
        sheet, coords = text.rsplit('!', 1)
        if sheet.startswith("'") and sheet.endswith("'"):
            sheet = sheet[1:-1].replace("''", "'")
    else:
        sheet, coords = None, text
    return sheet, coords.replace('$', '')


def fname(name):
    n = name.upper()
    if n.startswith('@'):
        n = n[1:]
    return n.replace('_XLFN.', '')


def canon(tree):
    """Canonical (rendering-independent) form of a generated tree."""
    k = tree[0]
    if k == 'num':
        return ('num', float(tree[1]))
    if k == 'bool':
        return ('bool', tree[1] == 'TRUE')
    if k == 'err':
        return ('err', tree[1])
    if k == 'ref':
        return ('ref',) + unquote_sheet(tree[1])
    if k == 'name':
        return ('ref',) + unquote_sheet(NAMES[tree[1]])
    if k == 'str':
        return ('text', tree[1])
    if k == 'call':
        return ('func', fname(tree[1]), tuple(canon(a) for a in tree[2]))
    if k == 'bin':
        return fold_mul(('op', tree[1], canon(tree[2]), canon(tree[3])))
    if k == 'neg':
        return ('neg', canon(tree[1]))
    if k == 'pct':
        return fold_pct(('pct', canon(tree[1])))
    if k == 'paren':
        return canon(tree[1])
    raise AssertionError(tree)


def fold_pct(node):
    """Normal form of a postfix percent sign, applied alike to the generated
    tree and to the implementation's tree: x% is x * 0.01 (the library's
    documented desugaring); applied to a numeric literal it is the number
    / 100, and with a unary minus in between both readings denote the same
    constant.  (A library that builds real postfix nodes normalises to the
    same form.)"""
    x = node[1]
    depth, inner = 0, x
    while inner[0] == 'neg':           # any number of unary minus signs
        depth, inner = depth + 1, inner[1]
    if inner[0] == 'num':
        out = ('num', inner[1] / 100.0)
        for _ in range(depth):
            out = ('neg', out)
        return out
    return ('op', '*', x, ('num', 0.01))


def fold_mul(node):
    """('op','*', X, ('num', 0.01)) is the same normal form whether it was
    written as X% or as X*1%: fold it for literal X exactly as fold_pct."""
    if node[0] == 'op' and node[1] == '*' and node[3] == ('num', 0.01):
        return fold_pct(('pct', node[2]))
    return node


def features(tree, out=None):
    """Input-feature tags of a tree."""
    out = out if out is not None else set()
    k = tree[0]
    if k == 'ref':
        t = tree[1]
        if '$' in t:
            out.add('ref:dollar')
        if "'" in t:
            out.add('ref:quoted-sheet')
        elif '!' in t:
            out.add('ref:sheet')
        if ':' in t:
            out.add('ref:range')
    elif k == 'str':
        s = tree[1]
        if s.startswith(':'):
            out.add('str:leading-colon')
        if '"' in s:
            out.add('str:quote')
        if any(c in s for c in '\'!#%(),:;[]{}'):
            out.add('str:delimiter')
        if s == '':
            out.add('str:empty')
        if s in NAMES:
            out.add('str:spelt-like-a-defined-name')
    elif k == 'name':
        out.add('name:reference')
    elif k == 'num':
        if 'E' in tree[1]:
            out.add('num:sci')
    elif k == 'call':
        out.add('call:%d-args' % len(tree[2]))
        if tree[1].startswith('@'):
            out.add('call:at')
        if '_xlfn.' in tree[1].lower():
            out.add('call:xlfn')
        for a in tree[2]:
            features(a, out)
    elif k == 'pct':
        inner = tree[1]
        while inner[0] == 'paren':
            inner = inner[1]
        if tree[1][0] == 'num':
            out.add('pct:literal')
        else:
            out.add('pct:non-literal')
        features(tree[1], out)
    elif k in ('neg', 'paren'):
        if k == 'paren':
            out.add('paren:redundant')
        features(tree[1], out)
    elif k == 'bin':
        features(tree[2], out)
        features(tree[3], out)
    return out


def size(tree):
    k = tree[0]
    if k in ('num', 'bool', 'err', 'ref', 'str', 'name'):
        return 0
    if k == 'call':
        return 1 + sum(size(a) for a in tree[2])
    if k == 'bin':
        return 1 + size(tree[2]) + size(tree[3])
    return 1 + size(tree[1])


def prec(tree):
    k = tree[0]
    if k == 'bin':
        return PREC[tree[1]]
    if k == 'neg':
        return NEG_PREC
    if k == 'pct':
        return PCT_PREC
    return 99


def tokens(tree):
    """List of (text, gap_before_ok, gap_after_ok) tokens, minimal
    parentheses inserted where the grammar needs them."""
    out = []

    def emit(text, before, after):
        out.append([text, before, after])

    def wrap(t):
        emit('(', True, True)
        walk(t)
        emit(')', True, True)

    def walk(t):
        k = t[0]
        if k in ('num', 'bool', 'err', 'ref', 'name'):
            emit(t[1], True, True)
        elif k == 'str':
            emit('"' + t[1].replace('"', '""') + '"', True, True)
        elif k == 'call':
            emit(t[1] + '(', True, True)
            for i, a in enumerate(t[2]):
                if i:
                    emit(',', True, True)
                walk(a)
            emit(')', True, True)
        elif k == 'paren':
            wrap(t[1])
        elif k == 'neg':
            emit('-', True, False)
            c = t[1]
            if prec(c) < NEG_PREC:       # binary operator or percent below
                wrap(c)
            else:
                walk(c)
        elif k == 'pct':
            c = t[1]
            # unary minus binds tighter than %, so -x% is (−x)%: no parens
            if prec(c) < PCT_PREC:
                wrap(c)
            else:
                walk(c)
            emit('%', False, True)
            out[-2][2] = False          # no blank between operand and %
        elif k == 'bin':
            p = PREC[t[1]]
            l, r = t[2], t[3]
            if prec(l) < p:
                wrap(l)
            else:
                walk(l)
            emit(t[1], True, True)
            if prec(r) <= p:
                wrap(r)
            else:
                walk(r)
        else:
            raise AssertionError(t)
    walk(tree)
    return out


def gaps(toks):
    """Indices g in 0..len(toks): a blank may be put before token g (g=len:
    trailing).  g=0 is the leading gap (after '=')."""
    res = [0]
    for g in range(1, len(toks)):
        if toks[g - 1][2] and toks[g][1]:
            # never between two operands (that would be the intersection
            # operator): one side must be punctuation / an operator
            a, b = toks[g - 1][0], toks[g][0]
            if is_punct(a) or is_punct(b):
                res.append(g)
    res.append(len(toks))
    return res


def is_punct(text):
    return text in ('(', ')', ',', '-', '%') or text in PREC or \
        text.endswith('(')


def render(toks, blanks=(), ws=' ', eq=True):
    parts = ['='] if eq else []
    bl = set(blanks)
    for i, t in enumerate(toks):
        if i in bl:
            parts.append(ws)
        parts.append(t[0])
    if len(toks) in bl:
        parts.append(ws)
    return ''.join(parts)


def all_strings(maxlen, alphabet=STR_ALPHABET):
    for n in range(0, maxlen + 1):
        for tup in itertools.product(alphabet, repeat=n):
            yield ''.join(tup)


# ---- tree enumeration ----------------------------------------------------
def trees_one(leaves):
    """Trees with exactly one internal node over ``leaves``."""
    for x in leaves:
        yield ('neg', x)
        yield ('pct', x)
        yield ('paren', x)
    for op in BINOPS_REP:
        for a in leaves:
            for b in leaves:
                yield ('bin', op, a, b)


def chains(n_ops, leaves, ops=BINOPS_REP):
    """Every tree of ``n_ops`` binary operators over the first n_ops+1 of
    ``leaves`` in that left-to-right order (every shape, every operator at
    every place): rendered with minimal parentheses these are, among others,
    all flat stretches of n_ops operators."""
    def build(lo, hi):
        if lo == hi:
            yield leaves[lo]
            return
        for mid in range(lo, hi):
            lefts = list(build(lo, mid))
            rights = list(build(mid + 1, hi))
            for op in ops:
                for x in lefts:
                    for y in rights:
                        yield ('bin', op, x, y)
    return build(0, n_ops)


def calls(names, leaves, max_args):
    for name in names:
        yield ('call', name, [])
        for n in range(1, max_args + 1):
            for args in itertools.product(leaves, repeat=n):
                yield ('call', name, list(args))


def compose(depth, leaves, ops=BINOPS_REP, funcs=('SUM', 'IF')):
    """All trees with exactly ``depth`` internal nodes (no paren nodes, calls
    with 1..2 arguments) over ``leaves``."""
    if depth == 0:
        for x in leaves:
            yield x
        return
    for t in compose(depth - 1, leaves, ops, funcs):
        yield ('neg', t)
        yield ('pct', t)
        for f in funcs:
            yield ('call', f, [t])
    for a in range(depth):
        b = depth - 1 - a
        lefts = list(compose(a, leaves, ops, funcs))
        rights = list(compose(b, leaves, ops, funcs))
        for op in ops:
            for x in lefts:
                for y in rights:
                    yield ('bin', op, x, y)
        for f in funcs:
            for x in lefts:
                for y in rights:
                    yield ('call', f, [x, y])
