"""Workbook generator for C03: several sheets, data grid whose values encode
their own position, written as a real .xlsx (openpyxl) and loaded through the
library's reader."""
import os
import tempfile

SHEETS = ['Sheet1', 'My Sheet', 'Data_2', "It's"]
COLS = 'ABCD'
ROWS = (1, 2, 3, 4)

_TMP = None
_N = [0]


def tmpdir():
    global _TMP
    if _TMP is None:
        _TMP = tempfile.TemporaryDirectory(prefix='xlmc_wb_')
    return _TMP.name


def needs_quotes(sheet):
    return not sheet.replace('_', '').isalnum()


def quoted(sheet):
    return "'" + sheet.replace("'", "''") + "'"


def sheet_spellings(sheet):
    """Ways to write the sheet in a formula."""
    if needs_quotes(sheet):
        return [('quoted', quoted(sheet))]
    return [('plain', sheet), ('quoted', quoted(sheet))]


def cell_value(sheet_index, row, col_index):
    """col_index 0-based; two-digit position code plus a sheet thousand."""
    return (sheet_index + 1) * 1000 + row * 10 + (col_index + 1)


DOLLAR_CELL = (('', ''), ('$', '$'), ('', '$'), ('$', ''))


def cell_spelling(col, row, d):
    return '%s%s%s%d' % (d[0], col, d[1], row)


def write_xlsx(sheets, names=None, hidden=()):
    """sheets: list of (title, {coord: value-or-formula}); hidden: titles of
    sheets to hide; returns path."""
    import openpyxl
    from openpyxl.workbook.defined_name import DefinedName
    wb = openpyxl.Workbook()
    wb.remove(wb.active)
    for title, cells in sheets:
        ws = wb.create_sheet(title)
        for coord, v in cells.items():
            ws[coord] = v
        if title in hidden:
            ws.sheet_state = 'hidden'
    for name, target in (names or {}).items():
        if isinstance(name, tuple):
            # (sheet title, name): a name defined for that sheet only
            wb[name[0]].defined_names[name[1]] = DefinedName(
                name[1], attr_text=target)
            continue
        wb.defined_names[name] = DefinedName(name, attr_text=target)
    _N[0] += 1
    path = os.path.join(tmpdir(), 'wb_%d_%d.xlsx' % (os.getpid(), _N[0]))
    wb.save(path)
    return path


def grid(sheet_index, pattern='dense'):
    """The 4x4 data grid of one sheet as {coord: value}."""
    cells = {}
    for r in ROWS:
        for ci, c in enumerate(COLS):
            keep = {
                'dense': True,
                'single': (r, ci) == (2, 1),
                'empty': False,
                'checker': (r + ci) % 2 == 0,
            }[pattern]
            if keep:
                cells['%s%d' % (c, r)] = cell_value(sheet_index, r, ci)
    return cells


def rectangles(nrows=4, ncols=4):
    for r1 in range(1, nrows + 1):
        for r2 in range(r1, nrows + 1):
            for c1 in range(ncols):
                for c2 in range(c1, ncols):
                    yield r1, c1, r2, c2
