"""Expression trees over the 13 operators and their concrete renderings.

Grammar constants come from the property text (DESIGN.md A.1), not from
``xlcalculator.parser.OPERATORS``.
"""
import functools
from decimal import Decimal

BINOPS = ('^', '*', '/', '+', '-', '&', '=', '<>', '<', '>', '<=', '>=')
PREC = {'^': 5, '*': 4, '/': 4, '+': 3, '-': 3, '&': 2,
        '=': 1, '<>': 1, '<': 1, '>': 1, '<=': 1, '>=': 1}
CLASS_REPS = ('^', '*', '+', '&', '=')
NEG_PREC = 7


@functools.lru_cache(maxsize=None)
def shapes(n, ops=BINOPS):
    """All trees with exactly n operator nodes; leaves are ('leaf', None)."""
    if n == 0:
        return (('leaf', None),)
    out = [('neg', t) for t in shapes(n - 1, ops)]
    for op in ops:
        for a in range(n):
            for left in shapes(a, ops):
                for right in shapes(n - 1 - a, ops):
                    out.append(('bin', op, left, right))
    return tuple(out)


def number_leaves(tree):
    """Return the tree with leaves numbered left to right, and their count."""
    counter = [0]

    def walk(t):
        if t[0] == 'leaf':
            i = counter[0]
            counter[0] += 1
            return ('leaf', i)
        if t[0] in ('neg', 'pct'):
            return (t[0], walk(t[1]))
        return ('bin', t[1], walk(t[2]), walk(t[3]))
    return walk(tree), counter[0]


def trees(n, ops=BINOPS):
    for s in shapes(n, ops):
        yield number_leaves(s)


def n_ops(tree):
    if tree[0] == 'leaf':
        return 0
    if tree[0] in ('neg', 'pct'):
        return 1 + n_ops(tree[1])
    return 1 + n_ops(tree[2]) + n_ops(tree[3])


def nontrivial(tree):
    """>= 2 operator nodes in a parent/child relation (a precedence or an
    associativity decision is needed to read the minimal rendering)."""
    return n_ops(tree) >= 2


def key_of(tree):
    if tree[0] == 'leaf':
        return 'x%d' % tree[1]
    if tree[0] == 'neg':
        return '(neg %s)' % key_of(tree[1])
    if tree[0] == 'pct':
        return '(pct %s)' % key_of(tree[1])
    return '(%s %s %s)' % (tree[1], key_of(tree[2]), key_of(tree[3]))


# ---- leaf spellings -----------------------------------------------------
def plain(v):
    if isinstance(v, int) or float(v) == int(v):
        return str(int(v))
    r = repr(float(v))
    if 'e' in r:
        return sci(v)             # Excel's spelling: 2E-17, not 2e-17
    return r


def sci(v):
    if v == 0:
        return '0'                # Excel never stores a zero as 0E+0
    d = Decimal(repr(float(v)) if not isinstance(v, int) else str(v))
    sign, digits, exp = d.normalize().as_tuple()
    assert sign == 0
    digs = ''.join(map(str, digits))
    mant = digs[0] + ('.' + digs[1:] if len(digs) > 1 else '')
    return '%sE%+d' % (mant, len(digs) - 1 + exp)


def percent(v):
    d = (Decimal(repr(float(v)) if not isinstance(v, int) else str(v))
         * 100).normalize()
    s = format(d, 'f')
    return s + '%'


def cellref(i):
    return 'A%d' % (i + 1)


# ---- renderings ---------------------------------------------------------
def render(tree, leaf, full=False, leafparens=False, opblank=False,
           parenblank=False):
    """Render ``tree``; ``leaf(i)`` gives the text of leaf i.

    full        parenthesise every operator node
    leafparens  redundant parentheses around every leaf
    opblank     one blank on both sides of every binary operator
    parenblank  a blank after every '(' and before every ')'
    """
    lp, rp = ('( ', ' )') if parenblank else ('(', ')')

    def wrap(s):
        return lp + s + rp

    def r(t):
        """returns (text, precedence class) - 99 for leaves, NEG_PREC for
        unary minus"""
        if t[0] == 'leaf':
            s = leaf(t[1])
            return (wrap(s) if leafparens else s), 99
        if t[0] == 'neg':
            s, q = r(t[1])
            if q < NEG_PREC:        # a binary operator below a unary minus
                s = wrap(s)
            out = '-' + s
            return (wrap(out) if full else out), (100 if full else NEG_PREC)
        op = t[1]
        p = PREC[op]
        ls, lq = r(t[2])
        rs, rq = r(t[3])
        if lq < p:
            ls = wrap(ls)
        if rq <= p:
            rs = wrap(rs)
        sep = ' ' if opblank else ''
        out = ls + sep + op + sep + rs
        return (wrap(out) if full else out), (100 if full else p)
    return r(tree)[0]


def minimal(tree, leaf):
    return render(tree, leaf)


# ---- safety guard -------------------------------------------------------
def flatten_infix(tree):
    """In-order leaves and binary operators of ``tree`` (unary minus and
    parentheses dropped)."""
    leaves, ops = [], []

    def walk(t):
        if t[0] == 'leaf':
            leaves.append(t[1])
        elif t[0] in ('neg', 'pct'):
            walk(t[1])
        else:
            walk(t[2])
            ops.append(t[1])
            walk(t[3])
    walk(tree)
    return leaves, ops


def unsafe_bits(tree, vec, limit_bits=4e6):
    """True if *some* bracketing of the tree's flat operator sequence could
    make Python's integer power build a number of more than ``limit_bits``
    bits.  A pure harness guard: a mis-associating implementation (or mutant)
    must not be able to exhaust the machine; such cases are not executed."""
    import math
    leaves, ops = flatten_infix(tree)
    n = len(leaves)
    INF = float('inf')
    L = [[0.0] * n for _ in range(n)]
    for i, li in enumerate(leaves):
        L[i][i] = max(1.0, math.log2(max(abs(float(vec[li])), 2.0)))
    for span in range(1, n):
        for i in range(n - span):
            j = i + span
            best = 0.0
            for k in range(i, j):
                a, b = L[i][k], L[k + 1][j]
                op = ops[k]
                if a == INF or b == INF:
                    r = INF
                elif op == '^':
                    r = INF if b > 40 else (2.0 ** b) * a
                    if r > limit_bits:
                        r = INF
                elif op in ('*', '/'):
                    r = a + b + 1
                elif op in ('+', '-'):
                    r = max(a, b) + 1
                elif op == '&':
                    r = a + b * 1.1 + 10
                else:
                    r = 1.0
                best = max(best, r)
            L[i][j] = best
    return L[0][n - 1] == INF
