"""Small acyclic workbook models shared by the history checks (C04, C05).

Each model: cells (address -> constant | formula text), inputs (addresses that
histories may overwrite) with the values they may take, a Python reference
function per formula cell, optional defined names (then the model is built by
writing a real .xlsx with openpyxl and loading it through the reader).
"""
import os
import tempfile

S = 'Sheet1!'


class ErrV(str):
    """An Excel error value in a model's reference arithmetic."""


class Raises:
    """Evaluating the cell raises a Python exception (e.g. an unknown
    function): the reference only says THAT it raises."""


RAISES = Raises()


def obs(v, lib):
    """Observation string of a reference value ('raise:*' = any exception)."""
    if isinstance(v, ErrV):
        return 'err:' + v
    if isinstance(v, Raises):
        return 'raise:*'
    return lib.norm(v)


def agrees(got, want):
    """Does the observation ``got`` satisfy the reference observation?"""
    if want == 'raise:*':
        return got.startswith('raise:') and got not in (
            'raise:RecursionError', 'raise:MemoryError',
            'raise:CycleError')
    return got == want


class ModelSpec:
    def __init__(self, name, cells, inputs, values, ref, names=None,
                 order=None, eval_cells=None):
        self.name = name
        self.cells = cells                  # addr -> constant or '=formula'
        self.inputs = inputs                # list of addresses
        self.values = values                # values an input may be set to
        self.ref = ref                      # addr -> fn(get) -> python value
        self.names = names or {}            # defined name -> address
        self.formulas = [a for a, v in cells.items()
                         if isinstance(v, str) and v.startswith('=')]
        self.all_cells = list(cells)
        # True: no reference arithmetic; the value of a cell evaluated alone
        # on a fresh model is the reference (C05 only)
        self.differential = False
        self.extracted = False
        # cells that schedules may evaluate (default: all of them)
        self.eval_cells = list(eval_cells) if eval_cells else list(cells)

    def initial_inputs(self):
        # an input that is not a cell of the model yet starts as None
        return {a: self.cells.get(a) for a in self.inputs}

    def reference(self, inputs):
        """address -> python value of every cell for the given inputs."""
        memo = {}

        def get(addr):
            if addr in memo:
                return memo[addr]
            if addr in inputs:
                v = inputs[addr]
            elif addr in self.ref:
                v = self.ref[addr](get)
            else:
                v = self.cells.get(addr)
            memo[addr] = v
            return v
        return {a: get(a) for a in self.cells}

    def current_cells(self, inputs):
        d = dict(self.cells)
        d.update({a: v for a, v in inputs.items() if v is not None})
        return d


def _num(v):
    """Excel's numeric reading of an input value used in arithmetic."""
    if isinstance(v, bool):
        return int(v)
    return v


def chain():
    A, B, C, D = S + 'A1', S + 'B1', S + 'C1', S + 'D1'
    return ModelSpec(
        'chain',
        {A: 2, B: '=A1+1', C: '=B1*2', D: '=C1-A1+E9'},   # E9 does not exist
        # ... until a history sets it
        [A, S + 'E9'], [0, 5],
        {B: lambda g: g(A) + 1, C: lambda g: g(B) * 2,
         D: lambda g: g(C) - g(A) + (g(S + 'E9') or 0)})


def diamond():
    A1, A2, B1, B2, C1 = (S + x for x in ('A1', 'A2', 'B1', 'B2', 'C1'))
    return ModelSpec(
        'diamond',
        {A1: 2, A2: 3, B1: '=A1+A2', B2: '=A1*A2', C1: '=B1+B2*10'},
        [A1, A2], [0, 5],
        {B1: lambda g: g(A1) + g(A2), B2: lambda g: g(A1) * g(A2),
         C1: lambda g: g(B1) + g(B2) * 10})


def sumrange():
    A1, A2, A3, B1, C1 = (S + x for x in ('A1', 'A2', 'A3', 'B1', 'C1'))
    return ModelSpec(
        'sumrange',
        {A1: 2, A2: 3, A3: 4, B1: '=SUM(A1:A3)', C1: '=B1*2+A3'},
        [A1, A3], [0, 5],
        {B1: lambda g: g(A1) + g(A2) + g(A3),
         C1: lambda g: g(B1) * 2 + g(A3)})


def formularange():
    A1, A2, B1, B2, B3, C1 = (S + x for x in
                              ('A1', 'A2', 'B1', 'B2', 'B3', 'C1'))
    return ModelSpec(
        'formularange',
        {A1: 2, A2: 3, B1: '=A1+1', B2: '=A2*2', B3: '=B1+B2',
         C1: '=SUM(B1:B3)'},
        [A1, A2], [0, 5],
        {B1: lambda g: g(A1) + 1, B2: lambda g: g(A2) * 2,
         B3: lambda g: g(B1) + g(B2),
         C1: lambda g: g(B1) + g(B2) + g(B3)})


def crosssheet():
    a, b = 'Sheet1!A1', 'Sheet1!B1'
    c, d = 'Sheet2!A1', 'Sheet2!B1'
    e = 'Sheet2!C1'
    return ModelSpec(
        'crosssheet',
        {a: 2, e: 7, c: '=Sheet1!A1+C1', b: '=Sheet2!A1*2+A1',
         d: '=A1+Sheet1!B1',
         # the same text on both sheets, unqualified and with a unary minus
         'Sheet1!D1': '=-A1*3', 'Sheet2!D1': '=-A1*3'},
        [a, e], [0, 5],
        {c: lambda g: g(a) + g(e), b: lambda g: g(c) * 2 + g(a),
         d: lambda g: g(c) + g(b),
         'Sheet1!D1': lambda g: -g(a) * 3, 'Sheet2!D1': lambda g: -g(c) * 3})


def _txt(v):
    return str(v)


def textmodel():
    A1, A2, B1, C1 = (S + x for x in ('A1', 'A2', 'B1', 'C1'))
    return ModelSpec(
        'text',
        {A1: 'x', A2: 3, B1: '=A1&"-"&A2', C1: '=B1&"!"'},
        [A1, A2], ['yy', 7],
        {B1: lambda g: _txt(g(A1)) + '-' + _txt(g(A2)),
         C1: lambda g: g(B1) + '!'})


def twodim():
    cells = {S + 'A1': 1, S + 'B1': 2, S + 'A2': 3, S + 'B2': 4}
    A1, B1, A2, B2 = (S + x for x in ('A1', 'B1', 'A2', 'B2'))
    C1, C2, D1 = S + 'C1', S + 'C2', S + 'D1'
    cells.update({C1: '=SUM(A1:B2)', C2: '=SUM(A1:A2)*B2', D1: '=C1+C2'})
    return ModelSpec(
        'twodim', cells, [A1, B2], [0, 5],
        {C1: lambda g: g(A1) + g(B1) + g(A2) + g(B2),
         C2: lambda g: (g(A1) + g(A2)) * g(B2),
         D1: lambda g: g(C1) + g(C2)})


def named():
    A1, A2, B1, C1 = (S + x for x in ('A1', 'A2', 'B1', 'C1'))
    return ModelSpec(
        'named',
        {A1: 2, A2: 3, B1: '=inp*2+A2', C1: '=B1+inp'},
        [A1, A2], [0, 5],
        {B1: lambda g: g(A1) * 2 + g(A2), C1: lambda g: g(B1) + g(A1)},
        names={'inp': A1})


def longrange():
    """A range over 110 formula cells (more than the evaluator's
    consecutive-blank cut-off) that are blank until evaluated."""
    n = 110
    B1, C1, C2 = S + 'B1', S + 'C1', S + 'C2'
    cells = {B1: 3}
    ref = {}
    for k in range(1, n + 1):
        a = S + 'A%d' % k
        cells[a] = '=$B$1+%d' % k
        ref[a] = (lambda k: lambda g: g(B1) + k)(k)
    cells[C1] = '=SUM(A1:A%d)' % n
    cells[C2] = '=COUNTA(A1:A%d)+C1' % n
    ref[C1] = lambda g: sum(g(B1) + k for k in range(1, n + 1))
    ref[C2] = lambda g: n + g(C1)
    return ModelSpec('longrange', cells, [B1], [0, 5], ref,
                     eval_cells=[C1, C2, S + 'A1', S + 'A%d' % n, B1])


def branch():
    """A lazily selected branch: which of two formula cells feeds the result
    depends on an input."""
    A1, A2, B1, B2, C1, D1 = (S + x for x in
                              ('A1', 'A2', 'B1', 'B2', 'C1', 'D1'))
    return ModelSpec(
        'branch',
        {A1: 5, A2: 2, B1: '=A2*2', B2: '=A2+100', C1: '=IF(A1>3,B1,B2)',
         D1: '=C1+1'},
        [A1, A2], [0, 5],
        {B1: lambda g: g(A2) * 2, B2: lambda g: g(A2) + 100,
         C1: lambda g: g(B1) if g(A1) > 3 else g(B2),
         D1: lambda g: g(C1) + 1})


def logic():
    """AND / OR over cell references (their arguments are evaluated lazily,
    as a variable-length list), feeding an IF."""
    A1, A2, B1, B2, C1 = (S + x for x in ('A1', 'A2', 'B1', 'B2', 'C1'))
    return ModelSpec(
        'logic',
        {A1: 5, A2: 0, B1: '=AND(A1,A2)', B2: '=OR(A1,A2)',
         C1: '=IF(OR(B1,A2),10,20)+IF(B2,1,2)'},
        [A1, A2], [0, 5],
        {B1: lambda g: bool(g(A1)) and bool(g(A2)),
         B2: lambda g: bool(g(A1)) or bool(g(A2)),
         C1: lambda g: (10 if (g(B1) or bool(g(A2))) else 20)
         + (1 if g(B2) else 2)})


def overflow():
    """Functions whose results leave the double range: #NUM!, every time,
    whatever was evaluated before (C05 only)."""
    import math
    A1, B1, B2, B3, B4, C1 = (S + x for x in
                              ('A1', 'B1', 'B2', 'B3', 'B4', 'C1'))
    NUM = ErrV('#NUM!')
    return ModelSpec(
        'overflow',
        {A1: 1000, B1: '=EXP(A1)', B2: '=COSH(A1)', B3: '=DEGREES(1E+308)',
         B4: '=EXP(1)', C1: '=IF(ISERROR(B2),1,2)'},
        [A1], [1000],
        {B1: lambda g: NUM, B2: lambda g: NUM, B3: lambda g: NUM,
         B4: lambda g: math.e, C1: lambda g: 1})


def othersheet():
    """read_and_parse_dict with formulas on a sheet that is not the default
    one: an unqualified range (with a hole: A2 is not a cell of the model)
    means the formula's own sheet, a second formula reads the hole directly,
    and the default sheet holds other values at the same coordinates."""
    A1, A3, B1, B2, B3 = ('Data!' + x for x in ('A1', 'A3', 'B1', 'B2', 'B3'))
    cells = {A1: 1, A3: 3, B1: '=SUM(A1:A3)', B2: '=A2+1', B3: '=B1+B2',
             S + 'A1': 100, S + 'A2': 200, S + 'A3': 300}
    return ModelSpec(
        'othersheet', cells, [A1], [0, 5],
        {B1: lambda g: g(A1) + g(A3), B2: lambda g: 1,
         B3: lambda g: g(B1) + g(B2)},
        eval_cells=[A1, A3, B1, B2, B3])


def guarded():
    """An input decides whether a precedent raises a Python exception (an
    unknown function); after the input is repaired everything computes."""
    A1, B1, C1, D1 = (S + x for x in ('A1', 'B1', 'C1', 'D1'))

    def b1(g):
        return RAISES if g(A1) > 3 else g(A1) + 1

    def up(f):
        def h(g):
            v = g(B1)
            return v if isinstance(v, Raises) else f(g)
        return h
    return ModelSpec(
        'guarded',
        {A1: 0, B1: '=IF(A1>3,NOSUCHFUNCTION(1),A1+1)', C1: '=B1*2',
         D1: '=C1+A1'},
        [A1], [5, 0],
        {B1: b1, C1: up(lambda g: g(B1) * 2),
         D1: up(lambda g: g(B1) * 2 + g(A1))})


def raising():
    """'guarded' with the guard set: evaluating B1, C1 or D1 raises from the
    start, E1 computes (C05 only: an evaluation that raises leaves nothing
    behind either)."""
    spec = guarded()
    spec.name = 'raising'
    spec.cells = dict(spec.cells)
    spec.cells[S + 'A1'] = 5
    spec.cells[S + 'E1'] = '=A1+1'
    spec.ref = dict(spec.ref)
    spec.ref[S + 'E1'] = lambda g: g(S + 'A1') + 1
    spec.formulas = spec.formulas + [S + 'E1']
    spec.all_cells = list(spec.cells)
    spec.eval_cells = list(spec.cells)
    return spec


def named_extracted():
    """The 'named' model after ModelCompiler.extract with every cell and
    the name in the focus (name object and cell are separate copies then)."""
    spec = named()
    spec.name = 'named-extracted'
    spec.extracted = True
    return spec


def criteria():
    """COUNTIF cells whose criteria read alike but differ in type."""
    cells = {S + 'A1': 1, S + 'A2': True, S + 'A3': 1, S + 'A4': 'True',
             S + 'B1': '=COUNTIF(A1:A4,TRUE)',
             S + 'B2': '=COUNTIF(A1:A4,"True")',
             S + 'B3': '=COUNTIF(A1:A4,1)', S + 'B4': '=COUNTIF(A1:A4,"1")'}
    spec = ModelSpec('criteria', cells, [S + 'A1'], [0, 5], {},
                     eval_cells=[S + 'B1', S + 'B2', S + 'B3', S + 'B4'])
    spec.differential = True
    return spec


def typed():
    """An input that switches between a number and the logical that is ==
    to it in Python (1 / TRUE, 0 / FALSE); the formulas tell them apart."""
    A1, B1, C1, D1 = (S + x for x in ('A1', 'B1', 'C1', 'D1'))

    def isnum(v):
        return isinstance(v, (int, float)) and not isinstance(v, bool)
    return ModelSpec(
        'typed',
        {A1: 1, B1: '=ISNUMBER(A1)', C1: '=IF(ISNUMBER(A1),A1+1,-1)',
         D1: '=C1*2'},
        [A1], [True, 0, False, 1],
        {B1: lambda g: isnum(g(A1)),
         C1: lambda g: g(A1) + 1 if isnum(g(A1)) else -1,
         D1: lambda g: g(C1) * 2})


def numtext():
    """An input that switches between a number and the text that spells
    it; the formulas tell them apart."""
    A1, A2, B1, C1, D1 = (S + x for x in ('A1', 'A2', 'B1', 'C1', 'D1'))

    def isnum(v):
        return isinstance(v, (int, float)) and not isinstance(v, bool)
    return ModelSpec(
        'numtext',
        {A1: 5, A2: 1, B1: '=ISTEXT(A1)', C1: '=IF(ISNUMBER(A1),A1*2,-1)',
         D1: '=COUNT(A1:A2)+IF(B1,10,0)'},
        [A1], [12, '12', 'abc', 12.5, '12.5'],
        {B1: lambda g: isinstance(g(A1), str),
         C1: lambda g: g(A1) * 2 if isnum(g(A1)) else -1,
         D1: lambda g: (2 if isnum(g(A1)) else 1) +
         (10 if isinstance(g(A1), str) else 0)})


def deepchain():
    """A chain longer than the interpreter's stack follows (under the default
    recursion limit): whatever evaluating its end gives, a fresh model with
    the same inputs gives the same, also after an input has changed."""
    cells = {S + 'A1': 1}
    for i in range(2, 401):
        cells[S + 'A%d' % i] = '=A%d+1' % (i - 1)
    spec = ModelSpec('deepchain', cells, [S + 'A1'], [10, 0], {},
                     eval_cells=[S + 'A400', S + 'A5', S + 'A50'])
    spec.differential = True
    return spec


def errrange():
    """An error value inside a summed range that comes and goes with an
    input; the error is inspected two levels up."""
    A1, B1, B2, B3, C1, D1 = (S + x for x in
                              ('A1', 'B1', 'B2', 'B3', 'C1', 'D1'))
    NA = ErrV('#N/A')

    def c1(g):
        if isinstance(g(B2), ErrV):
            return g(B2)
        return g(B1) + g(B2) + g(B3)
    return ModelSpec(
        'errrange',
        {A1: 5, B1: '=A1+1', B2: '=IF(A1>3,NA(),2)', B3: 3,
         C1: '=SUM(B1:B3)', D1: '=IF(ISERROR(C1),-1,C1)'},
        [A1], [0, 5],
        {B1: lambda g: g(A1) + 1, B2: lambda g: NA if g(A1) > 3 else 2,
         C1: c1, D1: lambda g: -1 if isinstance(g(C1), ErrV) else g(C1)})


def lookup():
    """A lookup whose key is an input."""
    cells = {S + 'A1': 0, S + 'B1': 10, S + 'A2': 5, S + 'B2': 20,
             S + 'A3': 7, S + 'B3': 30, S + 'D1': 5}
    D1, E1, F1 = S + 'D1', S + 'E1', S + 'F1'
    cells[E1] = '=VLOOKUP(D1,A1:B3,2,FALSE)'
    cells[F1] = '=E1+MATCH(D1,A1:A3,0)'
    table = {0: 10, 5: 20, 7: 30}
    pos = {0: 1, 5: 2, 7: 3}
    return ModelSpec(
        'lookup', cells, [D1, S + 'B2'], [0, 5],
        {E1: lambda g: {0: g(S + 'B1'), 5: g(S + 'B2'), 7: g(S + 'B3')}[
            g(D1)],
         F1: lambda g: g(E1) + pos[g(D1)]},
        eval_cells=[D1, E1, F1, S + 'B2'])


def spill():
    """A formula whose value is an array, with free cells below it that
    other formulas read: they stay free whatever was evaluated."""
    cells = {S + 'A1': 1, S + 'A2': 2, S + 'A3': 3, S + 'C1': '=A1:A3',
             S + 'E1': '=SUM(C2:C3)', S + 'E2': '=COUNTA(C2:D3)',
             S + 'E3': '=ISBLANK(C2)'}
    spec = ModelSpec('spill', cells, [S + 'A2'], [0, 5], {},
                     eval_cells=[S + 'C1', S + 'E1', S + 'E2', S + 'E3'])
    spec.differential = True
    return spec


def ordering():
    """Ordering criteria over a column that mixes numbers and texts."""
    cells = {S + 'A1': 10, S + 'A2': 'abc', S + 'A3': 3, S + 'A4': 7,
             S + 'A5': 'zebra', S + 'B1': '=COUNTIF(A1:A5,"<m")',
             S + 'B2': '=COUNTIF(A1:A5,">5")',
             S + 'B3': '=COUNTIF(A1:A5,">=b")',
             S + 'B4': '=COUNTIF(A1:A5,"<=7")'}
    spec = ModelSpec('ordering', cells, [S + 'A1'], [0, 5], {},
                     eval_cells=[S + 'B1', S + 'B2', S + 'B3', S + 'B4'])
    spec.differential = True
    return spec


def xirr():
    """Two schedules of cash flows: on one the iteration fails from the
    default guess, on the other it converges."""
    cells = {S + 'A1': -1000, S + 'A2': 300, S + 'B1': 43831,
             S + 'B2': 43831 + 1461, S + 'C1': -1000, S + 'C2': 900,
             S + 'D1': 43831, S + 'D2': 43831 + 366,
             S + 'E1': '=XIRR(A1:A2,B1:B2)', S + 'E2': '=XIRR(C1:C2,D1:D2)',
             S + 'E3': '=IF(ISERROR(E1),"n/a","rate")'}
    spec = ModelSpec('xirr', cells, [S + 'C2'], [0, 5], {},
                     eval_cells=[S + 'E1', S + 'E2', S + 'E3'])
    spec.differential = True
    return spec


def natives():
    """Functions that hand back native Python values which are == in Python
    (True and 1.0, False and 0.0), each used as an operand directly."""
    cells = {S + 'A1': 5, S + 'B1': '=ISNUMBER(A1)&""',
             S + 'B2': '=ROUND(A1/5,0)&""', S + 'B3': '=ISTEXT(A1)&""',
             S + 'B4': '=ROUND(A1/50,0)&""', S + 'B5': '=ISNUMBER(A1)=1',
             S + 'B6': '=ROUND(A1/5,0)=1'}
    spec = ModelSpec('natives', cells, [S + 'A1'], [0, 5], {},
                     eval_cells=[S + 'B1', S + 'B2', S + 'B3', S + 'B4',
                                 S + 'B5', S + 'B6'])
    spec.differential = True
    return spec


def named1x1():
    """A defined name written as a range of exactly one cell, evaluated by
    its name as well as through formulas."""
    A1, A2, B1, B2, B3 = (S + x for x in ('A1', 'A2', 'B1', 'B2', 'B3'))
    spec = ModelSpec(
        'named1x1',
        {A1: 5, A2: 7, B1: '=SUM(one)+A2', B2: '=ISNUMBER(one)',
         B3: '=COUNTA(one)+B1'},
        [A2], [0, 5], {}, names={'one': A1},
        eval_cells=[B1, B2, B3, 'one'])
    spec.range_names = ('one',)
    spec.differential = True
    return spec


def wholerow():
    """A whole-row reference: the row has 16 384 members, whichever of them
    are stored when the model is compiled (D1 is not, until it is set)."""
    A1, B1, D1, A2, B2 = (S + x for x in ('A1', 'B1', 'D1', 'A2', 'B2'))
    return ModelSpec(
        'wholerow',
        {A1: 2, B1: 3, A2: '=SUM(1:1)', B2: '=A2*2'},
        [B1, D1], [0, 5],
        {A2: lambda g: g(A1) + g(B1) + (g(D1) or 0),
         B2: lambda g: g(A2) * 2},
        eval_cells=[A2, B2])


# (wholerow is expensive - 16 384 cells a model: its own, shallower, plan)
COSTLY = [wholerow, deepchain]
ALL = [chain, diamond, sumrange, formularange, crosssheet, textmodel, named,
       branch, lookup, errrange, typed, guarded, named_extracted, othersheet,
       logic, numtext]
ALL_C05 = ALL + [twodim, longrange, criteria, overflow, raising, spill,
                 ordering, xirr, natives, named1x1]


def by_name(name):
    for f in ALL_C05 + COSTLY:
        spec = f()
        if spec.name == name:
            return spec
    raise KeyError(name)


# ---- building real models ------------------------------------------------
_XLSX_CACHE = {}
_TMP = None


def _tmpdir():
    global _TMP
    if _TMP is None:
        _TMP = tempfile.TemporaryDirectory(prefix='xlmc_models_')
    return _TMP.name


def xlsx_path(spec, cells=None):
    """Write (once per process and content) an .xlsx holding the model."""
    import openpyxl
    from openpyxl.workbook.defined_name import DefinedName
    cells = cells if cells is not None else spec.cells
    key = (spec.name.replace('-extracted', ''),
           repr(sorted(cells.items(), key=repr)))
    if key in _XLSX_CACHE:
        return _XLSX_CACHE[key]
    wb = openpyxl.Workbook()
    wb.remove(wb.active)
    sheets = {}
    for addr, v in cells.items():
        sh, coord = addr.split('!')
        if sh not in sheets:
            sheets[sh] = wb.create_sheet(sh)
        sheets[sh][coord] = v
    for name, addr in spec.names.items():
        sh, coord = addr.split('!')
        col = ''.join(c for c in coord if c.isalpha())
        row = ''.join(c for c in coord if c.isdigit())
        target = '%s!$%s$%s' % (sh, col, row)
        if name in getattr(spec, 'range_names', ()):
            # written as a range of one cell
            target += ':$%s$%s' % (col, row)
        wb.defined_names[name] = DefinedName(name, attr_text=target)
    path = os.path.join(_tmpdir(), '%s_%d.xlsx' % (spec.name,
                                                   len(_XLSX_CACHE)))
    wb.save(path)
    _XLSX_CACHE[key] = path
    return path


def build(spec, lib, cells=None):
    """A fresh compiled Model of the spec (current working tree)."""
    if spec.names:
        model = lib.ModelCompiler().read_and_parse_archive(
            xlsx_path(spec, cells))
        if spec.extracted:
            model = lib.ModelCompiler.extract(
                model, focus=list(spec.all_cells) + list(spec.names))
        return model
    return lib.compile_dict(cells if cells is not None else spec.cells)
