"""Complete sets of short texts over a small alphabet (C17)."""
import functools

# repeated substrings (a, b), blank, double quote, non-ASCII
A5 = ('a', 'b', ' ', '"', 'é')
# for TRIM: inner runs of blanks need longer texts, so a smaller alphabet
A3 = ('a', ' ', '"')


@functools.lru_cache(maxsize=None)
def texts(maxlen, alphabet=A5):
    """Every text of length <= maxlen, shortest first, in alphabet order."""
    out = ['']
    layer = ['']
    for _ in range(maxlen):
        layer = [t + c for t in layer for c in alphabet]
        out.extend(layer)
    return tuple(out)


def count(maxlen, k=len(A5)):
    return sum(k ** i for i in range(maxlen + 1))


def quoted(s):
    """Excel string literal of s (quotes doubled)."""
    return '"' + s.replace('"', '""') + '"'


def selftest():
    assert len(texts(4)) == 781 == count(4)
    assert len(set(texts(4))) == 781
    assert texts(1) == ('', 'a', 'b', ' ', '"', 'é')
    assert quoted('a"b') == '"a""b"' and quoted('') == '""'
    assert len(texts(6, A3)) == 1093
