"""C09 - comparison operators implement one total order on values.

Oracle scope
  enforced : (i)  the reference rank of xlmc/ref/order.py (numbers and dates by
                  value < texts case-insensitively < FALSE < TRUE) for each of
                  the six operators on every ordered pair of non-blank values;
             (ii) the order laws on the OBSERVED relation of each route
                  (exactly one of a<b, a=b, a>b; <= / >= / <> consistent with
                  them; a<b iff b>a; a<b and b<c imply a<c over all triples);
             (iii) blank = 0, blank = "", blank = FALSE, blank = blank (both
                  operand orders).
  refused  : every operator other than = with a blank operand, = between a
             blank and a value the statement does not list (skipped, never
             judged); the relative order of two texts when one contains a
             character outside [A-Za-z0-9 ] (locale collation is not fixed by
             the statement) - those pairs are judged by = / <> and by the laws
             only; dates with a time of day and dates before 1900-03-01 (C18).
"""
import datetime
import itertools

from .. import lib
from ..ref import order as ref

PROPERTY = 'C09'
LEVEL = 'exploration'
RULE = ('every ordered pair of the value alphabet (quick 32, thorough 50 '
        'representatives of numbers, dates, texts, logicals, blank) x the 6 '
        'comparison operators x every route (direct OP_* call with '
        'Excel-typed operands, with native Python operands, [thorough: mixed '
        'typed/native,] formula over operand cells, over literals, over one '
        'literal and one cell [, thorough: over cells computed by formulas]); '
        'each observation is compared with the reference rank, then the '
        'order laws are evaluated on the observed table of each route for '
        'all pairs and all triples (law_pair_instances, '
        'transitivity_triples); a case is non-trivial when the reference '
        'judges it and the two operands are different alphabet entries')
BOUNDS = {
    'quick': {'alphabet': 52, 'routes': 6, 'operators': 6,
              'triples_per_full_route': 41 ** 3},
    'thorough': {'alphabet': 68, 'routes': 10, 'operators': 6,
                 'triples_per_full_route': 58 ** 3},
}
ASSUMPTIONS = [
    'the order stated in the property (reference model xlmc/ref/order.py, '
    'self-tested against Excel\'s documented sort order and well-known date '
    'serials)',
    'whole-day dates after 1900-03-01 have the serial (date - 1899-12-30)',
    'Evaluator.set_cell_value is the seam through which operand cells get '
    'their values (dates, empty text and logicals cannot be given to '
    'read_and_parse_dict)',
]

AT = 'Sheet1!Z1'
CELL_A = 'Sheet1!A1'
CELL_B = 'Sheet1!B1'


# -- alphabet ---------------------------------------------------------------
def _num(vid, carrier, v):
    return {'id': vid, 'cls': 'num', 'carrier': carrier, 'v': v}


def _text(s):
    return {'id': 't:' + s, 'cls': 'text', 'carrier': 'str', 'v': s}


def _date(y, m, d):
    return {'id': 'd:%04d-%02d-%02d' % (y, m, d), 'cls': 'date',
            'carrier': 'datetime', 'v': [y, m, d]}


QUICK = [
    _num('i-2', 'int', -2), _num('f-1.5', 'float', -1.5),
    _num('i0', 'int', 0), _num('f0.0', 'float', 0.0),
    _num('f0.1', 'float', 0.1),
    _num('i1', 'int', 1), _num('f1.0', 'float', 1.0),
    _num('i2', 'int', 2), _num('f2.5', 'float', 2.5),
    _num('i10', 'int', 10), _num('npf10.0', 'npfloat', 10.0),
    _num('i43830', 'int', 43830), _num('i43831', 'int', 43831),
    _num('f43831.5', 'float', 43831.5), _num('f43832.0', 'float', 43832.0),
    _num('i43833', 'int', 43833), _num('f1e10', 'float', 1e10),
    # neighbouring doubles and integers beyond 15 digits (a tolerance in one
    # operator only breaks trichotomy and the <=/>=/<> consistency there)
    _num('f0.3', 'float', 0.3),
    _num('f0.1+0.2', 'float', 0.30000000000000004),
    _num('i1e15', 'int', 10 ** 15), _num('i1e15+1', 'int', 10 ** 15 + 1),
    _date(2020, 1, 1), _date(2020, 1, 2),
    _text(''), _text('1'), _text('10'), _text('9'), _text('1A'), _text('a'), _text('A'), _text('ab'),
    _text('B'), _text('true'), _text('FALSE'), _text('é'),
    # letters whose upper- and lower-case mappings are not inverse (laws only)
    _text('straße'), _text('STRASSE'),
    # a hyphen or an apostrophe is a character like any other
    _text('-1'), _text('a-b'),
    # ... and so are the characters that are wild cards in criteria
    _text('abc'), _text('a*'), _text('a?c'),
    # long texts that differ (or end) only beyond their 255th character
    dict(_text('x' * 255), id='t:x255'),
    dict(_text('x' * 255 + 'a'), id='t:x255a'),
    dict(_text('X' * 255 + 'b'), id='t:X255b'),
    # the first two months of 1900 (serial = days since 1899-12-31)
    _date(1900, 2, 28), _num('i59', 'int', 59), _num('i60', 'int', 60),
    {'id': 'b:FALSE', 'cls': 'bool', 'carrier': 'bool', 'v': False},
    {'id': 'b:TRUE', 'cls': 'bool', 'carrier': 'bool', 'v': True},
    {'id': 'blank', 'cls': 'blank', 'carrier': 'absent', 'v': None},
    # a stored empty cell (set to None): a blank that is not the library's
    # singleton
    {'id': 'blank-none', 'cls': 'blank', 'carrier': 'none', 'v': None},
]
EXTRA = [
    _num('f-0.0', 'float', -0.0), _num('f1e-10', 'float', 1e-10),
    _num('f-1e10', 'float', -1e10), _num('f10.0', 'float', 10.0),
    _num('npi1', 'npint', 1), _num('npf2.5', 'npfloat', 2.5),
    _num('i61', 'int', 61), _date(1900, 3, 1),
    _text('É'), _text('TRUE'), _text('Ab'), _text("it's"),
    _text('z'), _text(' a'), _text('a b'), _text('2020-01-01'),
]
ALPHABET = {'quick': QUICK, 'thorough': QUICK + EXTRA}
BY_ID = {v['id']: v for v in QUICK + EXTRA}

ROUTES = {
    'quick': ('typed', 'native', 'cells', 'lit', 'lit-cell', 'cell-lit',
              'fn'),
    'thorough': ('typed', 'native', 'typed-native', 'native-typed', 'cells',
                 'lit', 'lit-cell', 'cell-lit', 'fcell', 'fn'),
}
# which operand (0 = left, 1 = right) needs a literal spelling
NEEDS_LIT = {'lit': (0, 1), 'lit-cell': (0,), 'cell-lit': (1,),
             'fcell': (0, 1), 'fn': (0, 1)}


def abstract(v):
    """The reference model's view of an alphabet entry."""
    if v['cls'] == 'num':
        return ('num', float(v['v']))
    if v['cls'] == 'date':
        return ('date', ref.serial(*v['v']))
    return (v['cls'], v['v'])


def native(v):
    c = v['carrier']
    if c == 'npint':
        return lib.numpy.int64(v['v'])
    if c == 'npfloat':
        return lib.numpy.float64(v['v'])
    if c == 'datetime':
        return datetime.datetime(*v['v'])
    return v['v']


def typed(v):
    cls = v['cls']
    if cls == 'num':
        return lib.Number(native(v))
    if cls == 'text':
        return lib.Text(v['v'])
    if cls == 'bool':
        return lib.Boolean(v['v'])
    if cls == 'date':
        return lib.DateTime(native(v))
    return lib.BLANK if v['carrier'] == 'absent' else lib.Blank()


def literal(v):
    """Formula spelling of the value, None when there is none."""
    cls = v['cls']
    if cls == 'num':
        r = repr(v['v'])
        return r.upper() if 'e' in r else r
    if cls == 'text':
        return '"%s"' % v['v'].replace('"', '""')
    if cls == 'bool':
        return 'TRUE' if v['v'] else 'FALSE'
    return None


def fn_spelling(v):
    """The value as the result of a function call written into the
    comparison itself (route 'fn'): the library's functions hand back native
    Python values (ROUND a float, ISNUMBER a bool, LEFT a str), and the
    operators have to treat them as the Excel values they are."""
    lit = literal(v)
    if lit is None:
        return None
    if v['cls'] == 'num':
        x = float(v['v'])
        if x != round(x, 9) or abs(x) >= 1e6 or (x == 0 and str(x)[0] == '-'):
            return None
        return 'ROUND(%s,9)' % lit
    if v['cls'] == 'bool':
        return 'ISNUMBER(1)' if v['v'] else 'ISTEXT(1)'
    return 'LEFT(%s,%d)' % (lit, len(v['v']) + 9)


def spelling(route, v):
    return fn_spelling(v) if route == 'fn' else literal(v)


def values_for(route, tier):
    """(left candidates, right candidates) of a route."""
    alph = ALPHABET[tier]
    need = NEEDS_LIT.get(route, ())
    left = [v for v in alph if 0 not in need
            or spelling(route, v) is not None]
    right = [v for v in alph if 1 not in need
             or spelling(route, v) is not None]
    return left, right


def pyeq_differs(a, b):
    """Input feature: Python's == on the native carriers disagrees with the
    reference equality (True==1, 'a'=='A', datetime==serial, None==0)."""
    want = ref.holds('eq', abstract(a), abstract(b))
    if want is None:
        if a['cls'] == 'text' and b['cls'] == 'text':
            # unjudged texts: Python's == is case-sensitive, the ordering
            # operators are not, under either folding
            return a['v'] != b['v'] and (
                a['v'].upper() == b['v'].upper()
                or a['v'].lower() == b['v'].lower())
        return False
    return bool(native(a) == native(b)) != want


def pair_tags(route, a, b):
    tags = ['route:' + route, 'a:' + a['cls'], 'b:' + b['cls']]
    if a['cls'] == 'text' and b['cls'] == 'text':
        if a['v'] != b['v'] and ref.fold(a['v']) == ref.fold(b['v']):
            tags.append('text:case-differs')
        if not (ref.plain(a['v']) and ref.plain(b['v'])):
            tags.append('text:collation-unspecified')
    if a['cls'] == 'num' and b['cls'] == 'num' and \
            a['carrier'] != b['carrier'] and a['v'] == b['v']:
        tags.append('num:carriers-differ')
    if a['carrier'].startswith('np') or b['carrier'].startswith('np'):
        tags.append('num:numpy-carrier')
    if route == 'native' and pyeq_differs(a, b):
        tags.append('native:pyeq-differs')
    return tags


# -- execution -----------------------------------------------------------
def observe(route, op, a, b):
    """Observation of ``a op b`` through ``route`` on the real library.  A
    per-case time-out (wall clock) is retried once, so that a heavily loaded
    machine does not turn into a verdict; a genuine hang times out again."""
    obs = _observe(route, op, a, b)
    if obs in ('timeout', 'compile-timeout'):
        obs = _observe(route, op, a, b)
    return obs


def _observe(route, op, a, b):
    name = ref.OPNAME[op]
    if route == 'typed':
        return lib.call(name, typed(a), typed(b))
    if route == 'native':
        return lib.call(name, native(a), native(b))
    if route == 'typed-native':
        return lib.call(name, typed(a), native(b))
    if route == 'native-typed':
        return lib.call(name, native(a), typed(b))
    need = NEEDS_LIT.get(route, ())
    cells = {}
    formula_cells = {}
    sides = []
    for pos, (v, addr) in enumerate(((a, CELL_A), (b, CELL_B))):
        if route == 'fcell':
            formula_cells[addr] = '=' + literal(v)
            sides.append(addr.split('!')[1])
        elif pos in need:
            sides.append(spelling(route, v))
        else:
            sides.append(addr.split('!')[1])
            if v['carrier'] != 'absent':
                cells[addr] = native(v)
    formula = '=%s%s%s' % (sides[0], ref.SYMBOL[op], sides[1])
    formula_cells[AT] = formula
    try:
        with lib.time_limit():
            model = lib.compile_dict(formula_cells)
            ev = lib.Evaluator(model)
            for addr, val in cells.items():
                ev.set_cell_value(addr, val)
    except lib.CaseTimeout:
        return 'compile-timeout'
    except Exception as exc:  # noqa: BLE001
        return 'compile-raise:%s' % type(lib.innermost(exc)).__name__
    return lib.eval_addr(model, AT, ev)


def as_bool(obs):
    return {'bool:True': True, 'bool:False': False}.get(obs)


def show_bool(b):
    return 'bool:%s' % b


def _vec(fwd, rev):
    def c(x):
        return '?' if x is None else 'TF'[not x]
    return ' '.join('%s=%s' % (o, c(fwd[o])) for o in ref.OPS) + \
        ' rev-gt=%s' % c(rev)


def point_key(route, op, a, b):
    return 'C09/%s/%s/%s~%s' % (route, op, a['id'], b['id'])


def judge_point(route, op, a, b, obs, ctx):
    """Oracle (i) and (iii) for one observation; returns nothing."""
    want = ref.holds(op, abstract(a), abstract(b))
    key = point_key(route, op, a, b)
    if want is None:
        # only reached for non-blank pairs (text collation): law-only
        ctx.count('rank_unjudged_law_only')
        ctx.ok(key, obs, False)
        return
    tags = pair_tags(route, a, b) + ['op:' + op]
    inputs = {'kind': 'point', 'route': route, 'op': op, 'a': a['id'],
              'b': b['id']}
    if obs == show_bool(want):
        ctx.ok(key, obs, a['id'] != b['id'])
    else:
        ctx.fail(key, tags, inputs, show_bool(want), obs, a['id'] != b['id'])


def judge_pair(route, a, b, fwd_obs, rev_gt_obs, ctx):
    """Oracle (ii), pair laws, on observed values of a non-blank pair."""
    fwd = {o: as_bool(fwd_obs[o]) for o in ref.OPS}
    rev = as_bool(rev_gt_obs)
    ctx.count('law_pair_instances')
    bad = ref.pair_laws(fwd, rev)
    if not bad:
        return
    A, B = abstract(a), abstract(b)
    wf = {o: ref.holds(o, A, B) for o in ref.OPS}
    wr = ref.holds('gt', B, A)
    want = _vec(wf, wr) if None not in wf.values() else 'consistent'
    got = _vec(fwd, rev)
    if 'logical-result' in bad:
        got += ' obs=' + ','.join(sorted(set(
            o for o in list(fwd_obs.values()) + [rev_gt_obs]
            if as_bool(o) is None)))
    tags = pair_tags(route, a, b) + ['law:' + n for n in bad]
    if route == 'native' and pyeq_differs(b, a) and \
            'native:pyeq-differs' not in tags:
        tags.append('native:pyeq-differs')
    ctx.fail('C09/%s/laws/%s~%s' % (route, a['id'], b['id']), tags,
             {'kind': 'pair', 'route': route, 'a': a['id'], 'b': b['id']},
             want, got, True)


def judge_triple(route, a, b, c, ab, bc, ac, ctx):
    if ref.transitive(ab, bc, ac):
        return
    tags = ['route:' + route, 'law:transitivity',
            'abc:%s-%s-%s' % (a['cls'], b['cls'], c['cls'])]
    if route == 'native' and (pyeq_differs(a, b) or pyeq_differs(b, c)
                              or pyeq_differs(a, c)):
        tags.append('native:pyeq-differs')
    ctx.fail('C09/%s/trans/%s~%s~%s' % (route, a['id'], b['id'], c['id']),
             tags, {'kind': 'trans', 'route': route, 'a': a['id'],
                    'b': b['id'], 'c': c['id']},
             'a<b and b<c imply a<c', 'a<b=T b<c=T a<c=%s'
             % ('?' if ac is None else 'TF'[not ac]), True)


def run_route(route, tier, ctx):
    left, right = values_for(route, tier)
    table = {}
    for a, b in itertools.product(left, right):
        blank = a['cls'] == 'blank' or b['cls'] == 'blank'
        for op in ref.OPS:
            if blank and ref.holds(op, abstract(a), abstract(b)) is None:
                eq = ref.holds('eq', abstract(a), abstract(b))
                if op == 'ne' and eq is not None:
                    # "a<>b equals not(a=b)" binds blanks as well
                    obs = observe(route, op, a, b)
                    key = point_key(route, op, a, b)
                    if obs == show_bool(not eq):
                        ctx.ok(key, obs, True)
                    else:
                        ctx.fail(key, pair_tags(route, a, b) + [
                            'op:ne', 'law:ne-is-not-eq', 'operand:blank'],
                            {'kind': 'point', 'route': route, 'op': op,
                             'a': a['id'], 'b': b['id']},
                            show_bool(not eq), obs, True)
                    continue
                ctx.skip('blank-ordering-unspecified' if op != 'eq'
                         else 'blank-eq-unlisted-value')
                continue
            obs = observe(route, op, a, b)
            table[(op, a['id'], b['id'])] = obs
            judge_point(route, op, a, b, obs, ctx)
    # the laws need both operand orders: values usable on both sides
    rids = set(v['id'] for v in right)
    both = [v for v in left if v['id'] in rids and v['cls'] != 'blank']
    for a, b in itertools.product(both, repeat=2):
        judge_pair(route, a, b,
                   {o: table[(o, a['id'], b['id'])] for o in ref.OPS},
                   table[('gt', b['id'], a['id'])], ctx)
    lt = {(a['id'], b['id']): as_bool(table[('lt', a['id'], b['id'])])
          for a, b in itertools.product(both, repeat=2)}
    n = prem = 0
    for a, b in itertools.product(both, repeat=2):
        ab = lt[(a['id'], b['id'])]
        if ab is not True:
            n += len(both)
            continue
        for c in both:
            n += 1
            bc = lt[(b['id'], c['id'])]
            if bc is True:
                prem += 1
                judge_triple(route, a, b, c, ab, bc, lt[(a['id'], c['id'])],
                             ctx)
    ctx.count('transitivity_triples', n)
    ctx.count('transitivity_premise_true', prem)
    ctx.sample({'route': route, 'values_left': len(left),
                'values_right': len(right), 'law_values': len(both),
                'example': point_key(route, 'lt', left[0], right[-2])})


def run_cells_seq(tier, op, ctx):
    """Route 'cells-seq': one model and one evaluator per left operand; the
    right operand cell takes every value in turn, neighbours in the sequence
    being values that Python finds equal (1, TRUE, 1.0 ...)."""
    def pykey(v):
        n = native(v)
        try:
            return (0, float(n), v['cls'], v['id'])
        except (TypeError, ValueError):
            return (1, 0.0, v['cls'], v['id'])
    alph = [v for v in ALPHABET[tier] if v['cls'] != 'blank']
    seq = sorted(alph, key=pykey)
    for a in alph:
        try:
            model = lib.compile_dict({AT: '=A1%sB1' % ref.SYMBOL[op]})
            ev = lib.Evaluator(model)
            ev.set_cell_value(CELL_A, native(a))
        except Exception:  # noqa: BLE001
            continue
        for k, b in enumerate(seq + seq[::-1]):
            setter = ev.set_cell_value if k % 2 else model.set_cell_value
            lib.observe(setter, CELL_B, native(b))
            obs = lib.observe(ev.evaluate, AT)
            judge_point('cells-seq', op, a, b, obs, ctx)
        lib.clear_caches()


def plan(tier):
    return [{'route': r, 'tier': tier} for r in ROUTES[tier]] + [
        {'route': 'cells-seq', 'tier': tier, 'op': op} for op in ref.OPS]


def run_shard(shard, ctx):
    if shard['route'] == 'cells-seq':
        run_cells_seq(shard['tier'], shard['op'], ctx)
        return
    run_route(shard['route'], shard['tier'], ctx)


def replay(inputs, ctx):
    route = inputs['route']
    a, b = BY_ID[inputs['a']], BY_ID[inputs['b']]
    if inputs['kind'] == 'point':
        op = inputs['op']
        eq = ref.holds('eq', abstract(a), abstract(b))
        if op == 'ne' and ref.holds(op, abstract(a), abstract(b)) is None \
                and eq is not None:
            obs = observe(route, op, a, b)
            ctx.check(point_key(route, op, a, b), obs, show_bool(not eq),
                      pair_tags(route, a, b) + ['op:ne', 'law:ne-is-not-eq',
                                                'operand:blank'],
                      dict(inputs), True)
        else:
            judge_point(route, op, a, b, observe(route, op, a, b), ctx)
    elif inputs['kind'] == 'pair':
        judge_pair(route, a, b,
                   {o: observe(route, o, a, b) for o in ref.OPS},
                   observe(route, 'gt', b, a), ctx)
    else:
        c = BY_ID[inputs['c']]
        judge_triple(route, a, b, c,
                     as_bool(observe(route, 'lt', a, b)),
                     as_bool(observe(route, 'lt', b, c)),
                     as_bool(observe(route, 'lt', a, c)), ctx)


def selftest():
    ref.selftest()
    assert len(QUICK) == 52 and len(ALPHABET['thorough']) == 68
    ids = [v['id'] for v in ALPHABET['thorough']]
    assert len(ids) == len(set(ids))
    texts = [v['v'] for v in ALPHABET['thorough'] if v['cls'] == 'text']
    # upper- and lower-case folding induce the same equality on the alphabet
    # (for the texts the reference judges at all)
    for s, t in itertools.product(texts, repeat=2):
        if ref.stable_fold(s) and ref.stable_fold(t):
            assert (s.upper() == t.upper()) == (s.lower() == t.lower()), (s, t)
    # the date serials lie strictly between / on the chosen numbers
    assert abstract(BY_ID['d:2020-01-01']) == ('date', 43831)
    assert abstract(BY_ID['d:2020-01-02']) == ('date', 43832)
    assert abstract(BY_ID['d:1900-03-01']) == ('date', 61)
    assert literal(BY_ID['f1e10']) == '10000000000.0'
    assert literal(BY_ID['f1e-10']) == '1E-10'
    assert literal(BY_ID['i-2']) == '-2' and literal(BY_ID['t:']) == '""'
    assert literal(BY_ID['blank']) is None
    assert literal(BY_ID['d:2020-01-01']) is None
    assert pyeq_differs(BY_ID['b:TRUE'], BY_ID['i1'])
    assert pyeq_differs(BY_ID['t:a'], BY_ID['t:A'])
    assert pyeq_differs(BY_ID['blank'], BY_ID['i0'])
    assert not pyeq_differs(BY_ID['i1'], BY_ID['f1.0'])


TECHNIQUE = ('bounded-exhaustive enumeration of ordered pairs of a value '
             'alphabet x 6 operators x call/formula routes on the real '
             'library, against a reference rank, plus the order laws '
             '(trichotomy, consistency, converse, transitivity over all '
             'triples) evaluated on the observed relation')
LEVEL_TEXT = ('All ordered pairs of 52 (thorough: 68) representative values '
              '- ints, floats, equal int/float pairs, dates with serials '
              'between the numbers, empty / numeric-looking / boolean-looking '
              '/ mixed-case / prefix texts, a non-ASCII text, both logicals '
              'and blank - are compared by each of the six operators through '
              'direct OP_* calls (typed and native operands) and through '
              'compiled formulas (operand cells, literals, mixed); every '
              'result is compared with an independent reference order and '
              'the order laws are checked on the observed relation for all '
              'pairs and all triples.')
LEVEL_NOTE = ('Trusted: the reference order (xlmc/ref/order.py, self-tested) '
              'and whole-day date serials.  Not covered: values outside the '
              'alphabet, wildcard matching, ordering against a blank and the '
              'collation of non-alphanumeric texts (not fixed by the '
              'statement; judged by the laws only), dates with a time part.')
