"""C05 - evaluation is deterministic, idempotent and order-independent.

Engine H over evaluation schedules.  For each of 17 small acyclic models:
  seq    every sequence (with repetition) of evaluate(cell) up to a length
         bound by ONE evaluator, on a fresh real model;
  multi  every sequence of (evaluator, cell) up to a length bound with three
         evaluators over the same model (two created up front, one created
         lazily at its first use, i.e. after the model has been written to,
         and with its own namespace in which SUM and COUNTA are overridden);
  procs  every cell alone in its own fresh interpreter, then all cells in
         forward and in reverse order in one fresh interpreter each: the
         values must agree (process-wide caches);
  heap   periodic schedules repeated n times: the number of live gc-tracked
         objects and the traced heap size at the ends of periods
         p, 2p, 4p, ... must not grow (a closed loop in the state space must
         return to the same abstract heap state).

Oracle scope
  * the value returned by the LAST evaluate of each schedule equals the value
    of that cell in a fresh model evaluated alone (= reference arithmetic);
  * after each schedule: constants, formula texts, defined names and the set
    of cell addresses equal the initial snapshot;
  * heap: live objects equal at consecutive doublings, traced bytes within
    64 KiB (allocator arenas).
Not enforced: equality of the whole object graph after repetition (a counter
or statistics field would be legitimate).
"""
import gc
import itertools
import tracemalloc

from .. import lib
from ..gen import models

PROPERTY = 'C05'
LEVEL = 'model_checking'
ENGINE = 'xlmc-H'
RULE = ('all evaluate() schedules up to a length bound on 17 models, by one '
        'evaluator (seq) and by three evaluators sharing the model (multi), '
        'executed on fresh real models; plus heap-fixpoint runs of periodic '
        'schedules; non-trivial = the schedule evaluates a formula cell after '
        'at least one other evaluation (an order/repetition effect would be '
        'observable)')
SEQ_LEN = {'quick': 4, 'thorough': 5}
MULTI_LEN = {'quick': 3, 'thorough': 4}
HEAP_N = {'quick': 2048, 'thorough': 32768}
BOUNDS = {t: {'seq_len': SEQ_LEN[t], 'multi_len': MULTI_LEN[t],
              'heap_evaluations_per_schedule': HEAP_N[t]}
          for t in ('quick', 'thorough')}
ASSUMPTIONS = [
    'volatile functions are excluded (none occurs in the models)',
    'heap observation: gc.get_objects() and tracemalloc inside the worker',
]
TECHNIQUE = ('exhaustive enumeration of evaluation schedules (1 and 3 '
             'evaluators) on the real implementation against fresh-model '
             'values and an initial-snapshot invariant; heap fixpoint over '
             'periodic schedules')
LEVEL_TEXT = ('Every order, with repetitions, in which the cells of 17 '
              'dependency shapes can be evaluated up to the length bound - by '
              'one evaluator and interleaved over three evaluators - runs on '
              'the real library; each result is compared with the cell '
              'evaluated alone in a fresh model, the model inputs are '
              'snapshotted, and periodic schedules are run to a heap '
              'fixpoint.')
LEVEL_NOTE = ('Every schedule is an execution of the implementation. '
              '"Bounded independently of n" is decided as a fixpoint for n '
              'up to the stated bound, not for all n.  No preemptive thread '
              'interleavings (no thread-safety is claimed by the property).')


def snapshot(model):
    consts, formulas = {}, {}
    for addr, cell in model.cells.items():
        if cell.formula is None:
            consts[addr] = lib.norm(cell.value)
        else:
            formulas[addr] = cell.formula.formula
    names = {}
    for n, d in model.defined_names.items():
        names[n] = getattr(d, 'address', None) if not isinstance(
            getattr(d, 'address', None), list) else repr(d.address)
    text = repr((sorted(consts.items()), sorted(formulas.items()),
                 sorted(names.items(), key=repr),
                 sorted(model.cells), sorted(model.formulae)))
    import hashlib
    return 'snap:' + hashlib.sha1(text.encode()).hexdigest()[:12]


_REF = {}


def ref_values(spec):
    if spec.name not in _REF:
        if spec.differential:
            vals = {}
            for a in spec.eval_cells:
                m = models.build(spec, lib)
                vals[a] = lib.observe(lib.Evaluator(m).evaluate, a)
                lib.clear_caches()
            _REF[spec.name] = vals
        else:
            r = spec.reference(spec.initial_inputs())
            _REF[spec.name] = {a: models.obs(v, lib) for a, v in r.items()}
    return _REF[spec.name]


def custom_namespace():
    """The namespace of the third evaluator: SUM and COUNTA answer 1000 more
    than the built-ins.  Evaluators over one model must not share function
    bindings (each value is the one its own namespace defines)."""
    ns = lib.FUNCTIONS.copy()

    def wrap(base):
        def plus1000(*args):
            r = base(*args)
            return r if isinstance(r, lib.ExcelError) else r + 1000
        return plus1000
    for name in ('SUM', 'COUNTA'):
        ns[name] = wrap(lib.FUNCTIONS[name])
    return ns


_REF3 = {}


def ref_values_custom(spec, cell):
    """Value of ``cell`` for a fresh model and a fresh evaluator with the
    custom namespace, evaluated alone."""
    k = (spec.name, cell)
    if k not in _REF3:
        m = models.build(spec, lib)
        _REF3[k] = lib.observe(
            lib.Evaluator(m, namespace=custom_namespace()).evaluate, cell)
        lib.clear_caches()
    return _REF3[k]


def short(addr):
    return addr.replace('Sheet', 'S')


def environment():
    """Process-wide settings an evaluation has no business changing (the
    next evaluation - of any model, by any evaluator - runs under them)."""
    import decimal
    import gc
    import sys
    import numpy
    dc = decimal.getcontext()
    return 'env:gc=%s numpy=%s recursion=%d decimal=%d/%s' % (
        gc.isenabled(), sorted(numpy.geterr().items()),
        sys.getrecursionlimit(), dc.prec, dc.rounding)


def init_worker(tier):
    # numpy warns about the overflows of the 'overflow' model on stderr
    import warnings
    warnings.simplefilter('ignore', RuntimeWarning)


def run_seq(spec, seq, ctx):
    model = models.build(spec, lib)
    env0 = environment()
    snap0 = snapshot(model)
    ev = lib.Evaluator(model)
    got = None
    for c in seq:
        got = lib.observe(ev.evaluate, c)
    key = 'C05/%s/seq/%s' % (spec.name, ','.join(short(c) for c in seq))
    inputs = {'kind': 'seq', 'model': spec.name, 'seq': list(seq)}
    last = seq[-1]
    nontriv = len(seq) > 1 and last in spec.formulas
    want = ref_values(spec)[last]
    if models.agrees(got, want):
        ctx.ok(key + '#value', got, nontriv)
    else:
        ctx.fail(key + '#value', ['oracle:fresh-value'], inputs, want, got,
                 nontriv)
    ctx.check(key + '#snapshot', snapshot(model), snap0,
              ['oracle:inputs-unchanged'], inputs, False)
    env1 = environment()
    if env1 != env0:
        ctx.fail(key + '#environment', ['oracle:process-settings-unchanged'],
                 inputs, env0, env1, True)
        restore_environment()
    ctx.count('transitions')
    ctx.count('states')
    lib.clear_caches()


def run_reload(spec, ctx):
    """The model object is loaded anew in place (from its own persisted
    state): the evaluator that was made for it before is an evaluator over
    the same model like any other."""
    import os
    import tempfile
    source = models.build(spec, lib)
    # the object that is loaded into held another model before, and its
    # evaluator has worked on that
    model = lib.compile_dict({'Sheet1!A1': 1, 'Sheet1!A2': 2,
                              'Other!Z9': '=SUM(Sheet1!A1:A2)+1'})
    old = lib.Evaluator(model)
    lib.observe(old.evaluate, 'Other!Z9')
    inputs = {'kind': 'reload', 'model': spec.name}
    with tempfile.TemporaryDirectory(prefix='xlmc_c05_') as tmp:
        path = os.path.join(tmp, 'm.json')
        w = lib.observe(source.persist_to_json_file, path)
        r = lib.observe(model.construct_from_json_file, path, True)
    if (w, r) != ('blank', 'blank'):
        ctx.skip('model-does-not-round-trip (C12)')
        return
    new = lib.Evaluator(model)
    want = ref_values(spec)
    for c in spec.eval_cells:
        a = lib.observe(old.evaluate, c)
        b = lib.observe(new.evaluate, c)
        key = 'C05/%s/reload/%s' % (spec.name, short(c))
        ctx.check(key + '#old-vs-new', a, b,
                  ['oracle:other-evaluator', 'history:model-reloaded'],
                  inputs, c in spec.formulas)
        if models.agrees(b, want[c]):
            ctx.ok(key + '#value', b, c in spec.formulas)
        else:
            ctx.fail(key + '#value', ['oracle:fresh-value',
                                      'history:model-reloaded'], inputs,
                     want[c], b, c in spec.formulas)
    ctx.count('transitions', 2 * len(spec.eval_cells))
    ctx.count('states')
    lib.clear_caches()


def restore_environment():
    """(harness) undo what a mutated library left behind, so that one leak
    is one report and not one per later schedule"""
    import gc
    import numpy
    gc.enable()
    numpy.seterr(divide='warn', over='warn', under='ignore', invalid='warn')


def run_multi(spec, seq, ctx):
    """seq: list of (evaluator index 0..2, cell)."""
    model = models.build(spec, lib)
    snap0 = snapshot(model)
    evs = [lib.Evaluator(model), lib.Evaluator(model), None]
    got = None
    for e, c in seq:
        if evs[e] is None:
            evs[e] = lib.Evaluator(model, namespace=custom_namespace())
        got = lib.observe(evs[e].evaluate, c)
    key = 'C05/%s/multi/%s' % (spec.name, ','.join(
        'E%d:%s' % (e + 1, short(c)) for e, c in seq))
    inputs = {'kind': 'multi', 'model': spec.name,
              'seq': [[e, c] for e, c in seq]}
    last = seq[-1][1]
    nontriv = (len(seq) > 1 and last in spec.formulas and
               len({e for e, _ in seq}) > 1)
    want = ref_values(spec)[last] if seq[-1][0] < 2 else \
        ref_values_custom(spec, last)
    mtags = ['oracle:fresh-value', 'evaluators:several',
             'namespace:' + ('default' if seq[-1][0] < 2 else 'custom')]
    if models.agrees(got, want):
        ctx.ok(key + '#value', got, nontriv)
    else:
        ctx.fail(key + '#value', mtags, inputs, want, got, nontriv)
    ctx.check(key + '#snapshot', snapshot(model), snap0,
              ['oracle:inputs-unchanged', 'evaluators:several'], inputs,
              False)
    ctx.count('transitions')
    ctx.count('states')
    lib.clear_caches()


def run_handover(spec, ctx):
    """Two evaluators over one model, an input changed between their turns
    (by the other evaluator or on the model itself): both, and a third one
    created afterwards, obtain the same value for every cell - the value of
    the model as it now stands."""
    cells = spec.eval_cells
    for c1 in cells:
        for inp in spec.inputs:
            for v in spec.values:
                if v == spec.cells.get(inp):
                    continue
                for route in ('other-evaluator', 'model'):
                    model = models.build(spec, lib)
                    e1, e2 = lib.Evaluator(model), lib.Evaluator(model)
                    lib.observe(e1.evaluate, c1)
                    if route == 'model':
                        model.set_cell_value(inp, v)
                    else:
                        e2.set_cell_value(inp, v)
                    want = None
                    if not spec.differential:
                        now = dict(spec.initial_inputs())
                        now[inp] = v
                        want = {a: models.obs(x, lib) for a, x in
                                spec.reference(now).items()}
                    for c2 in cells:
                        if c2 not in spec.formulas:
                            continue
                        g1 = lib.observe(e1.evaluate, c2)
                        g2 = lib.observe(e2.evaluate, c2)
                        g3 = lib.observe(lib.Evaluator(model).evaluate, c2)
                        key = 'C05/%s/handover/%s/%s:=%r/%s/%s' % (
                            spec.name, short(c1), short(inp), v, route,
                            short(c2))
                        inputs = {'kind': 'handover', 'model': spec.name}
                        w = want[c2] if want else g3
                        got = 'E1=%s E2=%s new=%s' % (g1, g2, g3)
                        ok = all(models.agrees(g, w) for g in (g1, g2, g3))
                        if ok:
                            ctx.ok(key, g1, True)
                        else:
                            ctx.fail(key, ['oracle:same-value-every-evaluator',
                                           'evaluators:several',
                                           'route:' + route], inputs,
                                     'E1=%s E2=%s new=%s' % (w, w, w), got,
                                     True)
                        ctx.count('transitions')
                    ctx.count('states')
                    lib.clear_caches()


def run_deepfail(ctx):
    """An evaluation that fails because the chain of cells is deeper than the
    interpreter's stack (with and without a cycle) is an evaluation like any
    other: what the model and later evaluations - by this or another
    evaluator - yield does not depend on it."""
    import sys
    old = sys.getrecursionlimit()
    sys.setrecursionlimit(1000)            # the interpreter's default
    try:
        for closing in ('acyclic', 'cycle'):
            cells = {'Sheet1!E1': 1, 'Sheet1!F1': 2, 'Sheet1!E2': 3,
                     'Sheet1!F2': 4, 'Sheet1!G1': '=SUM(E1:F2)',
                     'Sheet1!G2': '=COUNT(E1:F2)', 'Sheet1!G3': '=E2*10'}
            n = 400
            for i in range(1, n):
                cells['Sheet1!C%d' % i] = '=C%d+1' % (i + 1)
            cells['Sheet1!C%d' % n] = '=SUM(E1:F2)+%s' % (
                'C1' if closing == 'cycle' else '0')
            want = {'Sheet1!G1': 'num:10.0', 'Sheet1!G2': 'num:4.0',
                    'Sheet1!G3': 'num:30.0'}
            probes = sorted(want)
            for seq in (['D'], ['D', 'D'], ['G', 'D'], ['D', 'G', 'D']):
                model = lib.compile_dict(cells)
                snap0 = snapshot(model)
                ev = lib.Evaluator(model)
                for step in seq:
                    if step == 'D':
                        o = lib.observe(ev.evaluate, 'Sheet1!C1')
                        if not o.startswith('raise:'):
                            ctx.skip('deep-chain-evaluates-here')
                    else:
                        lib.observe(ev.evaluate, 'Sheet1!G1')
                key0 = 'C05/deepfail/%s/%s' % (closing, ''.join(seq))
                inputs = {'kind': 'deepfail', 'model': 'chain'}
                tags = ['family:deep-failure', 'closing:' + closing]
                for which, e in (('same', ev), ('new', lib.Evaluator(model))):
                    for a in probes:
                        ctx.check('%s/%s/%s' % (key0, which, a[-2:]),
                                  lib.observe(e.evaluate, a), want[a],
                                  tags + ['evaluator:' + which], inputs, True)
                ctx.check(key0 + '/snapshot', snapshot(model), snap0,
                          tags + ['oracle:inputs-unchanged'], inputs, False)
                ctx.check(key0 + '/ranges', repr(sorted(
                    (k, v.cells) for k, v in model.ranges.items())), repr(
                    [('Sheet1!E1:F2', [['Sheet1!E1', 'Sheet1!F1'],
                                       ['Sheet1!E2', 'Sheet1!F2']])]),
                    tags + ['oracle:ranges-unchanged'], inputs, False)
                ctx.count('transitions')
                ctx.count('states')
                lib.clear_caches()
    finally:
        sys.setrecursionlimit(old)


HEAP_SCHEDULES = ('round-robin', 'single-cell', 'two-evaluators',
                  'fresh-evaluator-per-period')


def heap_run(spec, schedule, n):
    """Returns [(evaluations, live objects, traced bytes)] at doublings."""
    model = models.build(spec, lib)
    cells = list(spec.eval_cells)
    evs = [lib.Evaluator(model), lib.Evaluator(model)]
    top = spec.formulas[-1]

    def ev_(e, c):
        # the heap run measures memory only; what a cell evaluates to (or
        # whether it raises) is judged by the seq / multi families
        try:
            e.evaluate(c)
        except Exception:  # noqa: BLE001
            pass

    def period(k):
        if schedule == 'round-robin':
            for c in cells:
                ev_(evs[0], c)
            return len(cells)
        if schedule == 'single-cell':
            ev_(evs[0], top)
            return 1
        if schedule == 'two-evaluators':
            for i, c in enumerate(cells):
                ev_(evs[(i + k) % 2], c)
            return len(cells)
        if schedule == 'fresh-evaluator-per-period':
            e = lib.Evaluator(model)
            for c in cells:
                ev_(e, c)
            return len(cells)
        raise AssertionError(schedule)

    # warm-up (lazy imports, caches of pandas/re, interned values)
    done = 0
    k = 0
    while done < 64:
        done += period(k)
        k += 1
    marks = []
    nxt = 128
    gc.collect()
    tracemalloc.start()
    try:
        while done < n:
            done += period(k)
            k += 1
            if done >= nxt:
                gc.collect()
                marks.append((done, len(gc.get_objects()),
                              tracemalloc.get_traced_memory()[0]))
                nxt *= 2
    finally:
        tracemalloc.stop()
    return marks


SLACK_BYTES = 64 * 1024


def run_heap(spec, schedule, n, ctx):
    marks = heap_run(spec, schedule, n)
    key = 'C05/%s/heap/%s/n=%d' % (spec.name, schedule, n)
    inputs = {'kind': 'heap', 'model': spec.name, 'schedule': schedule,
              'n': n}
    # growth between the last doublings
    (n1, o1, b1), (n2, o2, b2) = marks[-2], marks[-1]
    grew_objs = o2 - o1
    grew_bytes = b2 - b1
    ok = grew_objs <= 0 and grew_bytes <= SLACK_BYTES
    got = 'heap:stable' if ok else 'heap:grows'
    note = 'marks=%r' % (marks,)
    if ok:
        ctx.ok(key, got, True)
    else:
        ctx.fail(key, ['oracle:heap-fixpoint', 'schedule:' + schedule], inputs,
                 'heap:stable', got, True, note)
    ctx.count('transitions', n)
    ctx.count('states')
    ctx.sample({'model': spec.name, 'schedule': schedule, 'marks': marks})


def fresh_process(spec, cells):
    """Observations of evaluating ``cells`` in order in a fresh interpreter."""
    import json
    import os
    import subprocess
    import sys
    p = subprocess.run(
        [sys.executable, '-m', 'xlmc.checks.c05_proc', spec.name,
         ','.join(cells)],
        cwd=os.path.dirname(os.path.dirname(os.path.dirname(
            os.path.abspath(__file__)))),
        stdout=subprocess.PIPE, stderr=subprocess.DEVNULL, text=True,
        timeout=300)
    if p.returncode != 0:
        return None
    return dict(json.loads(p.stdout.strip().splitlines()[-1]))


def run_procs(spec, ctx):
    """Each cell alone in its own fresh process is the reference; the same
    cells in forward and in reverse order, each order in one fresh process,
    must give the same values: catches caches that live in the process (not
    in the model or the evaluator) and depend on what was evaluated first."""
    cells = list(spec.eval_cells)
    inputs = {'kind': 'procs', 'model': spec.name}
    alone = {}
    # (at most four formula cells get their own interpreter: an interpreter
    # start costs more than the whole rest of a model's schedules)
    judged = [c for c in cells if c in spec.formulas][-4:]
    for c in judged:
        r = fresh_process(spec, [c])
        if r is None:
            from .. import runner
            raise runner.HarnessError('c05_proc failed for %s %s'
                                      % (spec.name, c))
        alone[c] = r[c]
    for oname, order in (('forward', cells), ('reverse', cells[::-1])):
        r = fresh_process(spec, order)
        for c in judged:
            ctx.check('C05/%s/procs/%s/%s' % (spec.name, oname, short(c)),
                      r[c] if r else 'process-failed', alone[c],
                      ['oracle:fresh-process', 'order:' + oname], inputs,
                      c in spec.formulas)
        ctx.count('transitions', len(cells))
        ctx.count('states')


def plan(tier):
    shards = [{'model': 'chain', 'kind': 'deepfail', 'weight': 5}]
    for f in models.ALL_C05:
        spec = f()
        cells = spec.eval_cells
        shards.append({'model': spec.name, 'kind': 'procs', 'weight': 5})
        shards.append({'model': spec.name, 'kind': 'reload'})
        if spec.inputs and not spec.names:
            shards.append({'model': spec.name, 'kind': 'handover',
                           'weight': 3})
        for first in range(len(cells)):
            shards.append({'model': spec.name, 'kind': 'seq', 'first': first,
                           'len': SEQ_LEN[tier]})
        mlen = MULTI_LEN[tier]
        if (spec.names or spec.name == 'longrange') and tier == 'quick':
            mlen = 2      # slow to build (xlsx) / 110 evaluations per evaluate
        for e in range(3):
            for first in range(len(cells)):
                shards.append({'model': spec.name, 'kind': 'multi',
                               'first': [e, first], 'len': mlen})
        for sch in HEAP_SCHEDULES:
            n = HEAP_N[tier]
            if spec.name == 'longrange':       # 110 evaluations per evaluate
                n //= 8
            shards.append({'model': spec.name, 'kind': 'heap',
                           'schedule': sch, 'n': n, 'weight': 10})
    return shards


def run_shard(shard, ctx):
    spec = models.by_name(shard['model'])
    cells = spec.eval_cells
    if shard['kind'] == 'deepfail':
        run_deepfail(ctx)
    elif shard['kind'] == 'procs':
        run_procs(spec, ctx)
    elif shard['kind'] == 'reload':
        run_reload(spec, ctx)
    elif shard['kind'] == 'handover':
        run_handover(spec, ctx)
    elif shard['kind'] == 'seq':
        first = cells[shard['first']]
        for n in range(0, shard['len']):
            for rest in itertools.product(cells, repeat=n):
                run_seq(spec, [first] + list(rest), ctx)
    elif shard['kind'] == 'multi':
        ops = [(e, c) for e in range(3) for c in cells]
        first = (shard['first'][0], cells[shard['first'][1]])
        for n in range(0, shard['len']):
            for rest in itertools.product(ops, repeat=n):
                run_multi(spec, [first] + list(rest), ctx)
    else:
        run_heap(spec, shard['schedule'], shard['n'], ctx)


def replay(inputs, ctx):
    spec = models.by_name(inputs['model'])
    if inputs['kind'] == 'deepfail':
        run_deepfail(ctx)
    elif inputs['kind'] == 'procs':
        run_procs(spec, ctx)
    elif inputs['kind'] == 'reload':
        run_reload(spec, ctx)
    elif inputs['kind'] == 'handover':
        run_handover(spec, ctx)
    elif inputs['kind'] == 'seq':
        run_seq(spec, inputs['seq'], ctx)
    elif inputs['kind'] == 'multi':
        run_multi(spec, [tuple(x) for x in inputs['seq']], ctx)
    else:
        run_heap(spec, inputs['schedule'], inputs['n'], ctx)


def extra_coverage(tier, counters):
    return {'states_note': 'stateless search: every schedule (history) is '
            'one state; transitions additionally counts the evaluations of '
            'the heap runs'}
