"""C08 - functions coerce arguments the Excel way, however the value is spelt.

Oracle scope
  enforced : metamorphic - for every registered function of the hand-written
             function table, every scalar numeric / date / text / logical
             parameter position and every sampled value, each spelling of
             the value (int, float, numpy scalar, Number / Text / Boolean /
             Blank object, decimal and scientific text, TRUE/FALSE for 1/0,
             blank for 0 or ""; in formulas: literal, cell, text literal,
             text cell, blank cell) gives the observation of the canonical
             spelling; text that is not numeric in a numeric position gives
             #VALUE!; + - * / unary minus and % over pairs of spellings equal
             the reference arithmetic on the denoted numbers ("3"+1=4,
             TRUE+1=2, blank+1=1) and & joins the text forms; a formula names
             a function in any letter case and with an _xlfn. prefix; a
             function registered through xl.register + xl.validate_args is
             visible to every Evaluator created afterwards and coerces like a
             built-in (all histories of register / create / evaluate up to a
             length bound).
  refused  : groups whose canonical call itself raises (domain errors belong
             to C16-C20); booleans given to the Analysis-ToolPak base
             conversions (Excel rejects them, C19); type-preserving positions
             (lookup values, criteria, IF branches, CHOOSE values); variadic
             and array parameters (C14/C15); text in notations the property
             does not fix (" 3 ", "50%", date text); text forms that need more
             than 15 digits or an exponent; an evaluator created before the
             registration, or an unknown function name (property silent).
"""
import itertools

from .. import lib
from ..gen import fcall
from ..gen import functable as ft
from ..ref import coerce as ref

PROPERTY = 'C08'
LEVEL = 'exploration'
RULE = ('for every function row x scalar parameter position of kind number / '
        'date / text / logical / digit-string x sampled value x spelling '
        '(direct call and formula): one evaluation compared with the '
        'canonical spelling of the same call; 5 non-numeric texts per numeric '
        'position; 7 operators x all ordered pairs of 13 spellings against '
        'reference arithmetic; every function name in 7 (thorough: up to 16) '
        'case / prefix variants; all histories over {register, create '
        'evaluator, evaluate} up to length 5 (thorough 6, plus compile; '
        'thorough also spells two positions at once).  A '
        'case is non-trivial when its spelling is not the canonical one (a '
        'conversion has to happen) and the canonical call returned a value or '
        'an Excel error')
_VALUES = {'numbers': [0, 1, 2, 0.5, -3, 10, 1.5, 100, -1, 1000],
           'texts': ['ab', '1', '', '0.5', 'TRUE', '-3', 'FALSE', '12'],
           'dates': ['2020-01-01', '2021-01-01', '2020-02-15', '1999-12-31'],
           'name_variants': '6, plus all case patterns for names up to 4 '
                            'letters'}
BOUNDS = {
    'quick': dict(_VALUES, history_length=5, history_alphabet='R C E',
                  pairs_of_positions='not run'),
    'thorough': dict(_VALUES, history_length=6, history_alphabet='R C E M',
                     pairs_of_positions='every pair of judged positions x 3x3 '
                     'values x all pairs of non-canonical spellings, direct '
                     'and formula'),
}
ASSUMPTIONS = [
    'function table xlmc/gen/functable.py (parameter kinds and a valid '
    'baseline call per registered function); a registered function without a '
    'row is a harness error',
    'reference coercions xlmc/ref/coerce.py (numeric text, TRUE=1, blank=0, '
    'text forms), self-tested against the literal facts of the property',
    'the canonical spelling (Python int/float, str, bool; in formulas a '
    'decimal literal) is trusted as the meaning of the call; its value is '
    'checked by C16-C20, not here',
]
TECHNIQUE = ('bounded-exhaustive metamorphic testing over function x '
             'position x value x spelling, plus reference arithmetic for the '
             'operators and a small history exploration of user-function '
             'registration')
LEVEL_TEXT = ('For every registered function (fail-closed table), every '
              'scalar parameter position, every sampled value and every '
              'spelling of it - 14 direct-call carriers and 9 formula '
              'spellings - the real library is called and must answer as for '
              'the canonical spelling; the arithmetic operators and & are '
              'compared with reference arithmetic over all ordered pairs of '
              '13 spellings; function-name case / _xlfn. variants and all '
              'register / create / evaluate histories up to the length bound '
              'are executed.')
LEVEL_NOTE = ('Trusted: the function table and the canonical spelling.  Not '
              'covered: variadic and array parameters, values outside the '
              'sampled sets, type-preserving positions, cases the reference '
              'declines (skipped_out_of_scope).')

NUM_VALUES = (0, 1, 2, 0.5, -3)
NUM_VALUES_MORE = (10, 1.5, 100, -1, 1000)
TEXT_VALUES = ('ab', '1', '', '0.5', 'TRUE')
TEXT_VALUES_MORE = ('-3', 'FALSE', '12', '1500000')   # 7 digits: no exponent form
DATE_VALUES = ((2020, 1, 1), (2021, 1, 1))
DATE_VALUES_MORE = ((2020, 2, 15), (1999, 12, 31))
DIGIT_VALUES = ('101', '11')

COND_PARAMS = ('logical_test', 'logical')


def _names():
    from .. import runner
    try:
        return ft.classify(lib.FUNCTIONS)
    except ft.Unclassified as exc:
        raise runner.HarnessError(str(exc))


def skey(spec):
    if spec[0] == 'array':
        return '[..]'
    if len(spec) == 1:
        return spec[0]
    if spec[0] in ('datetime', 'DateTime'):
        return '%s:%04d-%02d-%02d' % ((spec[0],) + tuple(spec[1]))
    return '%s:%r' % (spec[0], spec[1])


def digit_spellings(s, direct):
    n = int(s)
    if direct:
        return [('str', 'text', ['str', s]), ('Text', 'text', ['Text', s]),
                ('int', 'native', ['int', n]),
                ('float', 'native', ['float', float(n)]),
                ('npint', 'numpy', ['npint', n]),
                ('Number-int', 'object', ['Number', n]),
                ('Number-float', 'object', ['Number', float(n)])]
    return [('lit-text', 'text', ['str', s], 'lit'),
            ('cell-text', 'text', ['str', s], 'cell'),
            ('lit-num', 'native', ['int', n], 'lit'),
            ('cell-num', 'native', ['int', n], 'cell')]


def position_plan(row, tier):
    """[(position, kind, [(value key, spellings(direct) , spellings(formula))])]
    for the positions of a function that C08 judges."""
    out = []
    more = True      # both tiers sample the larger value sets
    for i in ft.scalar_positions(row):
        kind = ft.kind_at(row, i)
        pname = row.params[i][0]
        vals = []
        if kind == 'n':
            for x in NUM_VALUES + (NUM_VALUES_MORE if more else ()):
                vals.append((repr(x), ref.number_spellings(x, True),
                             ref.number_spellings(x, False)))
        elif kind == 'd':
            for d in DATE_VALUES + (DATE_VALUES_MORE if more else ()):
                vals.append(('%04d-%02d-%02d' % d,
                             ref.date_spellings(d, True),
                             ref.date_spellings(d, False)))
        elif kind == 't':
            for s in TEXT_VALUES + (TEXT_VALUES_MORE if more else ()):
                vals.append((repr(s), ref.text_spellings(s, True),
                             ref.text_spellings(s, False)))
        elif kind == 'b' or (kind == 'x' and pname in COND_PARAMS):
            for b in (True, False):
                vals.append((repr(b), ref.bool_spellings(b, True),
                             ref.bool_spellings(b, False)))
        elif kind == 'g':
            for s in DIGIT_VALUES:
                vals.append((repr(s), digit_spellings(s, True),
                             digit_spellings(s, False)))
        else:
            continue          # a, c, x-branches: type-preserving positions
        out.append((i, kind, vals))
    return out


# ---- execution ---------------------------------------------------------------
def call_obs(name, specs):
    return lib.call(name, *[fcall.mat(s) for s in specs])


def formula_obs(name, specs, hows, spell_name=None):
    sh = fcall.Sheet()
    texts = [sh.arg(s, h) for s, h in zip(specs, hows)]
    formula = fcall.call_formula(spell_name or name, texts)
    return fcall.evaluate(sh, formula), formula, dict(sh.cells)


def crashed(obs):
    return obs.startswith(('raise:', 'timeout', 'compile-', 'unregistered:',
                           'other:'))


def run_fn_case(inp, ctx):
    """One spelling of one argument (or two) against the canonical call."""
    name = inp['fn']
    route = inp['route']
    rec = dict(inp)
    if route == 'call':
        canon = call_obs(name, inp['canon'])
        got = call_obs(name, inp['args'])
    else:
        canon, cf, _ = formula_obs(name, inp['canon'], inp['canon_hows'])
        got, formula, cells = formula_obs(name, inp['args'], inp['hows'])
        rec['formula'] = formula
        rec['cells'] = cells
        rec['canonical_formula'] = cf
    if crashed(canon):
        ctx.skip('canonical-call-raises (domain / unsupported, not C08)')
        return
    if canon.startswith('nonfinite:'):
        ctx.skip('canonical-call-nonfinite (C16)')
        return
    ctx.check(inp['key'], got, canon, inp['tags'], rec,
              nontrivial=not inp.get('is_canonical', False))


def run_nn_case(inp, ctx):
    name = inp['fn']
    rec = dict(inp)
    if inp['route'] == 'call':
        got = call_obs(name, inp['args'])
    else:
        got, formula, cells = formula_obs(name, inp['args'], inp['hows'])
        rec['formula'] = formula
        rec['cells'] = cells
    ctx.check(inp['key'], got, 'err:#VALUE!', inp['tags'], rec)


# ---- results too large for the spelling not to matter by accident ---------------
# whole numbers beyond 2^53 / 15 digits: the same double, the same text,
# whichever spelling the operand had
BIG_TEMPLATES = (
    ('mod-of-power', 3, 'MOD(POWER({x},40),10)'),
    ('mod-of-caret', 3, 'MOD({x}^40,10)'),
    ('plus-one-minus', 2, 'POWER({x},64)+1-POWER({x},64)'),
    ('caret-plus-one-minus', 2, '{x}^64+1-{x}^64'),
    ('text-of-power', 10, 'POWER({x},15)&""'),
    ('text-of-product', 1000, '{x}*{x}*{x}*{x}*{x}&""'),
    ('fact-product', 170, 'FACT({x})/FACT({x}-1)'),
    ('mod-of-product', 3, 'MOD(' + '*'.join(['{x}'] * 40) + ',10)'),
    ('sum-plus-one-minus', 3, '*'.join(['{x}'] * 40) + '+1-' +
     '*'.join(['{x}'] * 40)),
    ('difference', 9007199254740992, '({x}+1)-{x}'),
    ('text-of-whole', 1000000000000000, '{x}+0&""'),
    ('text-of-sum', 999999999999999, '{x}+1&""'),
)


def run_big_case(inp, ctx):
    def obs(spec, how):
        sh = fcall.Sheet()
        text = sh.arg(spec, how)
        formula = '=' + inp['template'].replace('{x}', text)
        return fcall.evaluate(sh, formula), formula, dict(sh.cells)
    canon, cf, _ = obs(inp['canon'], inp['canon_how'])
    got, formula, cells = obs(inp['spec'], inp['how'])
    rec = dict(inp, formula=formula, cells=cells, canonical_formula=cf)
    if crashed(canon) or canon.startswith('nonfinite:'):
        ctx.skip('canonical-call-raises (domain / unsupported, not C08)')
        return
    ctx.check(inp['key'], got, canon, inp['tags'], rec,
              nontrivial=not inp.get('is_canonical', False))


def gen_big(shard, tier):
    for tname, x, template in BIG_TEMPLATES:
        spellings = ref.number_spellings(x, False)
        for n, sp in enumerate(spellings):
            yield {'g': 'big', 'template': template, 'spec': sp[2],
                   'how': sp[3], 'canon': spellings[0][2],
                   'canon_how': spellings[0][3], 'is_canonical': n == 0,
                   'tags': ['big:' + tname, 'carrier:' + sp[1],
                            'spell:' + sp[0], 'route:formula',
                            'result:beyond-15-digits'],
                   'key': 'C08/big/%s/v=%r/spell=%s' % (tname, x, sp[0])}


OPSYM = {'OP_ADD': '+', 'OP_SUB': '-', 'OP_MUL': '*', 'OP_DIV': '/'}


def run_op_case(inp, ctx):
    op = inp['fn']
    args = inp['args']
    tv = [ref.typed(s) for s in args]
    try:
        if op == 'CONCAT':
            want = ref.concat(tv[0], tv[1])
        elif op == 'OP_NEG':
            want = ref.arith('NEG', tv[0])
        elif op == 'OP_PERCENT':
            want = ref.arith('PERCENT', tv[0])
        else:
            want = ref.arith(OPSYM[op], tv[0], tv[1])
    except ref.Unjudged as u:
        ctx.skip('reference-declines: %s' % u.args[0])
        return
    rec = dict(inp)
    if inp['route'] == 'call':
        got = call_obs(op, args)
    else:
        sh = fcall.Sheet()
        texts = [sh.arg(s, h) for s, h in zip(args, inp['hows'])]
        sym = ft.OPERATOR_SYMBOL[op]
        if op == 'OP_NEG':
            formula = '=-%s' % texts[0]
        elif op == 'OP_PERCENT':
            formula = '=%s%%' % texts[0]
        else:
            formula = '=%s%s%s' % (texts[0], sym, texts[1])
        got = fcall.evaluate(sh, formula)
        rec['formula'] = formula
        rec['cells'] = dict(sh.cells)
    nontriv = any(s[0] not in ('int', 'float') for s in args)
    if want.startswith('num:') and got.startswith('num:') and lib.close(
            lib.num_of(want), lib.num_of(got), rel=1e-12):
        ctx.ok(inp['key'], got, nontriv)
    else:
        ctx.check(inp['key'], got, want, inp['tags'], rec, nontriv)


def run_name_case(inp, ctx):
    name = inp['fn']
    row = ft.TABLE[name]
    specs = [fcall.native(v) for v in row.base]
    hows = ['lit'] * len(specs)
    canon, cf, _ = formula_obs(name, specs, hows)
    if crashed(canon):
        ctx.skip('canonical-call-raises (domain / unsupported, not C08)')
        return
    rec = dict(inp)
    if inp['variant'] == 'direct-call':
        got = call_obs(name, specs)
    else:
        got, formula, cells = formula_obs(name, specs, hows,
                                          spell_name=inp['variant'])
        rec['formula'] = formula
    rec['canonical_formula'] = cf
    ctx.check(inp['key'], got, canon, inp['tags'], rec)


# ---- user functions --------------------------------------------------------
USER_NAMES = ('ADDONE', 'SHOUT', 'ADD.ONE', 'TAG')  # Excel has dotted names too


def _user_functions():
    xl = lib.xl
    T = lib.func_xltypes

    @xl.validate_args
    def ADDONE(number: T.XlNumber) -> T.XlNumber:
        return number + 1

    @xl.validate_args
    def SHOUT(text: T.XlText) -> T.XlText:
        return str(text) + '!'
    @xl.validate_args
    def ADD_ONE(number: T.XlNumber) -> T.XlNumber:
        return number + 1
    @xl.validate_args
    def ADDONE2(number: T.XlNumber, step: T.XlNumber = 1) -> T.XlNumber:
        return number + step
    @xl.validate_args
    def TAG(value: T.XlNumber, scale: T.XlNumber = 1,
            suffix: T.XlText = '') -> T.XlText:
        return str(value * scale) + str(suffix)
    return {'ADDONE': ADDONE, 'SHOUT': SHOUT, 'ADD.ONE': ADD_ONE, 'TAG': TAG,
            # registered under the NAME ADDONE by history step S: the same
            # name with another parameter list
            'ADDONE/2': ADDONE2}


def _register(style, name, func):
    xl = lib.xl
    if style == 'decorator':
        func.__name__ = name
        xl.register()(func)
    elif style == 'named':
        func.__name__ = 'impl_' + name.lower()   # the given name must win
        xl.register(name)(func)
    elif style == 'method':
        xl.FUNCTIONS.register(func, name)
    else:
        raise AssertionError(style)


_BUILTIN = None


def _unregister_all():
    """Harness clean-up: drop everything that is not a built-in (whatever
    name a - possibly mutated - registration stored it under)."""
    global _BUILTIN
    if _BUILTIN is None:
        _BUILTIN = {n for n in lib.xl.FUNCTIONS if n not in USER_NAMES
                    and not n.lower().startswith('impl_')}
    for n in list(lib.xl.FUNCTIONS):
        if n not in _BUILTIN:
            del lib.xl.FUNCTIONS[n]


HIST_CELLS = {'Sheet1!A1': '=ADDONE("1")', 'Sheet1!A2': '=addone(TRUE)',
              'Sheet1!A3': '=_xlfn.ADDONE(B9)'}
HIST_WANT = {'Sheet1!A1': 'num:2.0', 'Sheet1!A2': 'num:2.0',
             'Sheet1!A3': 'num:1.0'}
# only the two-parameter version (history step S) can answer this one
HIST_CELL_V2 = ('Sheet1!A4', '=ADDONE(2,"3")', 'num:5.0')


def run_history_case(inp, ctx):
    """hist: string over R (register ADDONE), C (create Evaluator), E
    (evaluate the three cells with the newest evaluator), M (compile the
    model anew).  Judged: every E whose evaluator was created after a
    registration."""
    _unregister_all()
    try:
        funcs = _user_functions()
        cells = dict(HIST_CELLS)
        cells[HIST_CELL_V2[0]] = HIST_CELL_V2[1]
        model = lib.compile_dict(cells)
        # Evaluators may have been created earlier in the process: every
        # history starts after one (so that the outcome of a case does not
        # depend on what ran before it in the same interpreter).
        lib.Evaluator(model)
        registered = False
        ev = None
        ev_sees = False
        obs, wants = [], []
        judged = 0
        for step, op in enumerate(inp['hist']):
            if op == 'R':
                _register(inp['style'], 'ADDONE', funcs['ADDONE'])
                registered = 1
            elif op == 'S':
                _register(inp['style'], 'ADDONE', funcs['ADDONE/2'])
                registered = 2
            elif op == 'M':
                model = lib.compile_dict(cells)
                ev = None
            elif op == 'C':
                ev = lib.Evaluator(model)
                ev_sees = registered
            elif op == 'E':
                if ev is None:
                    continue
                for addr in sorted(HIST_CELLS):
                    o = lib.eval_addr(model, addr, ev)
                    if ev_sees:
                        obs.append('%d:%s=%s' % (step, addr[-2:], o))
                        wants.append('%d:%s=%s' % (step, addr[-2:],
                                                   HIST_WANT[addr]))
                        judged += 1
                if ev_sees == 2:
                    o = lib.eval_addr(model, HIST_CELL_V2[0], ev)
                    obs.append('%d:A4=%s' % (step, o))
                    wants.append('%d:A4=%s' % (step, HIST_CELL_V2[2]))
        if not judged:
            ctx.skip('history-without-judged-evaluate (evaluator older than '
                     'the registration: property silent)')
            return
        ctx.check(inp['key'], ' '.join(obs), ' '.join(wants), inp['tags'],
                  dict(inp))
    finally:
        _unregister_all()


# keyword calls of a user function with optional parameters of two kinds:
# (positional args, keyword args, expected text)
TAG_CALLS = (
    ((['str', '2'],), {'suffix': ['str', 'kg']}, 'text:2kg'),
    ((['int', 2],), {'suffix': ['str', '007']}, 'text:2007'),
    ((['int', 2],), {'suffix': ['int', 5]}, 'text:25'),
    ((['int', 2], ['str', '3']), {'suffix': ['str', 'x']}, 'text:6x'),
    ((['int', 2],), {'scale': ['str', '3']}, 'text:6'),
    ((['int', 2],), {'scale': ['bool', True], 'suffix': ['str', 'y']},
     'text:2y'),
    ((), {'value': ['str', '4'], 'suffix': ['str', 'z']}, 'text:4z'),
    ((['str', '2'], ['int', 1], ['str', 'kg']), {}, 'text:2kg'),
)


def run_kw_case(inp, ctx):
    _unregister_all()
    try:
        funcs = _user_functions()
        _register(inp['style'], 'TAG', funcs['TAG'])
        args, kw, want = TAG_CALLS[inp['i']]
        fn = lib.FUNCTIONS.get('TAG')
        got = 'unregistered:TAG' if fn is None else lib.observe(
            fn, *[fcall.mat(a) for a in args],
            **{k: fcall.mat(v) for k, v in kw.items()})
        ctx.check(inp['key'], got, want, inp['tags'], dict(inp))
    finally:
        _unregister_all()


def run_user_case(inp, ctx):
    """Coercion of a registered user function (direct and through a fresh
    evaluator created after the registration)."""
    _unregister_all()
    try:
        funcs = _user_functions()
        lib.Evaluator(lib.compile_dict({'Sheet1!A1': 1}))   # see histories
        for n in USER_NAMES:
            _register(inp['style'], n, funcs[n])
        name = inp['fn']
        rec = dict(inp)
        if inp['route'] == 'call':
            got = call_obs(name, inp['args'])
        else:
            got, formula, cells = formula_obs(
                name, inp['args'], inp['hows'],
                spell_name=inp.get('spell_name'))
            rec['formula'] = formula
            rec['cells'] = cells
        ctx.check(inp['key'], got, inp['want'], inp['tags'], rec)
    finally:
        _unregister_all()


RUN = {'big': run_big_case, 'fn': run_fn_case, 'nn': run_nn_case, 'op': run_op_case,
       'name': run_name_case, 'hist': run_history_case, 'kw': run_kw_case,
       'user': run_user_case}


def run_case(inp, ctx):
    RUN[inp['g']](inp, ctx)


# ---- generators ------------------------------------------------------------
def gen_fn(shard, tier):
    name = shard['name']
    row = ft.TABLE[name]
    base = [fcall.native(v) for v in row.base]
    atp = row.flags.get('atp')
    plan_ = position_plan(row, tier)
    for i, kind, vals in plan_:
        for vkey, direct, formula in vals:
            for route, spellings in (('call', direct), ('formula', formula)):
                canon = list(base)
                canon[i] = spellings[0][2]
                canon_hows = ['lit'] * len(base)
                if route == 'formula':
                    canon_hows[i] = spellings[0][3]
                for n, sp in enumerate(spellings):
                    label, family, spec = sp[0], sp[1], sp[2]
                    args = list(base)
                    args[i] = spec
                    hows = None
                    if route == 'formula':
                        hows = ['lit'] * len(base)
                        hows[i] = sp[3]
                    case = {
                        'g': 'fn', 'fn': name, 'route': route,
                        'args': args, 'hows': hows, 'canon': canon,
                        'canon_hows': canon_hows, 'is_canonical': n == 0,
                        'tags': ['fn:' + name, 'kind:' + kind,
                                 'carrier:' + family, 'spell:' + label,
                                 'spell:pos=%d' % i, 'route:' + route],
                        'key': 'C08/fn/%s/pos=%d(%s)/v=%s/spell=%s/route=%s'
                               % (name, i, row.params[i][0], vkey, label,
                                  route)}
                    if atp and family == 'bool':
                        case['skip'] = ('analysis-toolpak function rejects '
                                        'booleans (C19)')
                    yield case
    if tier == 'thorough' and len(plan_) >= 2:
        # two positions spelt at once (direct calls and formulas)
        for (i, k1, v1), (j, k2, v2) in itertools.combinations(plan_, 2):
            for (vk1, d1, f1), (vk2, d2, f2) in itertools.product(v1[:3],
                                                                  v2[:3]):
                for route, (p1, p2) in (('call', (d1, d2)),
                                        ('formula', (f1, f2))):
                    canon = list(base)
                    canon[i], canon[j] = p1[0][2], p2[0][2]
                    canon_hows = None
                    if route == 'formula':
                        canon_hows = ['lit'] * len(base)
                        canon_hows[i], canon_hows[j] = p1[0][3], p2[0][3]
                    for s1, s2 in itertools.product(p1, p2):
                        if s1 is p1[0] or s2 is p2[0]:
                            continue
                        if atp and 'bool' in (s1[1], s2[1]):
                            continue
                        args = list(base)
                        args[i], args[j] = s1[2], s2[2]
                        hows = None
                        if route == 'formula':
                            hows = ['lit'] * len(base)
                            hows[i], hows[j] = s1[3], s2[3]
                        yield {
                            'g': 'fn', 'fn': name, 'route': route,
                            'args': args, 'hows': hows, 'canon': canon,
                            'canon_hows': canon_hows,
                            'tags': ['fn:' + name, 'kind:' + k1,
                                     'kind:' + k2, 'carrier:' + s1[1],
                                     'carrier:' + s2[1], 'spell:' + s1[0],
                                     'spell:' + s2[0], 'two-positions',
                                     'route:' + route],
                            'key': 'C08/fn/%s/pos=%d,%d/v=%s,%s/spell=%s,%s/'
                                   'route=%s' % (name, i, j, vk1, vk2, s1[0],
                                                 s2[0], route)}


def gen_nn(shard, tier):
    name = shard['name']
    row = ft.TABLE[name]
    base = [fcall.native(v) for v in row.base]
    for i in ft.scalar_positions(row):
        if ft.kind_at(row, i) != 'n':
            continue
        for text, cls in ref.NONNUMERIC_TEXTS:
            for rname, spec, how in (('call-str', ['str', text], None),
                                     ('call-Text', ['Text', text], None),
                                     ('lit', ['str', text], 'lit'),
                                     ('cell', ['str', text], 'cell')):
                args = list(base)
                args[i] = spec
                hows = None
                if how:
                    hows = ['lit'] * len(base)
                    hows[i] = how
                yield {
                    'g': 'nn', 'fn': name,
                    'route': 'call' if how is None else 'formula',
                    'args': args, 'hows': hows,
                    'tags': ['fn:' + name, 'nonnumeric:' + cls,
                             'spell:pos=%d' % i, 'route:' + rname],
                    'key': 'C08/nn/%s/pos=%d(%s)/text=%r/route=%s' % (
                        name, i, row.params[i][0], text, rname)}


OP_CALL = (
    ['int', 2], ['float', 0.5], ['float', 2.0], ['Number', 3], ['npint', 4],
    ['str', '3'], ['Text', '1.5'], ['str', '2E+0'], ['bool', True],
    ['Boolean', False], ['None'], ['BLANK'], ['str', 'abc'],
    ['float', 1500000.0],
)
OP_FORMULA = (
    (['int', 2], 'lit'), (['float', 0.5], 'lit'), (['float', 2.0], 'cell'),
    (['int', 3], 'cell'), (['sci', '4E+0'], 'lit'), (['str', '3'], 'lit'),
    (['str', '1.5'], 'cell'), (['str', '2E+0'], 'lit'),
    (['bool', True], 'lit'), (['bool', False], 'cell'), (['None'], 'cell'),
    (['str', ''], 'cell'), (['str', 'abc'], 'lit'),
    (['float', 1500000.0], 'cell'),
)
OPS = ('OP_ADD', 'OP_SUB', 'OP_MUL', 'OP_DIV', 'CONCAT', 'OP_NEG',
       'OP_PERCENT')


def op_family(spec):
    k = spec[0]
    if k in ('npint', 'npfloat', 'npint32', 'npfloat32'):
        return 'numpy'
    if k in ('bool', 'Boolean'):
        return 'bool'
    if k in ('None', 'BLANK'):
        return 'blank'
    if k in ('str', 'Text'):
        t = spec[1]
        if t == '':
            return 'text-empty'
        if not ref.is_numeric_text(t):
            return 'text-nonnumeric'
        return 'text-sci' if 'E' in t.upper() else 'text'
    if k in ('float', 'Number') and isinstance(spec[1], float) and \
            spec[1] == int(spec[1]):
        return 'float-integral'
    if k == 'sci' and float(spec[1]) == int(float(spec[1])):
        return 'float-integral'     # a literal with an exponent is a float
    return 'native' if k in ('int', 'float', 'sci') else 'object'


def gen_op(shard, tier):
    op = shard['name']
    for route, reps in (('call', [(s, None) for s in OP_CALL]),
                        ('formula', list(OP_FORMULA))):
        if op in ('OP_NEG', 'OP_PERCENT'):
            for a, ha in reps:
                case = {
                    'g': 'op', 'fn': op, 'route': route, 'args': [a],
                    'hows': [ha],
                    'tags': ['op:' + op, 'carrier:' + op_family(a),
                             'route:' + route],
                    'key': 'C08/op/%s/%s%s/route=%s' % (
                        op, skey(a), '@' + ha if ha else '', route)}
                yield case
            continue
        for (a, ha), (b, hb) in itertools.product(reps, repeat=2):
            fams = sorted({op_family(a), op_family(b)})
            yield {
                'g': 'op', 'fn': op, 'route': route, 'args': [a, b],
                'hows': [ha, hb],
                'tags': ['op:' + op] + ['carrier:' + f for f in fams] +
                ['route:' + route],
                'key': 'C08/op/%s/%s%s,%s%s/route=%s' % (
                    op, skey(a), '@' + ha if ha else '', skey(b),
                    '@' + hb if hb else '', route)}


def name_variants(name, tier):
    lower = name.lower()
    alt = ''.join(c.upper() if k % 2 else c.lower()
                  for k, c in enumerate(name))
    out = [lower, name.title(), alt, '_xlfn.' + name, '_xlfn.' + lower,
           '_XLFN.' + name]
    if len(name) <= 4:
        for bits in itertools.product((0, 1), repeat=len(name)):
            out.append(''.join(c.upper() if b else c.lower()
                               for c, b in zip(name, bits)))
    seen, res = {name}, []
    for v in out:
        if v not in seen:
            seen.add(v)
            res.append(v)
    return res


def gen_name(shard, tier):
    name = shard['name']
    yield {'g': 'name', 'fn': name, 'variant': 'direct-call',
           'tags': ['fn:' + name, 'name:direct-call-vs-formula'],
           'key': 'C08/name/%s/direct-call' % name}
    for v in name_variants(name, tier):
        cls = 'prefix' if v.lower().startswith('_xlfn.') else 'case'
        yield {'g': 'name', 'fn': name, 'variant': v,
               'tags': ['fn:' + name, 'name:' + cls],
               'key': 'C08/name/%s/as=%s' % (name, v)}


STYLES = ('decorator', 'named', 'method')


def gen_hist(shard, tier):
    style = shard['name']
    maxlen = 6 if tier == 'thorough' else 5
    alphabet = 'RSCEM' if tier == 'thorough' else 'RSCE'
    for n in range(1, maxlen + 1):
        for hist in itertools.product(alphabet, repeat=n):
            h = ''.join(hist)
            if 'E' not in h or 'C' not in h or not ('R' in h or 'S' in h):
                continue
            if tier == 'thorough' and n == 6 and h.count('M') > 1:
                continue
            yield {'g': 'hist', 'hist': h, 'style': style,
                   'tags': ['user-function', 'history', 'style:' + style],
                   'key': 'C08/hist/%s/%s' % (style, h)}


def gen_user(shard, tier):
    style = shard['name']
    for i in range(len(TAG_CALLS)):
        yield {'g': 'kw', 'i': i, 'style': style,
               'tags': ['user-function', 'fn:TAG', 'call:keyword',
                        'style:' + style],
               'key': 'C08/user/%s/TAG/kw=%d' % (style, i)}
    vals = NUM_VALUES + NUM_VALUES_MORE
    for x in vals:
        want = 'num:%s' % lib.fnum(float(x) + 1)
        for route, sps in (('call', ref.number_spellings(x, True)),
                           ('formula', ref.number_spellings(x, False))):
            for sp in sps:
                yield {
                    'g': 'user', 'fn': 'ADDONE', 'style': style,
                    'route': route, 'args': [sp[2]],
                    'hows': [sp[3]] if route == 'formula' else None,
                    'want': want,
                    'tags': ['user-function', 'fn:ADDONE',
                             'carrier:' + sp[1], 'spell:' + sp[0],
                             'style:' + style, 'route:' + route],
                    'key': 'C08/user/%s/ADDONE/v=%r/spell=%s/route=%s' % (
                        style, x, sp[0], route)}
    for text, cls in ref.NONNUMERIC_TEXTS:
        for route, spec, how in (('call', ['str', text], None),
                                 ('formula', ['str', text], 'lit'),
                                 ('formula', ['str', text], 'cell')):
            yield {
                'g': 'user', 'fn': 'ADDONE', 'style': style, 'route': route,
                'args': [spec], 'hows': [how] if how else None,
                'want': 'err:#VALUE!',
                'tags': ['user-function', 'fn:ADDONE', 'nonnumeric:' + cls,
                         'style:' + style, 'route:' + route],
                'key': 'C08/user/%s/ADDONE/text=%r/route=%s%s' % (
                    style, text, route, '-' + how if how else '')}
    for code in lib.ERROR_CODES:
        for route, how in (('call', None), ('formula', 'lit'),
                           ('formula', 'cell')):
            yield {
                'g': 'user', 'fn': 'ADDONE', 'style': style, 'route': route,
                'args': [['err', code]], 'hows': [how] if how else None,
                'want': 'err:%s' % code,
                'tags': ['user-function', 'fn:ADDONE', 'arg:error',
                         'style:' + style, 'route:' + route],
                'key': 'C08/user/%s/ADDONE/err=%s/route=%s%s' % (
                    style, code, route, '-' + how if how else '')}
    for v in ('addone', 'AddOne', '_xlfn.ADDONE', '_xlfn.addone'):
        yield {
            'g': 'user', 'fn': 'ADDONE', 'style': style, 'route': 'formula',
            'args': [['int', 1]], 'hows': ['lit'], 'spell_name': v,
            'want': 'num:2.0',
            'tags': ['user-function', 'fn:ADDONE', 'name:variant',
                     'style:' + style, 'route:formula'],
            'key': 'C08/user/%s/ADDONE/as=%s' % (style, v)}
    # a user function whose own name contains a dot (like FLOOR.MATH): the
    # _xlfn. prefix is ignored, the rest of the name is not
    for v in ('ADD.ONE', 'add.one', '_xlfn.ADD.ONE', '_xlfn.Add.One'):
        yield {
            'g': 'user', 'fn': 'ADD.ONE', 'style': style, 'route': 'formula',
            'args': [['str', '1']], 'hows': ['lit'], 'spell_name': v,
            'want': 'num:2.0',
            'tags': ['user-function', 'fn:ADD.ONE', 'name:variant',
                     'name:dotted', 'style:' + style, 'route:formula'],
            'key': 'C08/user/%s/ADD.ONE/as=%s' % (style, v)}
    texts = TEXT_VALUES + TEXT_VALUES_MORE
    for s in texts:
        for route, sps in (('call', ref.text_spellings(s, True)),
                           ('formula', ref.text_spellings(s, False))):
            for sp in sps:
                yield {
                    'g': 'user', 'fn': 'SHOUT', 'style': style,
                    'route': route, 'args': [sp[2]],
                    'hows': [sp[3]] if route == 'formula' else None,
                    'want': 'text:%s!' % s,
                    'tags': ['user-function', 'fn:SHOUT', 'kind:t',
                             'carrier:' + sp[1], 'spell:' + sp[0],
                             'style:' + style, 'route:' + route],
                    'key': 'C08/user/%s/SHOUT/v=%r/spell=%s/route=%s' % (
                        style, s, sp[0], route)}


GEN = {'big': gen_big, 'fn': gen_fn, 'nn': gen_nn, 'op': gen_op, 'name': gen_name,
       'hist': gen_hist, 'user': gen_user}


def fn_functions(tier='quick'):
    out = []
    for name in _names():
        row = ft.TABLE[name]
        if row.flags.get('volatile') or name.startswith('OP_'):
            continue
        if position_plan(row, tier):
            out.append(name)
    return out


def named_functions():
    return [n for n in _names()
            if not ft.TABLE[n].flags.get('volatile')
            and not n.startswith('OP_')]


def plan(tier):
    shards = []
    for name in fn_functions(tier):
        shards.append({'g': 'fn', 'name': name})
        if any(ft.kind_at(ft.TABLE[name], i) == 'n'
               for i in ft.scalar_positions(ft.TABLE[name])):
            shards.append({'g': 'nn', 'name': name})
    for op in OPS:
        shards.append({'g': 'op', 'name': op})
    shards.append({'g': 'big', 'name': 'big'})
    for name in named_functions():
        shards.append({'g': 'name', 'name': name})
    for style in STYLES:
        shards.append({'g': 'hist', 'name': style})
        shards.append({'g': 'user', 'name': style})
    return shards


def run_shard(shard, ctx):
    import warnings
    warnings.simplefilter('ignore')
    n = 0
    for case in GEN[shard['g']](shard, ctx.tier):
        if 'skip' in case:
            ctx.skip(case['skip'])
            continue
        run_case(case, ctx)
        if n == 1:
            ctx.sample({k: case[k] for k in ('key', 'fn', 'args', 'route',
                                             'hist') if k in case})
        n += 1
    ctx.count('cases_group_' + shard['g'], n)


def replay(inputs, ctx):
    import warnings
    warnings.simplefilter('ignore')
    run_case(dict(inputs), ctx)


def _selftest():
    ref.selftest()
    ft.selftest()
    _names()
    for reps in (OP_CALL,):
        assert len({skey(s) for s in reps}) == len(reps)
    assert len({(skey(s), h) for s, h in OP_FORMULA}) == len(OP_FORMULA)
    assert name_variants('SUM', 'quick')[:6] == [
        'sum', 'Sum', 'sUm', '_xlfn.SUM', '_xlfn.sum', '_XLFN.SUM']
    assert len(name_variants('SUM', 'quick')) == 10
    assert len(name_variants('CONCATENATE', 'quick')) == 6
    assert op_family(['float', 2.0]) == 'float-integral'
    assert op_family(['str', '2E+0']) == 'text-sci'
    # the function table marks every parameter of the sampled functions
    row = ft.TABLE['MID']
    assert [k for _, k, _ in position_plan(row, 'quick')] == ['t', 'n', 'n']
    row = ft.TABLE['IF']
    assert [i for i, _, _ in position_plan(row, 'quick')] == [0]


def selftest():
    """Reference-model / table self-test; any failure is a harness error
    (exit 2), never a verdict."""
    from .. import runner
    try:
        _selftest()
    except runner.HarnessError:
        raise
    except Exception as exc:  # noqa: BLE001
        import traceback
        raise runner.HarnessError('selftest failed: %s\n%s' % (
            exc, traceback.format_exc()))
