"""C12 - a persisted model restores to an equivalent model.

Engine H.  Histories over
  compile            model.build_code()
  evaluate(c)        for formula cells of every result type
  set(i, v)          v of every value type (int, huge / tiny / negative-zero
                     float, non-ASCII and quote-containing text, boolean,
                     date, blank)
from both initial states (built without and with code) of two models (one
built from a dict, one loaded from a generated .xlsx with two sheets, a
defined name for a cell and one for a range, a date constant, cached values).
In EVERY visited state the model is persisted twice (.json and .json.gz),
restored with build_code=True, and the invariant checked.

Oracle scope
  * same cells: address -> (value as normalised observation, formula text);
    same formulae keys; same defined names (name -> cell address / range
    matrix); same ranges (key -> matrix of addresses);
  * after compilation every cell evaluates to the same observation in the
    original and in both restored models;
  * persisting does not change the original (fingerprint before = after).
Not judged: the cached Array of a range (XLRange.value), token uuids.
"""
import datetime
import itertools
import os
import tempfile

from .. import lib, explore
from ..gen import rawxlsx as R

PROPERTY = 'C12'
LEVEL = 'model_checking'
ENGINE = 'xlmc-H'
RULE = ('all histories over {compile, evaluate(4 cells), set(input, 8 typed '
        'values)} up to the depth bound from 2 initial states of 2 models; '
        'in every state persist (.json, .json.gz) + restore + compare; '
        'non-trivial = the state was reached through at least one evaluate '
        'or set (the persisted model is not the freshly built one)')
DEPTH = {'quick': 3, 'thorough': 4}
BOUNDS = {t: {'history_depth': DEPTH[t], 'models': 2, 'initial_states': 2}
          for t in DEPTH}
ASSUMPTIONS = ['files are written to a per-process temporary directory']
TECHNIQUE = ('explicit-state exploration of build/evaluate/set histories on '
             'the real model with a persist-restore round trip (both file '
             'formats) checked as an invariant in every visited state')
LEVEL_TEXT = ('Every history of compile / evaluate / set_cell_value calls up '
              'to the depth bound is replayed on the real model from both '
              'initial states; in each reached state the model is written to '
              'a plain and a gzip JSON file, restored (into a new Model, a '
              'second time after the first restored model was changed, and '
              'into a Model object that held another model, evaluated also '
              'through the evaluator made for it before), and compared cell '
              'by cell, name by name and by evaluating every cell.')
LEVEL_NOTE = ('Every transition and every round trip is an execution of the '
              'implementation.  Bounded: 2 models of <= 12 cells, histories '
              'up to the depth bound; no crash-consistency claim (none in '
              'the property).')

S1 = 'Sheet1!'
DICT_CELLS = {
    S1 + 'A1': 2, S1 + 'A2': 'x', S1 + 'A3': 1.5,
    S1 + 'B1': '=A1+A3', S1 + 'B2': '=A2&"é"', S1 + 'B3': '=A1/0',
    # (an overflowing product: infinity in most states, finite in some)
    S1 + 'B4': '=SUM(A1:A3)*1E+308', S1 + 'B5': '=A1>A3',
    # a cell whose value is an array
    S1 + 'B6': '=A1:A3',
    # a sheet whose name holds a dollar sign, with a range on it
    'Cost$!A1': 3, 'Cost$!A2': 4, 'Cost$!B1': '=SUM(A1:A2)',
    S1 + 'B7': "=SUM('Cost$'!A1:A2)+1",
    # an input that no range covers (it can be emptied: a cell holding None)
    S1 + 'D9': 5, S1 + 'B9': '=D9*2',
}
VALUES = [
    ('int', 7), ('huge', 1.5e300), ('tiny', 2.5e-300), ('negzero', -0.0),
    ('text', 'hé "q" \'s\''), ('bool', True),
    # a date/time with a fractional second (as openpyxl delivers them)
    ('date', datetime.datetime(2021, 3, 4, 5, 6, 7, 679000)), ('blank', None),
]


def build_model(kind, compiled):
    if kind == 'dict':
        return lib.ModelCompiler().read_and_parse_dict(
            dict(DICT_CELLS), build_code=compiled)
    sheets = [
        ('Sheet1', {
            'A1': {'form': 'n', 'v': 2}, 'A2': {'form': 's', 'v': 'x'},
            'A3': {'form': 'date', 'v': 43831},
            'B1': {'form': 'f', 'f': "A1+'My Sheet'!A1", 'ct': 'n', 'cv': 5},
            'B2': {'form': 'f', 'f': 'A2&nm', 'ct': 'str', 'cv': 'x2'},
            'B3': {'form': 'f', 'f': 'A1/0', 'ct': 'e', 'cv': '#DIV/0!'},
            'B4': {'form': 'f', 'f': 'SUM(rng)'},
            'B5': {'form': 'f', 'f': 'A3+1'},
            'D9': {'form': 'n', 'v': 5}, 'B9': {'form': 'f', 'f': 'D9*2'},
        }),
        ('My Sheet', {'A1': {'form': 'n', 'v': 3}, 'A2': {'form': 'n', 'v': 4},
                      'B1': {'form': 'f', 'f': 'SUM(A1:A2)*Sheet1!A1'}}),
    ]
    # fnm: a name for a FORMULA cell (formulae[name] then aliases
    # formulae[address])
    names = {'nm': 'Sheet1!$A$1', 'rng': 'Sheet1!$A$1:$A$2',
             'fnm': 'Sheet1!$B$1'}
    path = os.path.join(tmpdir(), 'src_%d.xlsx' % os.getpid())
    if not os.path.exists(path):
        with open(path, 'wb') as fp:
            fp.write(R.build(sheets, names))
    import warnings
    with warnings.catch_warnings():
        warnings.simplefilter('ignore')
        return lib.ModelCompiler().read_and_parse_archive(
            path, build_code=compiled)


def decoy_model(kind):
    """Another model of the same make - other values, the names bound to
    other cells -, compiled and evaluated, with the evaluator made for it: the
    Model object a file is loaded into need not be a new one."""
    if kind == 'dict':
        cells = dict(DICT_CELLS)
        cells.update({S1 + 'A1': 100, S1 + 'A2': 'old', S1 + 'A3': 0.5,
                      S1 + 'B1': '=A1*A3', S1 + 'C9': 'stays?'})
        model = lib.ModelCompiler().read_and_parse_dict(cells)
    else:
        sheets = [
            ('Sheet1', {
                'A1': {'form': 'n', 'v': 100}, 'A2': {'form': 'n', 'v': 200},
                'A3': {'form': 'n', 'v': 300},
                'B1': {'form': 'f', 'f': 'A1*2'},
                'B2': {'form': 'f', 'f': 'nm+1'},
                'B4': {'form': 'f', 'f': 'SUM(rng)'},
                'C9': {'form': 's', 'v': 'stays?'},
            }),
            ('My Sheet', {'A1': {'form': 'n', 'v': 30}}),
        ]
        names = {'nm': 'Sheet1!$A$2', 'rng': 'Sheet1!$A$2:$A$3',
                 'fnm': 'Sheet1!$B$2', 'old': 'Sheet1!$A$3'}
        path = os.path.join(tmpdir(), 'decoy_%d.xlsx' % os.getpid())
        if not os.path.exists(path):
            with open(path, 'wb') as fp:
                fp.write(R.build(sheets, names))
        import warnings
        with warnings.catch_warnings():
            warnings.simplefilter('ignore')
            model = lib.ModelCompiler().read_and_parse_archive(path)
    ev = lib.Evaluator(model)
    for a in sorted(model.formulae):
        if '!' in a:
            lib.observe(ev.evaluate, a)
    return model, ev


_TMP = None


def tmpdir():
    global _TMP
    if _TMP is None:
        _TMP = tempfile.TemporaryDirectory(prefix='xlmc_c12_')
    return _TMP.name


EVAL_CELLS = [S1 + 'B1', S1 + 'B2', S1 + 'B3', S1 + 'B4', S1 + 'B6']
INPUTS = [S1 + 'A1', S1 + 'A2']


def alphabet(kind):
    ops = [('compile',)]
    for c in EVAL_CELLS:
        ops.append(('eval', c))
    for vi in range(len(VALUES)):
        ops.append(('set', INPUTS[0], vi))
    for vi in (0, 4):
        ops.append(('set', INPUTS[1], vi))
    ops.append(('set', S1 + 'D9', 7))          # emptied
    if kind == 'xlsx':
        ops.append(('set', 'nm', 0))
    return ops


def apply(model, ev, op):
    if op[0] == 'compile':
        return lib.observe(model.build_code)
    if op[0] == 'eval':
        return lib.observe(ev.evaluate, op[1])
    return lib.observe(ev.set_cell_value, op[1], VALUES[op[2]][1])


def exact(v):
    """Text that identifies a stored value exactly (lib.norm looks at values
    the way Excel compares them: a date is its serial there)."""
    inner = getattr(v, 'value', v) if not isinstance(v, (str, bytes)) else v
    if isinstance(inner, datetime.datetime):
        return '%s:%s' % (type(v).__name__, inner.isoformat())
    return '%s:%r' % (type(v).__name__, inner)


def snapshot(model):
    cells = {}
    for a, c in model.cells.items():
        cells[a] = ('%s|%s' % (lib.norm(c.value), exact(c.value))
                    if not isinstance(c.value, dict)
                    else 'dict:%r' % sorted(c.value),
                    c.formula.formula if c.formula is not None else None)
    names = {}
    for n, d in model.defined_names.items():
        if isinstance(d, lib.xltypes.XLCell):
            names[n] = 'cell:' + d.address
        elif isinstance(d, lib.xltypes.XLRange):
            names[n] = 'range:%r' % (d.cells,)
        else:
            names[n] = 'other:' + type(d).__name__
    ranges = {k: repr(getattr(v, 'cells', None))
              for k, v in model.ranges.items()}
    return {
        'cells': cells, 'formulae': sorted(model.formulae),
        'names': names, 'ranges': ranges,
    }


def diff_snap(a, b):
    """First difference between two snapshots as (part, detail)."""
    for part in ('cells', 'names', 'ranges'):
        ka, kb = set(a[part]), set(b[part])
        if ka != kb:
            return part + '-keys', 'only-original=%s only-restored=%s' % (
                sorted(ka - kb)[:3], sorted(kb - ka)[:3])
        for k in sorted(ka):
            if a[part][k] != b[part][k]:
                return part + '-value', '%s: %r != %r' % (k, a[part][k],
                                                          b[part][k])
    if a['formulae'] != b['formulae']:
        return 'formulae-keys', '%r != %r' % (a['formulae'], b['formulae'])
    return None


def opname(op):
    if op[0] == 'set':
        return 'set(%s,%s)' % (op[1].replace('Sheet1!', ''), VALUES[op[2]][0])
    if op[0] == 'eval':
        return 'eval(%s)' % op[1].replace('Sheet1!', '')
    return op[0]


def check_state(kind, compiled, hist, ctx):
    model = build_model(kind, compiled)
    ev = lib.Evaluator(model)
    for op in hist:
        apply(model, ev, op)
    key0 = 'C12/%s/%s/%s' % (kind, 'compiled' if compiled else 'uncompiled',
                             ';'.join(opname(o) for o in hist) or '-')
    inputs = {'kind': kind, 'compiled': compiled,
              'history': [list(o) for o in hist]}
    tags = ['model:' + kind, 'init:' + ('compiled' if compiled
                                        else 'uncompiled')]
    if any(o[0] == 'eval' for o in hist):
        tags.append('hist:evaluated')
    for o in hist:
        if o[0] == 'set':
            tags.append('set:' + VALUES[o[2]][0])
    tags = sorted(set(tags))
    nontriv = any(o[0] in ('eval', 'set') for o in hist)
    ctx.count('states')
    snap0 = snapshot(model)
    fp0 = explore.fingerprint(model)
    restored = []
    for ext in ('json', 'json.gz'):
        path = os.path.join(tmpdir(), 'm_%d.%s' % (os.getpid(), ext))
        w = lib.observe(model.persist_to_json_file, path)
        if w != 'blank':
            ctx.fail('%s#%s/persist' % (key0, ext), tags + ['fmt:' + ext],
                     inputs, 'persists', w, nontriv)
            continue
        r = lib.Model()
        o = lib.observe(r.construct_from_json_file, path, True)
        if o != 'blank':
            ctx.fail('%s#%s/restore' % (key0, ext), tags + ['fmt:' + ext],
                     inputs, 'restores', o, nontriv)
            continue
        ctx.count('transitions')
        ctx.count('traces_validated_against_impl')
        restored.append((ext, r))
        d = diff_snap(snap0, snapshot(r))
        if d is None:
            ctx.ok('%s#%s/snapshot' % (key0, ext), 'equal', nontriv)
        else:
            ctx.fail('%s#%s/snapshot' % (key0, ext),
                     tags + ['fmt:' + ext, 'oracle:snapshot'], inputs,
                     'equal', 'differs:' + d[0], nontriv, d[1])
        # the model made from a file is its own: a second model made from
        # the same (unchanged) file right afterwards does not see what was
        # done to the first
        ev1 = lib.Evaluator(r)
        lib.observe(ev1.set_cell_value, INPUTS[0], 990099)
        lib.observe(ev1.set_cell_value, S1 + 'D9', None)
        for a in EVAL_CELLS[:2]:
            lib.observe(ev1.evaluate, a)
        r2 = lib.Model()
        o = lib.observe(r2.construct_from_json_file, path, True)
        st = tags + ['fmt:' + ext, 'history:second-model-from-the-file']
        if o != 'blank':
            ctx.fail('%s#%s/second/restore' % (key0, ext), st, inputs,
                     'restores', o, nontriv)
            continue
        d = diff_snap(snap0, snapshot(r2))
        ctx.check('%s#%s/second/snapshot' % (key0, ext),
                  'equal' if d is None else 'differs:' + d[0], 'equal',
                  st + ['oracle:snapshot'], inputs, nontriv)
        restored[-1] = (ext, r2)
    old_evaluators = {}
    if any(e == 'json' for e, _ in restored):
        # the same file loaded into a Model object that held another model
        path = os.path.join(tmpdir(), 'm_%d.json' % os.getpid())
        r, ev_old = decoy_model(kind)
        o = lib.observe(r.construct_from_json_file, path, True)
        rt = tags + ['fmt:json', 'load:into-used-model']
        if o != 'blank':
            ctx.fail('%s#reload/restore' % key0, rt, inputs, 'restores', o,
                     nontriv)
        else:
            ctx.count('transitions')
            restored.append(('reload', r))
            old_evaluators['reload'] = ev_old
            d = diff_snap(snap0, snapshot(r))
            if d is None:
                ctx.ok('%s#reload/snapshot' % key0, 'equal', nontriv)
            else:
                ctx.fail('%s#reload/snapshot' % key0,
                         rt + ['oracle:snapshot'], inputs, 'equal',
                         'differs:' + d[0], nontriv, d[1])
    ctx.check(key0 + '#persist-pure', explore.fingerprint(model), fp0,
              tags + ['oracle:persist-pure'], inputs, False)
    # the original keeps working after it was persisted (no recompilation):
    # only judged when its code had been built by then
    compiled_now = compiled or any(o[0] == 'compile' for o in hist)
    if compiled_now:
        evp = lib.Evaluator(model)
        broken = [a for a in EVAL_CELLS
                  if lib.observe(evp.evaluate, a).startswith('raise:')
                  and a != S1 + 'B3']
        ctx.check(key0 + '#original-still-evaluates',
                  'raising:%s' % broken, 'raising:[]',
                  tags + ['oracle:persist-pure'], inputs, nontriv)
    # after compilation every cell evaluates alike
    c = lib.observe(model.build_code)
    if c != 'blank':
        ctx.skip('original-does-not-compile')
        return
    ev0 = lib.Evaluator(model)
    want = {a: lib.observe(ev0.evaluate, a) for a in sorted(model.cells)}
    routes = [(ext, ext, lib.Evaluator(r)) for ext, r in restored]
    if 'reload' in old_evaluators:
        # ... and the evaluator made for that Model object before the load
        routes.append(('reload-old-evaluator', 'reload',
                       old_evaluators['reload']))
    for label, ext, evr in routes:
        bad = None
        for a in sorted(want):
            g = lib.observe(evr.evaluate, a)
            if g != want[a]:
                bad = (a, want[a], g)
                break
        rt = tags + (['fmt:' + ext] if ext != 'reload' else
                     ['fmt:json', 'load:into-used-model']) + (
            ['evaluator:made-before-load'] if label != ext else [])
        if bad is None:
            ctx.ok('%s#%s/evaluate' % (key0, label), 'equal', nontriv)
        else:
            ctx.fail('%s#%s/evaluate' % (key0, label),
                     rt + ['oracle:evaluate'], inputs,
                     'cell %s = %s' % (bad[0], bad[1]), bad[2], nontriv)
    lib.clear_caches()


# -- file names: "plain or gzip-compressed, chosen by the file extension" ----
FILE_NAMES = ('m.json', 'm.JSON', 'm.gz', 'm.GZ', 'm.Gz', 'm.gzip', 'm.GZIP',
              'm.Gzip', 'm.json.gz', 'm.JSON.GZ', 'M.Json.Gz', 'm.gz.json',
              'm.txt', 'm', 'm.gzip.bak', 'gz', 'm.jsongz')


def check_names(kind, compiled, ctx):
    model = build_model(kind, compiled)
    ev = lib.Evaluator(model)
    if compiled:
        for a in EVAL_CELLS:
            lib.observe(ev.evaluate, a)
    snap0 = snapshot(model)
    for name in FILE_NAMES:
        key0 = 'C12/%s/%s/file=%s' % (
            kind, 'compiled' if compiled else 'uncompiled', name)
        inputs = {'kind': kind, 'compiled': compiled, 'file': name,
                  'family': 'names'}
        ext = os.path.splitext(name)[-1].lower()
        zipped = ext in ('.gz', '.gzip')
        tags = ['family:file-names', 'model:' + kind,
                'fmt:' + ('gzip' if zipped else 'plain')]
        d = os.path.join(tmpdir(), 'names_%d' % os.getpid())
        os.makedirs(d, exist_ok=True)
        path = os.path.join(d, name)
        w = lib.observe(model.persist_to_json_file, path)
        if w != 'blank':
            ctx.fail(key0 + '/persist', tags, inputs, 'persists', w)
            continue
        with open(path, 'rb') as fp:
            magic = fp.read(2)
        ctx.check(key0 + '/compressed',
                  'gzip' if magic == b'\x1f\x8b' else 'plain',
                  'gzip' if zipped else 'plain', tags, inputs)
        r = lib.Model()
        o = lib.observe(r.construct_from_json_file, path, True)
        os.remove(path)
        if o != 'blank':
            ctx.fail(key0 + '/restore', tags, inputs, 'restores', o)
            continue
        ctx.count('transitions')
        ctx.count('traces_validated_against_impl')
        dd = diff_snap(snap0, snapshot(r))
        if dd is None:
            ctx.ok(key0 + '/snapshot', 'equal')
        else:
            ctx.fail(key0 + '/snapshot', tags + ['oracle:snapshot'], inputs,
                     'equal', 'differs:' + dd[0], True, dd[1])
    lib.clear_caches()


# -- long formulas: the syntax tree of a compiled model is part of the file ----
DEEP_FORMS = (('sum', lambda n: '=' + '+'.join(['A1'] * n)),
              ('nested', lambda n: '=' + 'ABS(' * n + 'A1' + ')' * n))
DEEP_SIZES = {'sum': (20, 80, 150, 300), 'nested': (10, 35, 60)}


def check_deep(form, n, compiled, evaluated, ctx):
    import sys
    old = sys.getrecursionlimit()
    sys.setrecursionlimit(1000)            # the interpreter's default
    try:
        _check_deep(form, n, compiled, evaluated, ctx)
    finally:
        sys.setrecursionlimit(old)


def _check_deep(form, n, compiled, evaluated, ctx):
    text = dict(DEEP_FORMS)[form](n)
    key0 = 'C12/deep/%s/%d/%s%s' % (form, n, 'compiled' if compiled
                                    else 'uncompiled',
                                    '+evaluated' if evaluated else '')
    inputs = {'family': 'deep', 'form': form, 'n': n, 'compiled': compiled,
              'evaluated': evaluated}
    tags = ['formula:deep', 'deep:%s' % form,
            'init:' + ('compiled' if compiled else 'uncompiled'),
            'depth:%s' % ('over-100' if n > 100 else 'up-to-100')]
    model = lib.ModelCompiler().read_and_parse_dict(
        {S1 + 'A1': -2, S1 + 'B1': text, S1 + 'B2': '=B1*2'},
        build_code=compiled)
    if evaluated:
        lib.observe(lib.Evaluator(model).evaluate, S1 + 'B2')
    snap0 = snapshot(model)
    path = os.path.join(tmpdir(), 'deep_%d.json' % os.getpid())
    w = lib.observe(model.persist_to_json_file, path)
    if w != 'blank':
        ctx.fail(key0 + '/persist', tags, inputs, 'persists', w)
        return
    r = lib.Model()
    o = lib.observe(r.construct_from_json_file, path, True)
    if o != 'blank':
        ctx.fail(key0 + '/restore', tags, inputs, 'restores', o)
        return
    d = diff_snap(snap0, snapshot(r))
    ctx.check(key0 + '/snapshot', 'equal' if d is None else
              'differs:' + d[0], 'equal', tags + ['oracle:snapshot'], inputs)
    c = lib.observe(model.build_code)
    ev0, evr = lib.Evaluator(model), lib.Evaluator(r)
    for a in (S1 + 'B1', S1 + 'B2'):
        ctx.check('%s/evaluate/%s' % (key0, a), lib.observe(evr.evaluate, a),
                  lib.observe(ev0.evaluate, a), tags + ['oracle:evaluate'],
                  inputs)
    lib.clear_caches()


def plan(tier):
    shards = [{'family': 'names'}, {'family': 'deep'}]
    depth = DEPTH[tier]
    for kind in ('dict', 'xlsx'):
        n = len(alphabet(kind))
        for compiled in (False, True):
            shards.append({'kind': kind, 'compiled': compiled, 'prefix': None,
                           'depth': 1})
            for first in range(n):
                if depth >= 3:
                    for second in range(n):
                        shards.append({'kind': kind, 'compiled': compiled,
                                       'prefix': [first, second],
                                       'depth': depth})
                else:
                    shards.append({'kind': kind, 'compiled': compiled,
                                   'prefix': [first], 'depth': depth})
    return shards


def run_shard(shard, ctx):
    if shard.get('family') == 'names':
        for kind in ('dict', 'xlsx'):
            for compiled in (False, True):
                check_names(kind, compiled, ctx)
        ctx.sample({'family': 'file names', 'names': list(FILE_NAMES)})
        return
    if shard.get('family') == 'deep':
        for form, _ in DEEP_FORMS:
            for n in DEEP_SIZES[form]:
                for compiled in (False, True):
                    for evaluated in ((False, True) if compiled
                                      else (False,)):
                        check_deep(form, n, compiled, evaluated, ctx)
        ctx.sample({'family': 'deep', 'formula': '=A1+A1+ ... (80 terms)'})
        return
    kind, compiled = shard['kind'], shard['compiled']
    ops = alphabet(kind)
    if shard['prefix'] is None:
        check_state(kind, compiled, [], ctx)
        for i in range(len(ops)):
            check_state(kind, compiled, [ops[i]], ctx)
        ctx.sample({'kind': kind, 'alphabet': [opname(o) for o in ops]})
        return
    base = [ops[i] for i in shard['prefix']]
    extra = shard['depth'] - len(base)
    lo = 0 if len(base) >= 2 else 1
    for n in range(lo, extra + 1):
        for idx in itertools.product(range(len(ops)), repeat=n):
            check_state(kind, compiled, base + [ops[i] for i in idx], ctx)


def replay(inputs, ctx):
    if inputs.get('family') == 'names':
        check_names(inputs['kind'], inputs['compiled'], ctx)
        return
    if inputs.get('family') == 'deep':
        check_deep(inputs['form'], inputs['n'], inputs['compiled'],
                   inputs['evaluated'], ctx)
        return
    hist = [tuple(o) for o in inputs['history']]
    check_state(inputs['kind'], inputs['compiled'], hist, ctx)
