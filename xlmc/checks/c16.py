"""C16 - math and rounding functions agree with exact / IEEE reference values.

Oracle scope
  enforced : ROUND / ROUNDUP / ROUNDDOWN / TRUNC / INT / EVEN / CEILING /
             FLOOR return exactly the double nearest to the decimal rounding
             of the argument's shortest representation (xlmc/ref/rounding.py,
             integer arithmetic); ABS, SIGN, SQRT, POWER and ^, EXP, LN, LOG,
             LOG10, MOD, FACT, FACTDOUBLE, SIN, COS, TAN, ASIN, ACOS, ATAN,
             ATAN2(x,y)=atan2(y,x), COSH, ASINH, ACOSH (SINH, TANH, ATANH when
             registered), DEGREES, RADIANS, PI are within 4 ulp of the
             correctly rounded value of the function at the exact binary
             arguments (xlmc/ref/elementary.py, 80-digit decimal); MOD has the
             sign of its divisor; arguments outside the domain - and results
             beyond the double range - give *some* Excel error value (which
             code is not enforced), never NaN / infinity / a Python exception.
             ISEVEN / ISODD (anchor mechanism) are checked on integers only.
  lenient  : where IEEE and Excel conventions differ or the statement is
             silent the IEEE value *or* an error value is accepted, an
             exception / NaN / infinity is not: 0^0, ATAN2(0,0), a zero
             significance, FACTDOUBLE(-1), SIN/COS/TAN beyond 2^27,
             MOD with |n/d| >= 2^27, results within 4 ulp of the largest
             double.
  refused  : which error code a domain error has; fractional digit counts;
             FACT / ISEVEN of fractions; negative zero; text / boolean
             arguments (C08); SQRTPI and the aggregate functions of math.py.
"""
import math
from decimal import Decimal

from .. import lib
from ..ref import elementary as el
from ..ref import rounding as rd

PROPERTY = 'C16'
LEVEL = 'exploration'
TOL_ULPS = 4
DBL_MAX = el.DBL_MAX

RULE = (
    'rounding family: every number +-m*10^e of the decimal lattice, every '
    'exact tie (m+1/2)*10^-k with its two 15-significant-digit neighbours, '
    'and numbers with exponents across the double range, x every digit count '
    '-10..10 x ROUND/ROUNDUP/ROUNDDOWN/TRUNC (+ INT, EVEN, one-argument '
    'forms); CEILING/FLOOR on a lattice and on exact multiples x signed '
    'significances and 0; every unary elementary function on the lattice '
    'and on its domain boundary +-{0,1,2} ulp; POWER, ^, ATAN2, MOD, LOG on '
    'all pairs of a signed sub-lattice with 0; FACT 0..175, FACTDOUBLE '
    '0..305, negatives; each case is executed by a direct call and, for the '
    'sub-lattices named in BOUNDS, as a literal formula and through cell '
    'references.  A case is non-trivial when the reference judged it and '
    'it exercises the mechanism: for the rounding family non-zero digits '
    'are discarded or the arguments are outside the domain, for all other '
    'functions always (value within tolerance, or domain error)')

PARAMS = {
    'quick': {
        'round_call': (999, -6, 6, 3, 99), 'round_lit': (99, -6, 6),
        'round_ref': (9, -6, 6),
        'tie_call_m': 1000, 'tie_lit_m': 100, 'tie_digits': 'k-2..k+1',
        'cf_call': (99, -3, 3), 'cf_lit': (99, -1, 1),
        'unary_call': (99, -6, 6), 'unary_lit': (99, -6, 6),
        'binary': 'Q',
    },
    'thorough': {
        'round_call': (9999, -10, 10, 6, 999), 'round_lit': (999, -6, 6),
        'round_ref': (99, -10, 10),
        'tie_call_m': 1000, 'tie_lit_m': 1000, 'tie_digits': 'all',
        'cf_call': (999, -4, 4), 'cf_lit': (99, -3, 3),
        'unary_call': (999, -10, 10), 'unary_lit': (999, -6, 6),
        'binary': 'T',
    },
}
BOUNDS = {
    'quick': dict(PARAMS['quick'], digits='-10..10', tol_ulps=TOL_ULPS,
                  note='(mmax, emin, emax) of the lattice +-m*10^e per route; '
                       'round_call (999,-6,6,3,99): m<=999 for |e|<=3, '
                       'm<=99 for the outer exponents'),
    'thorough': dict(PARAMS['thorough'], digits='-10..10',
                     tol_ulps=TOL_ULPS,
                     note='(mmax, emin, emax) of the lattice +-m*10^e per '
                          'route; round_call (9999,-10,10,6,999): m<=9999 '
                          'for |e|<=6, m<=999 for the outer exponents'),
}
ASSUMPTIONS = [
    'rounding reference xlmc/ref/rounding.py: exact integer arithmetic on '
    'the shortest repr, one correctly rounded int/int division (self-tested '
    'against Microsoft documentation examples and decimal.quantize)',
    'elementary reference xlmc/ref/elementary.py: 80-digit decimal '
    'arithmetic on the exact binary arguments (self-tested against 50-digit '
    'constants, identities and glibc libm within 2 ulp)',
    'tolerance of "a few ulp" taken as 4 ulp',
    'any Excel error value is accepted for an out-of-domain argument',
]

DIGITS = tuple(range(-10, 11))
ROUND4 = ('ROUND', 'ROUNDUP', 'ROUNDDOWN', 'TRUNC')
ROUNDING = ROUND4 + ('INT', 'EVEN', 'CEILING', 'FLOOR')
UNARY = ('ABS', 'SIGN', 'SQRT', 'EXP', 'LN', 'LOG10', 'LOG', 'SIN', 'COS',
         'TAN', 'ASIN', 'ACOS', 'ATAN', 'SINH', 'COSH', 'TANH', 'ASINH',
         'ACOSH', 'ATANH', 'DEGREES', 'RADIANS')
BINARY = ('POWER', '^', 'ATAN2', 'MOD', 'LOG')
SIGS = (1, 2, 3, 0.1, 0.25, 0.01, 10)
SIGS_T = SIGS + (0.5, 0.05, 7, 1.5, 100, 0.001)
EXTREME_M = (1, 15, 25, 123456789012345, 999999999999999)
EXTREME_E = (-300, -100, -30, -16, 15, 16, 22, 30, 100, 290)

POS_Q = (1e-6, 0.001, 0.01, 0.1, 0.2, 0.25, 0.333333333333333, 0.5, 0.75,
         0.9, 1.0, 1.1, 1.5, 2.0, 2.5, 3.0, 4.0, 5.0, 7.0, 8.0, 9.0, 10.0,
         16.0, 27.0, 64.0, 99.0, 100.0, 360.0, 1000.0, 1e6)
POS_T = POS_Q + (1e-300, 1e-100, 1e-10, 1e-4, 0.05, 0.3, 0.7,
                 0.999999999999999, 1.00000000000001, 1.25, 6.0, 12.0, 17.0,
                 50.0, 128.0, 255.0, 256.0, 500.0, 709.0, 710.0, 1023.0,
                 1024.0, 1e4, 1e5, 1e7, 1e8, 1e10, 1e15, 1e100, 1e300)


def up(x, n=1):
    for _ in range(n):
        x = math.nextafter(x, math.inf)
    return x


def down(x, n=1):
    for _ in range(n):
        x = math.nextafter(x, -math.inf)
    return x


def around(x, n=2):
    return [down(x, i) for i in range(n, 0, -1)] + [x] + \
        [up(x, i) for i in range(1, n + 1)]


_TINY = [0.0, 5e-324, 1e-323, -5e-324, -1e-323, 2.2250738585072014e-308]
_EXP_MAX = 709.782712893384           # largest x with exp(x) finite
_COSH_MAX = 710.4758600739439
_DEG_MAX = 3.1375664143845866e306     # DBL_MAX * pi / 180
UNARY_BOUNDS = {
    'SQRT': _TINY + [DBL_MAX, -1.0, -DBL_MAX, 4.0, 2.0],
    'LN': _TINY + [DBL_MAX, -1.0, -DBL_MAX] + around(1.0),
    'LOG10': _TINY + [DBL_MAX, -1.0, -DBL_MAX] + around(1.0) + around(10.0),
    'LOG': _TINY + [DBL_MAX, -1.0] + around(1.0) + around(10.0),
    'ASIN': [0.0, 5e-324] + around(1.0) + around(-1.0) + [2.0, -2.0, DBL_MAX],
    'ACOS': [0.0, 5e-324] + around(1.0) + around(-1.0) + [2.0, -2.0, DBL_MAX],
    'ACOSH': around(1.0) + [0.0, -1.0, 0.5, DBL_MAX, 1e300, -DBL_MAX],
    'ATANH': around(1.0) + around(-1.0) + [0.0, 5e-324, 2.0, 1e-300],
    'EXP': around(_EXP_MAX) + around(-745.1332191019411) +
    [0.0, 5e-324, 710.0, 1000.0, -746.0, -1000.0, DBL_MAX, -DBL_MAX],
    'COSH': around(_COSH_MAX) + around(-_COSH_MAX) +
    [0.0, 5e-324, 711.0, -711.0, 1000.0, DBL_MAX],
    'SINH': around(_COSH_MAX) + around(-_COSH_MAX) +
    [0.0, 5e-324, 1e-300, 711.0, -711.0, DBL_MAX],
    'TANH': [0.0, 5e-324, 1e-300, 19.0, 20.0, 1000.0, -1000.0, DBL_MAX],
    'DEGREES': around(_DEG_MAX) + around(-_DEG_MAX) +
    [0.0, 5e-324, 1e308, DBL_MAX, -DBL_MAX],
    'RADIANS': [0.0, 5e-324, DBL_MAX, -DBL_MAX, 1e-300],
    'SIN': [0.0, 5e-324, 1e-300] + around(1.5707963267948966) +
    around(3.141592653589793) + around(2.0 ** 27) + [1e10, 1e22, -1e22],
    'COS': [0.0, 5e-324, 1e-300] + around(1.5707963267948966) +
    around(3.141592653589793) + around(2.0 ** 27) + [1e10, 1e22, -1e22],
    'TAN': [0.0, 5e-324, 1e-300] + around(1.5707963267948966) +
    around(-1.5707963267948966) + around(3.141592653589793) +
    around(2.0 ** 27) + [1e10, 1e22],
    'ATAN': [0.0, 5e-324, -5e-324, DBL_MAX, -DBL_MAX, 1e300] + around(1.0),
    'ASINH': [0.0, 5e-324, -5e-324, DBL_MAX, -DBL_MAX, 1e300, 1e-300],
    'ABS': [0.0, 5e-324, -5e-324, DBL_MAX, -DBL_MAX],
    'SIGN': [0.0, 5e-324, -5e-324, DBL_MAX, -DBL_MAX],
}


# -- enumeration --------------------------------------------------------------
def lattice(mmax, emin, emax, mlo=1):
    """(m, e) with distinct values m*10^e: m not a multiple of 10 unless
    e is the largest exponent (10*10^e is 1*10^(e+1) otherwise)."""
    for e in range(emin, emax + 1):
        for m in range(mlo, mmax + 1):
            if m % 10 or e == emax:
                yield m, e


def lat_value(m, e, sign=1):
    return float('%de%d' % (sign * m, e))


def tie_numbers(m, k):
    """The exact tie (m + 1/2) * 10^-k and its neighbours with 15
    significant digits, as (variant, float)."""
    c = 10 * m + 5
    exp = -(k + 1)
    pad = 15 - len(str(c))
    big = c * 10 ** pad
    return (('exact', float('%de%d' % (c, exp))),
            ('below', float('%de%d' % (big - 1, exp - pad))),
            ('above', float('%de%d' % (big + 1, exp - pad))))


def tie_digits(k, mode):
    if mode == 'all':
        return DIGITS
    return tuple(d for d in range(k - 2, k + 2) if -10 <= d <= 10)


def chunks(lo, hi, size):
    for a in range(lo, hi + 1, size):
        yield a, min(hi, a + size - 1)


def plan(tier):
    p = PARAMS[tier]
    shards = []
    big = tier == 'thorough'
    # rounding on the lattice
    for route, key, size in (('call', 'round_call', 250 if not big else 500),
                             ('lit', 'round_lit', 25 if not big else 125),
                             ('ref', 'round_ref', 100)):
        mmax0, emin, emax = p[key][:3]
        for e in range(emin, emax + 1):
            mmax = mmax0
            if len(p[key]) == 5 and abs(e) > p[key][3]:
                mmax = p[key][4]
            for sign in (1, -1):
                for a, b in chunks(1, mmax, size):
                    shards.append({'fam': 'round', 'route': route, 'e': e,
                                   'elast': emax, 'sign': sign, 'mlo': a,
                                   'mhi': b})
    # ties
    for route, key, size in (('call', 'tie_call_m', 250),
                             ('lit', 'tie_lit_m', 50)):
        for k in range(0, 11):
            for sign in (1, -1):
                for a, b in chunks(0, p[key] - 1, size):
                    shards.append({'fam': 'ties', 'route': route, 'k': k,
                                   'sign': sign, 'mlo': a, 'mhi': b,
                                   'digits': p['tie_digits']
                                   if route == 'call' else 'k-2..k+1'})
    # exponents across the double range
    for route in ('call', 'ref'):
        for m in EXTREME_M:
            for sign in (1, -1):
                shards.append({'fam': 'extreme', 'route': route, 'm': m,
                               'sign': sign})
    # CEILING / FLOOR
    for route, key in (('call', 'cf_call'), ('lit', 'cf_lit')):
        mmax, emin, emax = p[key]
        for e in range(emin, emax + 1):
            for sign in (1, -1):
                for a, b in chunks(1, mmax, 100):
                    shards.append({'fam': 'cf', 'route': route, 'e': e,
                                   'elast': emax, 'sign': sign, 'mlo': a,
                                   'mhi': b, 'big': big})
    for route in ('call', 'lit', 'ref'):
        shards.append({'fam': 'cf-mult', 'route': route, 'big': big})
    # unary elementary functions
    for route, key in (('call', 'unary_call'), ('lit', 'unary_lit')):
        mmax, emin, emax = p[key]
        for fn in UNARY:
            for e in range(emin, emax + 1):
                for a, b in chunks(1, mmax, 250):
                    shards.append({'fam': 'unary', 'route': route, 'fn': fn,
                                   'e': e, 'elast': emax, 'mlo': a, 'mhi': b})
    for route in ('call', 'ref'):
        for fn in UNARY:
            shards.append({'fam': 'bounds', 'route': route, 'fn': fn})
    # binary functions
    n = len(binary_points(p['binary']))
    for route in ('call', 'lit', 'ref'):
        for fn in BINARY:
            if fn == '^' and route == 'call':
                continue
            for a, b in chunks(0, n - 1, 4 if not big else 6):
                shards.append({'fam': 'binary', 'route': route, 'fn': fn,
                               'set': p['binary'], 'ilo': a, 'ihi': b})
    for route in ('call', 'lit', 'ref'):
        shards.append({'fam': 'fact', 'route': route})
    allfn = UNARY + ('POWER', 'ATAN2', 'MOD') + ROUNDING + ('FACT',)
    for i in range(0, len(allfn), 4):
        shards.append({'fam': 'after', 'fns': list(allfn[i:i + 4]),
                       'weight': 5})
    return shards


MOD_TINY = ((-1e-20, 3.0), (1e-17, -1.0), (-1e-10, 1e10), (1e-20, 3.0),
            (-1e-300, 1.0), (-5e-324, 2.5), (1e-17, 1.0), (-1e-17, -1.0),
            (-1e-17, 1.0))


def binary_points(name):
    pos = POS_Q if name == 'Q' else POS_T
    pts = [0.0]
    for v in pos:
        pts.append(v)
        pts.append(-v)
    return pts


# -- one case -----------------------------------------------------------------
def positional(v):
    """Excel literal of a number in positional notation."""
    if isinstance(v, int):
        return str(v)
    d = Decimal(repr(v))
    if d == d.to_integral_value():
        if abs(v) >= 2 ** 53:
            # an integer literal this long would be read as an exact Python
            # integer, not as the double under test: scientific notation
            return format(d.normalize(), 'E')
        return str(int(d))
    return format(d, 'f')


def formula_for(fn, args, route):
    if route == 'lit':
        parts = [positional(a) for a in args]
    else:
        parts = ['%s1' % 'ABC'[i] for i in range(len(args))]
    if fn == '^':
        if route == 'lit':
            parts = ['(%s)' % s if s.startswith('-') else s for s in parts]
        return '=%s^%s' % tuple(parts)
    return '=%s(%s)' % (fn, ','.join(parts))


def observe(fn, args, route):
    if route == 'call':
        return lib.call(fn, *args)
    text = formula_for(fn, args, route)
    cells = {}
    if route == 'ref':
        cells = {'Sheet1!%s1' % 'ABC'[i]: a for i, a in enumerate(args)}
    return lib.eval_formula(text, cells, at='Sheet1!Z9')


def number_positions(fn, args):
    if fn in ROUND4:
        return (0,)
    return tuple(range(len(args)))


def is_int_carrier(v, route):
    if route == 'lit':
        return float(v) == math.floor(float(v)) and abs(v) < 2 ** 53
    return isinstance(v, int)


def unsafe_power(fn, args, route):
    """int ** int with a huge result is computed as a Python big integer by
    the unchanged library: never executed (it would only burn the time
    limit); the same values are executed with float carriers."""
    if fn not in ('POWER', '^'):
        return False
    x, y = args
    if not (is_int_carrier(x, route) and is_int_carrier(y, route)):
        return False
    if y <= 0 or abs(x) <= 1:
        return False
    return y * math.log2(abs(x)) > 20000


def sign_tag(v):
    return 'neg' if v < 0 else 'pos' if v > 0 else 'zero'


def expected(fn, args):
    """(want, tags, nontrivial)."""
    tags = set()
    if fn in ROUNDING:
        want, info = rd.compute(fn, args)
        x = args[0]
        tags.add('sign:' + sign_tag(x))
        if fn in ROUND4:
            if len(args) == 1:
                tags.add('digits:default')
                d = 0
            else:
                d = args[1]
                tags.add('digits:' + sign_tag(d))
            if x:
                # significant digits of the rounded value
                if info['intdigits'] + d > 28:
                    tags.add('width:over-28-digits')
                if abs(x) * 10.0 ** d > DBL_MAX:
                    tags.add('width:scaled-beyond-double')
        if fn == 'INT' and x and info['intdigits'] > 28:
            tags.add('width:over-28-digits')
        if fn in ('CEILING', 'FLOOR'):
            sg = args[1]
            tags.add('significance:' + sign_tag(sg))
            if sg:
                tags.add('significance:' + (
                    'integral' if rd.exact(sg).denominator == 1
                    else 'fractional'))
            if x and sg:
                tags.add('multiple:' + ('no' if info['discarded']
                                        else 'exact'))
        if info['tie']:
            tags.add('tie:exact')
        tags.add('drop:' + ('some' if info['discarded'] else 'none'))
        if want is rd.DOMAIN:
            tags.add('domain:rounding')
        nontriv = info['discarded'] or want is rd.DOMAIN \
            or fn in ('CEILING', 'FLOOR')
        return want, tags, nontriv
    if fn in ('ISEVEN', 'ISODD'):
        n = int(args[0])
        assert n == args[0]
        return (n % 2 == 0) == (fn == 'ISEVEN'), tags, True
    want, t = el.compute('POWER' if fn == '^' else fn, args)
    tags |= t
    if fn == 'ATAN2':
        # ATAN2(x, y) = ATAN2(y, x) only on the diagonal
        tags.add('args:' + ('symmetric' if args[0] == args[1]
                            else 'asymmetric'))
    if fn in ('MOD', 'POWER', '^', 'ATAN2', 'LOG') and len(args) == 2:
        tags.add('signs:%s/%s' % (sign_tag(args[0]), sign_tag(args[1])))
    return want, tags, True


def show(want):
    if want is rd.DOMAIN:
        return 'err:any'
    if isinstance(want, rd.Lenient):
        return '|'.join(['num:' + lib.fnum(v) for v in want.values
                         if v is not rd.DOMAIN] + ['err:any'])
    if isinstance(want, bool):
        return 'bool:%s' % want
    return 'num:' + lib.fnum(want)


def near(got, want):
    return lib.is_num_obs(got) and lib.ulps(lib.num_of(got), want) <= TOL_ULPS


def judge(fn, want, got, tags):
    """(ok, got-for-the-signature)."""
    is_err = got.startswith('err:')
    if want is rd.DOMAIN:
        if is_err:
            return True, got
        if 'domain:overflow' in tags and lib.is_num_obs(got) and \
                lib.ulps(abs(lib.num_of(got)), DBL_MAX) <= TOL_ULPS:
            return True, got
        return False, got
    if isinstance(want, rd.Lenient):
        if is_err:
            return True, got
        for v in want.values:
            if v is rd.DOMAIN:
                continue
            if near(got, v) if fn not in ROUNDING else \
                    got == 'num:' + lib.fnum(v):
                return True, got
        return False, got
    if isinstance(want, bool):
        return got == 'bool:%s' % want, got
    if fn in ROUNDING:
        if got == 'num:' + lib.fnum(want):
            return True, got
        if lib.is_num_obs(got):
            cls = 'near' if lib.ulps(lib.num_of(got), want) <= TOL_ULPS \
                else 'far'
            return False, '%s (%s)' % (got, cls)
        return False, got
    if near(got, want):
        if fn == 'MOD' and lib.num_of(got) != 0 and \
                (lib.num_of(got) < 0) != (want < 0):
            return False, got
        return True, got
    if is_err and lib.ulps(abs(want), DBL_MAX) <= TOL_ULPS:
        return True, got
    return False, got


def arg_key(a):
    return repr(a)


def run_case(ctx, fam, fn, args, route, extra=()):
    if fn != '^' and fn not in lib.FUNCTIONS:
        ctx.skip('unregistered:' + fn)
        return
    if unsafe_power(fn, args, route):
        ctx.skip('bigint-power-not-executed')
        return
    want, tags, nontriv = expected(fn, args)
    tags.add('fn:' + fn)
    tags.add('route:' + route)
    tags.update(extra)
    if any(is_int_carrier(args[i], route) for i in number_positions(fn, args)):
        tags.add('spell:int-carrier')
    else:
        tags.add('spell:float-carrier')
    got = observe(fn, args, route)
    ok, got_sig = judge(fn, want, got, tags)
    key = 'C16/%s/%s/%s/%s' % (fam, fn, ','.join(map(arg_key, args)), route)
    if ok:
        ctx.ok(key, got, nontriv)
    else:
        inputs = {'fam': fam, 'fn': fn, 'args': list(args), 'route': route,
                  'extra': list(extra),
                  'formula': None if route == 'call'
                  else formula_for(fn, args, route)}
        ctx.fail(key, sorted(tags), inputs, show(want), got_sig, nontriv)


def replay(inputs, ctx):
    if inputs['fam'] == 'after':
        shard_after(inputs, ctx)
        return
    run_case(ctx, inputs['fam'], inputs['fn'], tuple(inputs['args']),
             inputs['route'], tuple(inputs.get('extra', ())))


# -- families -----------------------------------------------------------------
def rounding_calls(ctx, fam, x, route, digit_set, extra=()):
    for fn in ROUND4:
        for d in digit_set:
            run_case(ctx, fam, fn, (x, d), route, extra)
    run_case(ctx, fam, 'INT', (x,), route, extra)
    run_case(ctx, fam, 'EVEN', (x,), route, extra)
    run_case(ctx, fam, 'ROUND', (x,), route, extra)
    run_case(ctx, fam, 'TRUNC', (x,), route, extra)


def shard_round(sh, ctx):
    e, route = sh['e'], sh['route']
    for m in range(sh['mlo'], sh['mhi'] + 1):
        if not (m % 10 or e == sh['elast']):
            continue
        x = lat_value(m, e, sh['sign'])
        rounding_calls(ctx, 'round', x, route, DIGITS)
        if route == 'call' and e >= 0 and m <= 99:
            rounding_calls(ctx, 'round', int(x), route, DIGITS)
    if sh['mlo'] == 1 and sh['sign'] == -1 and e in (-2, 3):
        ctx.sample({'fn': 'ROUND', 'args': [lat_value(7, e, -1), -e - 1],
                    'route': route})


def shard_ties(sh, ctx):
    k, route = sh['k'], sh['route']
    ds = tie_digits(k, sh['digits'])
    for m in range(sh['mlo'], sh['mhi'] + 1):
        for variant, x in tie_numbers(m, k):
            rounding_calls(ctx, 'ties', sh['sign'] * x, route, ds,
                           ('tie-neighbour:' + variant,))
    if sh['mlo'] == 0 and k == 3 and sh['sign'] == 1:
        ctx.sample({'fn': 'ROUND', 'args': [tie_numbers(2, 3)[1][1], 3],
                    'route': route, 'note': 'tie neighbour below'})


TOP_X = (1.75e308, 1.79769313486231e308, 1.5e308, 9.99999999999999e307)
TOP_DIGITS = (-308, -307, -300, -10, 0, 5)
TOP_SIGS = (1e308, 3e307, 1.0, 1e300)


def top_of_range(sh, ctx):
    """Results that would exceed the largest double: an error value, never
    infinity or a Python exception."""
    for x0 in TOP_X:
        x = sh['sign'] * x0
        rounding_calls(ctx, 'extreme', x, sh['route'], TOP_DIGITS,
                       ('magnitude:top-of-range',))
        for fn in ('CEILING', 'FLOOR'):
            for sg in TOP_SIGS:
                for sgn in (1, -1):
                    run_case(ctx, 'extreme', fn, (x, sgn * sg), sh['route'],
                             ('magnitude:top-of-range',))


def shard_extreme(sh, ctx):
    if sh['m'] == EXTREME_M[0]:
        top_of_range(sh, ctx)
    for e in EXTREME_E:
        x = lat_value(sh['m'], e, sh['sign'])
        rounding_calls(ctx, 'extreme', x, sh['route'], DIGITS,
                       ('magnitude:extreme',))
        for fn in ('CEILING', 'FLOOR'):
            for sg in (1.0, 0.01, -3.0, 1e10):
                run_case(ctx, 'extreme', fn, (x, sg), sh['route'],
                         ('magnitude:extreme',))


def signed_sigs(big):
    out = [0.0]
    for s in (SIGS_T if big else SIGS):
        out.append(float(s))
        out.append(-float(s))
    return out


def shard_cf(sh, ctx):
    e, route = sh['e'], sh['route']
    sigs = signed_sigs(sh['big'])
    for m in range(sh['mlo'], sh['mhi'] + 1):
        if not (m % 10 or e == sh['elast']):
            continue
        x = lat_value(m, e, sh['sign'])
        for sg in sigs:
            for fn in ('CEILING', 'FLOOR'):
                run_case(ctx, 'cf', fn, (x, sg), route)
                if route == 'call' and x == int(x) and sg == int(sg) \
                        and m <= 99:
                    run_case(ctx, 'cf', fn, (int(x), int(sg)), route)


def shard_cf_mult(sh, ctx):
    """Numbers that are exact decimal multiples k*significance (and zero)."""
    route = sh['route']
    kmax = 60 if sh['big'] else 30
    for sg in signed_sigs(sh['big']):
        for fn in ('CEILING', 'FLOOR'):
            run_case(ctx, 'cf-mult', fn, (0.0, sg), route)
        if sg == 0:
            continue
        s = rd.exact(sg)
        for k in range(-kmax, kmax + 1):
            if k == 0:
                continue
            x = rd.to_float(k * s)
            if rd.exact(x) != k * s:
                continue              # not representable with 15 digits
            for fn in ('CEILING', 'FLOOR'):
                run_case(ctx, 'cf-mult', fn, (x, sg), route)
    ctx.sample({'fn': 'FLOOR', 'args': [0.7, 0.1], 'route': route})


def shard_unary(sh, ctx):
    fn, e, route = sh['fn'], sh['e'], sh['route']
    for m in range(sh['mlo'], sh['mhi'] + 1):
        if not (m % 10 or e == sh['elast']):
            continue
        for sign in (1, -1):
            x = lat_value(m, e, sign)
            run_case(ctx, 'unary', fn, (x,), route)
            if route == 'call' and e >= 0 and m <= 9:
                run_case(ctx, 'unary', fn, (int(x),), route)
    if sh['mlo'] == 1 and e == 0:
        ctx.sample({'fn': fn, 'args': [lat_value(3, e)], 'route': route})


def shard_bounds(sh, ctx):
    fn, route = sh['fn'], sh['route']
    seen = set()
    for x in UNARY_BOUNDS.get(fn, ()):
        if x in seen:
            continue
        seen.add(x)
        run_case(ctx, 'bounds', fn, (x,), route, ('boundary',))


def shard_binary(sh, ctx):
    fn, route = sh['fn'], sh['route']
    pts = binary_points(sh['set'])
    for i in range(sh['ilo'], sh['ihi'] + 1):
        x = pts[i]
        for y in pts:
            run_case(ctx, 'binary', fn, (x, y), route)
            if route in ('call', 'ref') and x == int(x) and y == int(y) \
                    and abs(x) < 2 ** 53 and abs(y) < 2 ** 53:
                run_case(ctx, 'binary', fn, (int(x), int(y)), route)
    if sh['ilo'] == 0 and fn == 'MOD':
        # dividends whose ratio to the divisor is below one ulp: the
        # correctly rounded remainder is the divisor itself (opposite signs)
        # or the dividend (same signs)
        for x, y in MOD_TINY:
            run_case(ctx, 'binary', fn, (x, y), route, ('mod:tiny-ratio',))
    if sh['ilo'] == 0:
        ctx.sample({'fn': fn, 'args': [pts[sh['ihi']], pts[3]],
                    'route': route})


def shard_fact(sh, ctx):
    route = sh['route']
    for n in list(range(-5, 176)) + [200, 500, 1000]:
        run_case(ctx, 'fact', 'FACT', (n,), route)
        if route != 'lit':
            run_case(ctx, 'fact', 'FACT', (float(n),), route)
    # arguments that are not whole are truncated first - also in the last
    # unit of the domain
    for x in (0.5, 1.9, 5.999, 169.5, 170.5, 170.999, 171.0001):
        run_case(ctx, 'fact', 'FACT', (x,), route, ('arg:not-whole',))
    for x in (0.5, 2.9, 299.5, 300.5, 300.999, 301.0001):
        run_case(ctx, 'fact', 'FACTDOUBLE', (x,), route, ('arg:not-whole',))
    for n in list(range(-5, 306)) + [500, 1000]:
        run_case(ctx, 'fact', 'FACTDOUBLE', (n,), route)
        if route != 'lit':
            run_case(ctx, 'fact', 'FACTDOUBLE', (float(n),), route)
    for n in list(range(-10, 11)) + [99, 100, -99, -100, 2 ** 31, 2 ** 31 + 1]:
        for fn in ('ISEVEN', 'ISODD'):
            run_case(ctx, 'fact', fn, (n,), route)
            if route != 'lit':
                run_case(ctx, 'fact', fn, (float(n),), route)
    if route != 'ref':
        run_case(ctx, 'fact', 'PI', (), route)
    # one-argument LOG (base 10)
    for x in (0.001, 0.5, 1.0, 8.0, 10.0, 86.0, 1e5, 0.0, -1.0):
        run_case(ctx, 'fact', 'LOG', (x,), route, ('base:default',))


# -- what a call leaves behind ---------------------------------------------------
# A function's answer depends on its arguments, not on which function was
# asked before with an argument at the edge of its domain (numpy's error mode,
# a memo in which 0.0 and -0.0 are one key ...).  Each sequence runs in a fresh
# interpreter: the openers of one function, then the probes; the probes alone
# in another fresh interpreter are the reference.
AFTER_EDGE = (1e308, -1e308, 711.0, -711.0, -0.0, 0.0, 0, 1e-320, 2.0, -1)
AFTER_PROBES = (
    ('EXP', (710,)), ('EXP', (-750,)), ('EXP', (709,)), ('DEGREES', (1e308,)),
    ('COSH', (711,)), ('SINH', (-711,)), ('POWER', (10, 400)),
    ('POWER', (2, 0.5)), ('POWER', (-8, 1 / 3)), ('FACT', (171,)),
    ('SQRT', (-1,)), ('LN', (0,)), ('LOG10', (0,)), ('LOG', (8, 1)),
    ('MOD', (5, 0)), ('MOD', (-7, 3)), ('ACOS', (2,)), ('ATANH', (1,)),
    ('ATAN2', (-1.0, 0.0)), ('ATAN2', (-1.0, -0.0)), ('ATAN2', (0.0, -1.0)),
    ('ATAN2', (-1, 0)), ('ROUND', (2.675, 2)), ('ROUND', (-0.4, 0)),
    ('ROUNDDOWN', (-0.4, 0)), ('CEILING', (-0.4, 1)), ('INT', (-0.5,)),
    ('TAN', (1.5707963267949,)), ('SIN', (1e22,)), ('RADIANS', (1e308,)),
    ('EVEN', (1e308,)), ('FLOOR', (1e308, 3)), ('TRUNC', (1e308, -5)),
)


def _fresh_calls(seq):
    import json
    import os
    import subprocess
    import sys
    root = os.path.dirname(os.path.dirname(os.path.dirname(
        os.path.abspath(__file__))))
    p = subprocess.run(
        [sys.executable, '-W', 'ignore', '-m', 'xlmc.checks.c18_proc',
         json.dumps(seq)],
        cwd=root, stdout=subprocess.PIPE, stderr=subprocess.DEVNULL,
        text=True, timeout=300)
    if p.returncode != 0 or not p.stdout.strip():
        return None
    return json.loads(p.stdout.strip().splitlines()[-1])


def after_openers(fn):
    if fn in ('POWER', 'ATAN2', 'MOD', 'LOG'):
        return [[fn, [a, b]] for a in AFTER_EDGE[:6] for b in (-0.0, 0.5, 400)]
    if fn in ROUND4 + ('CEILING', 'FLOOR'):
        return [[fn, [a, d]] for a in AFTER_EDGE for d in (0, -300, 1)]
    return [[fn, [a]] for a in AFTER_EDGE]


def shard_after(sh, ctx):
    probes = [[fn, list(args)] for fn, args in AFTER_PROBES]
    base = _fresh_calls(probes)
    if base is None:
        from .. import runner
        raise runner.HarnessError('c18_proc failed (C16 after)')
    for fn in sh['fns']:
        openers = after_openers(fn)
        res = _fresh_calls(openers + probes)
        tags = ['family:after-edge-call', 'opener:' + fn]
        inputs = {'fam': 'after', 'fns': [fn]}
        if res is None:
            ctx.fail('C16/after/%s/process' % fn, tags, inputs,
                     'sequence runs', 'process failed')
            continue
        for (pf, pa), got, want in zip(AFTER_PROBES, res[len(openers):],
                                       base):
            ctx.check('C16/after/%s/%s%r' % (fn, pf, tuple(pa)), got, want,
                      tags + ['fn:' + pf], inputs, True,
                      note='fresh process: %s at the edges of its domain, '
                      'then this call' % fn)


FAMILIES = {'after': shard_after, 'round': shard_round, 'ties': shard_ties,
            'extreme': shard_extreme, 'cf': shard_cf,
            'cf-mult': shard_cf_mult, 'unary': shard_unary,
            'bounds': shard_bounds, 'binary': shard_binary,
            'fact': shard_fact}


def run_shard(shard, ctx):
    FAMILIES[shard['fam']](shard, ctx)


def init_worker(tier):
    import warnings
    warnings.simplefilter('ignore')       # numpy RuntimeWarning chatter


def selftest():
    rd.selftest()
    el.selftest()
    # generator facts
    assert tie_numbers(267, 2) == (('exact', 2.675),
                                   ('below', 2.67499999999999),
                                   ('above', 2.67500000000001))
    assert tie_numbers(0, 0)[0] == ('exact', 0.5)
    assert tie_numbers(0, 0)[1] == ('below', 0.499999999999999)
    seen = set()
    for k in range(0, 11):
        for m in range(0, 1000, 37):
            for _, x in tie_numbers(m, k):
                assert x not in seen
                seen.add(x)
                assert len(repr(x).replace('.', '').replace('-', '')
                           .split('e')[0].strip('0')) <= 15
    vals = [lat_value(m, e) for m, e in lattice(99, -6, 6)]
    assert len(vals) == len(set(vals)) == 90 * 13 + 9
    assert positional(1.5e-07) == '0.00000015'
    assert positional(99000000.0) == '99000000'
    assert positional(-2.5) == '-2.5'
    assert positional(1e22) == '1E+22'
    assert positional(1.23456789012345e+29) == '1.23456789012345E+29'
    assert positional(-1e100) == '-1E+100'
    assert positional(1e15) == '1000000000000000'
    assert formula_for('^', (-8.0, 0.5), 'lit') == '=(-8)^0.5'
    assert formula_for('ROUND', (2.675, 2), 'lit') == '=ROUND(2.675,2)'
    assert formula_for('ROUND', (2.675, 2), 'ref') == '=ROUND(A1,B1)'
    assert unsafe_power('^', (1000.0, 1e6), 'lit')
    assert not unsafe_power('POWER', (10.0, 400.0), 'lit')
    assert not unsafe_power('POWER', (1000.0, 1e6), 'call')
    assert len(binary_points('Q')) == 61
    for tier in ('quick', 'thorough'):
        assert len(plan(tier)) > 100
    # the judge
    assert judge('ROUND', 2.68, 'num:2.68', set()) == (True, 'num:2.68')
    assert judge('ROUND', 2.68, 'num:2.67', set()) == \
        (False, 'num:2.67 (far)')
    assert judge('FLOOR', 0.3, 'num:0.30000000000000004', set()) == \
        (False, 'num:0.30000000000000004 (near)')
    assert judge('SIN', 0.5, 'num:0.5000000000000002', set())[0]
    assert not judge('SIN', 0.5, 'num:0.500000000000001', set())[0]
    assert not judge('SIN', 0.5, 'err:#NUM!', set())[0]
    assert judge('LN', rd.DOMAIN, 'err:#NUM!', set())[0]
    assert judge('LN', rd.DOMAIN, 'err:#VALUE!', set())[0]
    for bad in ('raise:ValueError', 'nonfinite:nan', 'nonfinite:-inf',
                'num:0.0', 'timeout', 'blank'):
        assert not judge('LN', rd.DOMAIN, bad, set())[0], bad
    assert judge('POWER', rd.Lenient((1.0,)), 'num:1.0', set())[0]
    assert judge('POWER', rd.Lenient((1.0,)), 'err:#NUM!', set())[0]
    assert not judge('POWER', rd.Lenient((1.0,)), 'raise:ZeroDivisionError',
                     set())[0]
    assert not judge('MOD', 1.0, 'num:-1.0', set())[0]
    assert judge('ISEVEN', True, 'bool:True', set())[0]
    assert not judge('ISEVEN', True, 'bool:False', set())[0]
    assert show(rd.DOMAIN) == 'err:any' and show(2.5) == 'num:2.5'
    assert show(rd.Lenient((1.0,))) == 'num:1.0|err:any'


TECHNIQUE = ('bounded-exhaustive enumeration of decimal lattices, ties, '
             'domain boundaries and argument pairs, executed on the real '
             'functions (direct calls and compiled formulas), against exact '
             'integer/decimal reference models')
LEVEL_TEXT = ('Every number +-m*10^e (m<=999 for |e|<=3, m<=99 for '
              '4<=|e|<=6; thorough m<=9999 for |e|<=6, m<=999 for '
              '7<=|e|<=10), every exact tie (m+1/2)*10^-k (m<1000, k<=10) '
              'with its 15-digit neighbours and a set of numbers with '
              'exponents across the double range is rounded with every digit '
              'count -10..10 by ROUND, ROUNDUP, ROUNDDOWN, TRUNC (and INT, '
              'EVEN), CEILING/FLOOR with signed significances and exact '
              'multiples, and compared for equality with an exact integer '
              'model of decimal rounding; every unary elementary function '
              'is evaluated on the lattice (m<=99; thorough m<=999) and at '
              'its domain boundaries +-2 ulp, every binary one on all pairs '
              'of a 61-point (thorough 121-point) signed sub-lattice with '
              'zero, and compared within 4 ulp with an 80-digit decimal '
              'reference; out-of-domain arguments must give an Excel error '
              'value.  Direct calls for all cases, literal formulas and cell '
              'references for sub-lattices.')
LEVEL_NOTE = ('Trusted: xlmc/ref/rounding.py and xlmc/ref/elementary.py '
              '(self-tested against documentation examples, 50-digit '
              'constants, identities, decimal.quantize and glibc libm). '
              'Not covered: mantissas with 5-15 significant digits that are '
              'not tie neighbours, the error code of a domain error, '
              'fractional digit counts, non-numeric arguments, functions '
              'that are not registered (SINH, TANH, ATANH are skipped and '
              'counted when absent).')
