"""C01 - formulas evaluate under Excel's operator precedence and associativity.

Oracle scope
  enforced : value of the expression under the grammar quoted in the property
             (unary minus > % > ^ > * / > + - > & > comparisons, binary
             operators left-associative, x/0 = #DIV/0!), for every rendering
             (minimal / full / redundant parentheses, blanks around operators,
             blanks inside parentheses, trailing blank, literal / percent /
             scientific / cell-reference leaves); all renderings of one tree
             agree with each other.
  refused  : domain errors of ^ (C16), the text form of booleans and of
             numbers that need more than 15 digits or an exponent (C08/C17),
             non-canonical numeric text in arithmetic (C08), results beyond
             1e12 - counted under skipped_out_of_scope, never judged.
"""
import itertools

from .. import lib
from ..gen import exprs
from ..ref import excel_eval as ref

PROPERTY = 'C01'
LEVEL = 'exploration'
RULE = ('every expression tree with n operator nodes over the 13 operators '
        '(12 binary + unary minus), n<=3 quick / n<=4 thorough plus n=5 over '
        'one operator per precedence class; leaves are positional so each '
        'mis-association changes the value; each tree x value vectors x '
        'renderings is compiled into a fresh model and evaluated; a case is '
        'non-trivial when its tree has >=2 operator nodes (a precedence or '
        'associativity decision is needed) and the reference judged it')
BOUNDS = {
    'quick': {'max_ops_full_alphabet': 3, 'renderings': 'all 9'},
    'thorough': {'max_ops_full_alphabet': 4, 'n5_over': 'one operator per '
                 'precedence class', 'renderings': 'all 9 for n<=3, 3 for '
                 'n>=4'},
}
ASSUMPTIONS = [
    'Excel grammar as quoted in the property statement (DESIGN.md A.1)',
    'reference evaluator xlmc/ref/excel_eval.py (self-tested against '
    'hand-derived Excel facts)',
]

VALS_SMALL = (0, 2, 3, 5, 0.57)  # 0: a zero factor must not hide an error; 57*0.01 is not 0.57
VECTORS = ((2, 3, 5, 7, 11, 13), (7, 5, 3, 2, 11, 4), (0.5, 4, 3, 2, 8, 5),
           (0, 3, 0, 2, 5, 0),
           # tiny but non-zero divisors are not zero
           (2e-17, 3, 4e-17, 5, 8e-17, 2),
           # fractional exponents: a negated base has no real power
           (4, 0.5, 9, 1.5, 2, 0.5),
           # x*0.01 is not x/100 for these
           (3, 0.57, 7, 2, 1.15, 5))

AT = 'Sheet1!Z1'

# name, leaf spelling, render kwargs, feature tags, literal-leaf family
RENDERINGS = (
    ('min-lit', 'lit', {}, ()),
    ('min-ref', 'ref', {}, ('leaf:ref',)),
    ('min-mixed', 'mixed', {}, ('lit:percent', 'lit:sci')),
    # the same literals with a blank before, or parentheses under, the
    # percent sign: the same number, bit for bit
    ('blankpct-mixed', 'mixed-blank', {}, ('lit:percent', 'ws:percent')),
    ('parenpct-mixed', 'mixed-paren', {}, ('lit:percent', 'paren:percent')),
    # every leaf is a reference followed by a percent sign (cell = 100 * v):
    # % binds tighter than every binary operator, so the leaf stays atomic
    # a literal may begin or end with its decimal point: .5 and 5.
    ('dot-lit', 'lit-dot', {}, ('lit:bare-point',)),
    ('min-refpct', 'refpct', {}, ('leaf:ref', 'pct:on-reference')),
    ('full-lit', 'lit', {'full': True}, ('paren:full',)),
    ('leafparen-ref', 'ref', {'leafparens': True}, ('paren:leaf',
                                                     'leaf:ref')),
    ('opblank-lit', 'lit', {'opblank': True}, ('ws:op',)),
    ('parenblank-lit', 'lit', {'full': True, 'parenblank': True},
     ('ws:paren',)),
    ('trailing-lit', 'lit', {'opblank': True, 'trailing': True},
     ('ws:trailing', 'ws:op')),
)
RENDER_FEW = ('min-lit', 'min-ref', 'trailing-lit')


def leaf_fn(spelling, vec):
    if spelling == 'lit':
        return lambda i: exprs.plain(vec[i])
    if spelling == 'lit-dot':
        def dot(i):
            t = exprs.plain(vec[i])
            if 'E' in t:
                return t
            if '.' not in t:
                return t + '.'
            return t[1:] if t.startswith('0.') else t
        return dot
    if spelling == 'ref':
        return exprs.cellref
    if spelling == 'refpct':
        return lambda i: exprs.cellref(i) + '%'
    if spelling in ('mixed', 'mixed-blank', 'mixed-paren'):
        def pct(v):
            t = exprs.percent(v)
            if spelling == 'mixed-blank':
                return t[:-1] + ' %'          # 57 %
            if spelling == 'mixed-paren':
                return '(' + t[:-1] + ')%'    # (57)%
            return t

        def f(i):
            return (exprs.plain, pct, exprs.sci)[i % 3](vec[i])
        return f
    raise AssertionError(spelling)


def formula_text(tree, vec, rname):
    for name, spelling, kw, tags in RENDERINGS:
        if name == rname:
            kw = dict(kw)
            trailing = kw.pop('trailing', False)
            text = '=' + exprs.render(tree, leaf_fn(spelling, vec), **kw)
            if trailing:
                text += ' '
            return text, spelling, tags
    raise KeyError(rname)


def plan(tier):
    shards = []
    chunk = 60

    def add(n, ops, total, few):
        for lo in range(0, total, chunk):
            shards.append({'n': n, 'ops': ops, 'lo': lo,
                           'hi': min(total, lo + chunk), 'few': few})
    for n in (1, 2, 3):
        add(n, 'all', len(exprs.shapes(n)), False)
    if tier == 'thorough':
        chunk = 400
        add(4, 'all', len(exprs.shapes(4)), True)
        add(5, 'reps', len(exprs.shapes(5, exprs.CLASS_REPS)), True)
    return shards


def vectors_for(n, nleaves):
    if n <= 2:
        return [tuple(v) for v in itertools.product(VALS_SMALL,
                                                     repeat=nleaves)]
    return [v[:nleaves] for v in VECTORS]


def run_case(tree, vec, rnames, ctx):
    tags = set()
    try:
        want = ref.evaluate(tree, vec, tags)
        skip = None
    except ref.Skip as s:
        want, skip = None, s.args[0]
    tkey = exprs.key_of(tree)
    nontriv = exprs.nontrivial(tree)
    if skip in ('magnitude', 'pow-overflow') or exprs.unsafe_bits(tree, vec):
        # never executed: Python integer powers could exhaust the machine
        ctx.skip(skip or 'unsafe-bigint-under-some-bracketing', len(rnames))
        return want
    first_by_family = {}
    for rname in rnames:
        text, spelling, rtags = formula_text(tree, vec, rname)
        cells = {}
        if spelling == 'ref':
            cells = {'Sheet1!' + exprs.cellref(i): v
                     for i, v in enumerate(vec)}
        elif spelling == 'refpct':
            cells = {'Sheet1!' + exprs.cellref(i): v * 100
                     for i, v in enumerate(vec)}
        model = None
        if spelling in ('ref', 'refpct') and len(vec) > 1:
            # keep the compiled model: it is evaluated again below under a
            # second assignment ("all assignments of numbers to the
            # referenced cells" of ONE compiled formula)
            d = dict(cells)
            d[AT] = text
            try:
                model = lib.compile_dict(d)
                got = lib.eval_addr(model, AT)
            except Exception as exc:  # noqa: BLE001
                model = None
                got = 'compile-raise:%s' % type(lib.innermost(exc)).__name__
        else:
            got = lib.eval_formula(text, cells, at=AT)
        key = 'C01/%s/v=%s/r=%s' % (tkey, ','.join(map(repr, vec)), rname)
        inputs = {'tree': tree, 'vec': list(vec), 'rendering': rname,
                  'formula': text, 'cells': cells}
        if skip is None:
            if ref.accepts(want, got):
                ctx.ok(key, got, nontriv)
                # "redundant parentheses and blanks never change the
                # result": not even in the last bit
                if got.startswith('num:'):
                    w = first_by_family.setdefault(spelling.split('-')[0],
                                                   got)
                    if got != w:
                        ctx.fail(key + '#same-bits',
                                 sorted(set(rtags) | {'metamorphic:exact'}),
                                 inputs, w, got, False)
            else:
                ctx.fail(key, sorted(tags | set(rtags)), inputs,
                         ref.show(want), got, nontriv)
        else:
            ctx.skip(skip)
            # metamorphic: renderings with the same leaf spelling agree
            if spelling in first_by_family:
                w = first_by_family[spelling]
                if got == w:
                    ctx.ok(key, got, False)
                else:
                    ctx.fail(key, sorted(set(rtags) | {'metamorphic'}),
                             inputs, w, got, False)
            else:
                first_by_family[spelling] = got
        if model is not None:
            second_assignment(tree, vec, rname, spelling, rtags, model, ctx,
                              nontriv)
    return want


def second_assignment(tree, vec, rname, spelling, rtags, model, ctx, nontriv):
    """The same compiled model, its cells overwritten with the rotated
    vector, evaluated again."""
    vec2 = tuple(vec[1:]) + tuple(vec[:1])
    if vec2 == tuple(vec):
        return
    tags = set()
    try:
        want = ref.evaluate(tree, vec2, tags)
    except ref.Skip as sk:
        ctx.skip(sk.args[0])
        return
    if exprs.unsafe_bits(tree, vec2):
        ctx.skip('unsafe-bigint-under-some-bracketing')
        return
    ev = lib.Evaluator(model)
    scale = 100 if spelling == 'refpct' else 1
    for i, v in enumerate(vec2):
        lib.observe(ev.set_cell_value, 'Sheet1!' + exprs.cellref(i),
                    v * scale)
    got = lib.observe(ev.evaluate, AT)
    lib.clear_caches()
    key = 'C01/%s/v=%s->%s/r=%s' % (exprs.key_of(tree),
                                    ','.join(map(repr, vec)),
                                    ','.join(map(repr, vec2)), rname)
    inputs = {'tree': tree, 'vec': list(vec), 'rendering': rname,
              'second': list(vec2)}
    if ref.accepts(want, got):
        ctx.ok(key, got, nontriv)
    else:
        ctx.fail(key, sorted(tags | set(rtags) | {'assignment:second'}),
                 inputs, ref.show(want), got, nontriv)


def run_shard(shard, ctx):
    ops = exprs.BINOPS if shard['ops'] == 'all' else exprs.CLASS_REPS
    all_shapes = exprs.shapes(shard['n'], ops)
    rnames = RENDER_FEW if shard['few'] else [r[0] for r in RENDERINGS]
    if shard['n'] >= 3:
        # the percent-sign spellings are a matter of one leaf: small trees
        rnames = [r for r in rnames
                  if r not in ('blankpct-mixed', 'parenpct-mixed',
                               'dot-lit')]
    for s in all_shapes[shard['lo']:shard['hi']]:
        tree, nleaves = exprs.number_leaves(s)
        for vec in vectors_for(shard['n'], nleaves):
            run_case(tree, vec, rnames, ctx)
        if shard['lo'] % 600 == 0 and s is all_shapes[shard['lo']]:
            text, _, _ = formula_text(tree, vectors_for(shard['n'],
                                                        nleaves)[0],
                                      'min-lit')
            ctx.sample({'tree': exprs.key_of(tree), 'formula': text})


def _tuplify(t):
    return tuple(_tuplify(x) if isinstance(x, list) else x for x in t)


def replay(inputs, ctx):
    tree = _tuplify(inputs['tree'])
    vec = tuple(inputs['vec'])
    # replay the stored rendering together with the minimal one so that the
    # metamorphic comparison has its partner
    names = [inputs['rendering']]
    fam = {r[0]: r[1] for r in RENDERINGS}
    base = {'lit': 'min-lit', 'ref': 'min-ref', 'mixed': 'min-mixed',
            'refpct': 'min-refpct'}[
        fam[inputs['rendering']].split('-')[0]]
    if base not in names:
        names.insert(0, base)
    run_case(tree, vec, names, ctx)


def selftest():
    ref.selftest()
    # the minimal rendering is injective on the enumerated trees
    seen = {}
    for n in (1, 2, 3):
        for tree, k in exprs.trees(n):
            t = exprs.minimal(tree, lambda i: 'x')
            assert t not in seen, (t, tree, seen[t])
            seen[t] = tree
    for v in VALS_SMALL + tuple(x for vec in VECTORS for x in vec):
        assert abs((v * 100) * 0.01 - v) <= 1e-15 * abs(v), v      # the refpct rendering is exact
    assert exprs.sci(0.5) == '5E-1' and exprs.sci(11) == '1.1E+1'
    assert exprs.percent(0.5) == '50%' and exprs.percent(7) == '700%'
    assert exprs.minimal(('bin', '^', ('neg', ('leaf', 0)), ('leaf', 1)),
                         lambda i: '2') == '-2^2'
    assert exprs.minimal(('neg', ('bin', '^', ('leaf', 0), ('leaf', 1))),
                         lambda i: '2') == '-(2^2)'
    assert exprs.minimal(('bin', '-', ('leaf', 0), ('bin', '-', ('leaf', 1),
                         ('leaf', 2))), lambda i: 'x') == 'x-(x-x)'

TECHNIQUE = ('bounded-exhaustive enumeration of expression trees x renderings '
             'x assignments, executed on the real evaluator, against a '
             'reference evaluator of the Excel grammar')
LEVEL_TEXT = ('Every expression tree with up to 3 (thorough: 4, plus 5 over '
              'class representatives) operator nodes over all 13 operators, '
              'in 8 renderings and with positional operand values, is '
              'compiled and evaluated by the real library and compared with '
              'an independent reference evaluator; this contains every '
              'ordered operator pair and triple in every nesting shape, which '
              'is what precedence and associativity are a relation over.')
LEVEL_NOTE = ('Trusted: the reference evaluator (xlmc/ref/excel_eval.py, '
              'self-tested) and the Excel grammar as quoted in the property. '
              'Not covered: more than 4 (5) operators, operand values outside '
              'the vectors, cases the reference refuses to judge '
              '(skipped_out_of_scope in the evidence).')
