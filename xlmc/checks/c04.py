"""C04 - evaluation always reflects the current inputs (no stale results).

Engine H.  For each small acyclic model every history over the alphabet
  set(input, v)   for every input and every value v   (by address, and by
                  defined name where the model has one); through an
                  Evaluator at even history positions, directly through
                  Model.set_cell_value at odd ones
  evaluate(c)     for every cell c of the model, by one of two evaluators
                  sharing the model (alternating with the history position)
is executed on a FRESH real model (prefix replayed), unmerged up to a depth
bound; the thorough tier additionally runs a breadth-first search that merges
states with equal object-graph fingerprints until no new state appears (the
complete reachable state space of the alphabet).

Oracle scope (checked on the last step of every history)
  * evaluate(c) = the generator's arithmetic value for the current inputs
    = evaluate(c) on a model freshly built with the current inputs;
  * afterwards get_cell_value(c) denotes that value;
  * get_cell_value(input) = the last value set (or the initial constant);
  * get_cell_value / evaluate of an input do not change the state at all
    (fingerprint equality) ;
  * set through a defined name reaches the same state as set through the
    address (fingerprint equality).
Not judged: the stored value of a formula cell that was only recomputed as a
dependency of another cell (the statement fixes it for the evaluated cell).
"""
import itertools

from .. import lib, explore
from ..gen import models

PROPERTY = 'C04'
LEVEL = 'model_checking'
ENGINE = 'xlmc-H'
RULE = ('all histories over set(input,v)/evaluate(cell) on 13 small acyclic '
        'models, executed on the real library (fresh model per history, '
        'prefix replayed), oracle on the last step; non-trivial = the '
        'history contains an evaluate that follows a set of one of its '
        'transitive inputs which itself follows an earlier evaluate (a stale '
        'result would be observable)')
BOUNDS = {
    'quick': {'unmerged_depth': 4, 'unmerged_depth_named_model': 3,
              'unmerged_depth_alphabets_over_9_ops': 3, 'merged': 'depth 5',
              'whole_row_model_depth': 2},
    'thorough': {'unmerged_depth': 5, 'unmerged_depth_named_model': 4,
                 'whole_row_model_depth': 4,
                 'merged': 'fixpoint (complete reachable state space)'},
}
ASSUMPTIONS = [
    'state = object graph reachable from Model and Evaluator (DESIGN.md 3.4)',
    'reference values: plain Python arithmetic per model (xlmc/gen/models.py)',
]
TECHNIQUE = ('explicit-state exploration of set/evaluate histories on the '
             'real implementation (stateless to a depth bound, plus '
             'fingerprint-merged BFS to the reachable-state fixpoint) with a '
             'differential fresh-model oracle')
LEVEL_TEXT = ('Every history of set_cell_value/evaluate calls up to the depth '
              'bound on 13 dependency shapes (chain, diamond, range of inputs, lazy branch, lookup, '
              'range of formulas, cross-sheet, text, defined name) runs on '
              'the real library and is compared with a freshly built model '
              'and with reference arithmetic; a merged search covers the '
              'complete reachable state space of the alphabet.')
LEVEL_NOTE = ('Every transition is an execution of the implementation, so '
              'there is no model/implementation gap; trusted: the fingerprint '
              'covers every attribute a later operation can read (generic '
              'walk), the per-model reference arithmetic.  Bounded: 13 models '
              'of <= 7 cells, two alternative values per input.')

DEPTH = {'quick': 4, 'thorough': 5}
DEPTH_NAMED = {'quick': 3, 'thorough': 4}
COSTLY_DEPTH = {'quick': 2, 'thorough': 4}
MERGED_DEPTH = {'quick': 5, 'thorough': None}     # None = to the fixpoint


def alphabet(spec):
    ops = []
    for a in spec.inputs:
        for v in spec.values:
            ops.append(('set', a, v))
    for name, addr in spec.names.items():
        for v in spec.values:
            ops.append(('setn', name, v))
    for c in spec.eval_cells:
        ops.append(('eval', c))
    return ops


class Run:
    """A fresh model with a history applied to it.

    Two evaluators share the model; operations at odd history positions use
    the second one, and a set at an odd position goes straight through
    ``Model.set_cell_value`` - the statement speaks of calls "on a model",
    whichever object carries them."""

    def __init__(self, spec):
        self.spec = spec
        self.model = models.build(spec, lib)
        self.ev = lib.Evaluator(self.model)
        self.ev2 = lib.Evaluator(self.model)
        self.inputs = spec.initial_inputs()
        self.last_obs = None
        self.pos = 0

    def apply(self, op):
        kind = op[0]
        odd = self.pos % 2 == 1
        self.pos += 1
        ev = self.ev2 if odd else self.ev
        setter = self.model.set_cell_value if odd else ev.set_cell_value
        if kind == 'set':
            target = op[1]
            if self.pos % 3 == 0:
                # the third spelling of the address: a cell object
                target = lib.XLCell(op[1], None)
                setter = self.model.set_cell_value
            self.last_obs = lib.observe(setter, target, op[2])
            self.inputs[op[1]] = op[2]
        elif kind == 'setn':
            self.last_obs = lib.observe(setter, op[1], op[2])
            self.inputs[self.spec.names[op[1]]] = op[2]
        elif kind == 'eval':
            self.last_obs = lib.observe(ev.evaluate, op[1])
        else:
            raise AssertionError(op)
        return self.last_obs

    def fp(self):
        return explore.fingerprint(self.model, self.ev, self.ev2)


def opname(op):
    return '%s(%s)' % (op[0], ','.join(str(x).replace('Sheet', 'S')
                                        for x in op[1:]))


def hist_key(spec, hist):
    return 'C04/%s/%s' % (spec.name, ';'.join(opname(o) for o in hist))


def is_nontrivial(spec, hist):
    """evaluate ... set ... evaluate pattern present."""
    state = 0
    for op in hist:
        if op[0] == 'eval' and state == 0:
            state = 1
        elif op[0] in ('set', 'setn') and state == 1:
            state = 2
        elif op[0] == 'eval' and state == 2:
            return True
    return False


def check_last(spec, hist, ctx, count_from=0):
    """Execute ``hist`` on a fresh model, judge its last step.  Returns the
    Run (for fingerprinting) ."""
    if spec.name == 'deepchain':
        import sys
        old = sys.getrecursionlimit()
        sys.setrecursionlimit(1000)        # the interpreter's default
        try:
            return _check_last(spec, hist, ctx, count_from)
        finally:
            sys.setrecursionlimit(old)
    return _check_last(spec, hist, ctx, count_from)


def _check_last(spec, hist, ctx, count_from=0):
    run = Run(spec)
    for op in hist[:-1]:
        run.apply(op)
    op = hist[-1]
    got = run.apply(op)
    key = hist_key(spec, hist)
    inputs = {'model': spec.name, 'history': [list(o) for o in hist]}
    # histories also covered by the unmerged search are not counted twice
    nontriv = is_nontrivial(spec, hist) and len(hist) > count_from
    ctx.count('transitions')
    ctx.count('traces_validated_against_impl')
    if op[0] == 'eval':
        c = op[1]
        tags = ['op:eval', 'model:' + spec.name]
        if spec.differential:
            # no reference arithmetic: the fresh model is the oracle
            fresh = models.build(spec, lib, spec.current_cells(run.inputs))
            want2 = lib.eval_addr(fresh, c)
            ctx.check(key + '#fresh', got, want2,
                      tags + ['oracle:fresh-model'], inputs, nontriv)
            return run
        want = models.obs(spec.reference(run.inputs)[c], lib)
        if not models.agrees(got, want):
            ctx.fail(key + '#value', tags + ['oracle:reference'], inputs, want,
                     got, nontriv)
        else:
            ctx.ok(key + '#value', got, nontriv)
        # differential: a fresh model holding the current inputs
        fresh = models.build(spec, lib, spec.current_cells(run.inputs))
        want2 = lib.eval_addr(fresh, c)
        ctx.check(key + '#fresh', got, want2, tags + ['oracle:fresh-model'],
                  inputs, nontriv)
        # the stored value becomes that value (nothing to store if it raises)
        if want != 'raise:*':
            stored = lib.observe(run.ev.get_cell_value, c)
            ctx.check(key + '#stored', stored, want, tags + ['oracle:stored'],
                      inputs, nontriv)
            # "the last value ... computed for the cell": the formula cells
            # that were computed on the way hold their values, too
            for p, wp in computed_on_the_way(spec, run.inputs, c):
                sp = lib.observe(run.ev.get_cell_value, p)
                if not models.agrees(sp, wp):
                    ctx.fail(key + '#stored-precedent/' + p,
                             tags + ['oracle:stored', 'cell:precedent'],
                             inputs, wp, sp, nontriv)
                else:
                    ctx.ok(key + '#stored-precedent/' + p, sp, False)
    else:
        ctx.check(key + '#ret', got, 'blank', ['op:set', 'oracle:set-returns'],
                  inputs, False)
        if op[0] == 'setn':
            # equivalent to setting through the address
            twin = Run(spec)
            for o in hist[:-1]:
                twin.apply(o)
            twin.apply(('set', spec.names[op[1]], op[2]))
            ctx.check(key + '#name-vs-address', run.fp(), twin.fp(),
                      ['op:setn', 'oracle:name-equals-address'], inputs, True)
    # get_cell_value of every input = last value set; and reading is pure
    before = run.fp()
    for a in spec.inputs:
        if run.inputs[a] is None:
            # not a cell of the model yet: what reading it returns is not
            # laid down, but reading it does not make it one
            lib.observe(run.ev.get_cell_value, a)
            continue
        g = lib.observe(run.ev.get_cell_value, a)
        ctx.check(key + '#get/' + a, g, lib.norm(run.inputs[a]),
                  ['oracle:get-input'], inputs, False)
    for name, addr in spec.names.items():
        g = lib.observe(run.ev.get_cell_value, name)
        ctx.check(key + '#getn/' + name, g, lib.norm(run.inputs[addr]),
                  ['oracle:get-input', 'via:name'], inputs, False)
    ctx.check(key + '#get-pure', run.fp(), before, ['oracle:get-pure'], inputs,
              False)
    if len(hist) <= 2 and spec.formulas and not spec.differential:
        # on a twin: the run itself is handed back for fingerprinting
        twin = Run(spec)
        for o in hist:
            twin.apply(o)
        foreign_sets(spec, twin, key, inputs, ctx)
    return run


def run_reload(spec, ctx):
    """The model object is loaded anew from a file it wrote earlier while
    its evaluator lives on: from then on the history starts at the persisted
    state, for that evaluator too."""
    import os
    import tempfile
    if spec.differential or not spec.inputs:
        return
    run = Run(spec)
    ev, model = run.ev, run.model
    for c in spec.eval_cells[:3]:
        lib.observe(ev.evaluate, c)
    inputs0 = spec.initial_inputs()
    a0 = spec.inputs[0]
    key0 = 'C04/%s/reload' % spec.name
    inputs = {'model': spec.name, 'kind': 'reload'}
    with tempfile.TemporaryDirectory(prefix='xlmc_c04_') as tmp:
        path = os.path.join(tmp, 'm.json')
        w = lib.observe(model.persist_to_json_file, path)
        # a what-if on the live model, then back to the persisted state
        lib.observe(ev.set_cell_value, a0, spec.values[-1])
        for c in spec.eval_cells[:3]:
            lib.observe(ev.evaluate, c)
        r = lib.observe(model.construct_from_json_file, path, True)
    if (w, r) != ('blank', 'blank'):
        ctx.skip('model-does-not-round-trip (C12)')
        return
    tags = ['model:' + spec.name, 'history:model-reloaded']
    for step, setv in (('after-reload', None), ('then-set', spec.values[0]),
                       ('then-set-again', spec.values[-1])):
        cur = dict(inputs0)
        if setv is not None:
            lib.observe(ev.set_cell_value, a0, setv)
            cur[a0] = setv
        want = spec.reference(cur)
        for c in spec.eval_cells:
            got = lib.observe(ev.evaluate, c)
            w_ = models.obs(want[c], lib)
            if models.agrees(got, w_):
                ctx.ok('%s/%s/%s#value' % (key0, step, c), got, True)
            else:
                ctx.fail('%s/%s/%s#value' % (key0, step, c),
                         tags + ['op:eval', 'oracle:reference'], inputs, w_,
                         got, True)
            if w_ != 'raise:*':
                ctx.check('%s/%s/%s#stored' % (key0, step, c),
                          lib.observe(ev.get_cell_value, c), w_,
                          tags + ['oracle:stored'], inputs, True)
        ctx.count('transitions', len(spec.eval_cells))
    ctx.count('states')
    lib.clear_caches()


SENTINEL = 990099


def foreign_sets(spec, run, key, inputs, ctx):
    """set_cell_value calls on ANOTHER model (one extracted from this one)
    are not part of this model's history: its inputs and values stay."""
    try:
        ext = lib.ModelCompiler.extract(run.model, focus=list(spec.formulas))
    except Exception:  # noqa: BLE001   (extract itself is C13's business)
        return
    for a in spec.inputs:
        if run.inputs[a] is not None and a in ext.cells:
            lib.observe(ext.set_cell_value, a, SENTINEL)
    tags = ['oracle:get-input', 'foreign:set-on-extracted-model']
    for a in spec.inputs:
        if run.inputs[a] is None:
            continue
        g = lib.observe(run.ev.get_cell_value, a)
        ctx.check(key + '#foreign-get/' + a, g, lib.norm(run.inputs[a]), tags,
                  inputs, True)
    want = spec.reference(run.inputs)
    for c in spec.formulas[:2]:
        got = lib.observe(run.ev.evaluate, c)
        w = models.obs(want[c], lib)
        if models.agrees(got, w):
            ctx.ok(key + '#foreign-eval/' + c, got, True)
        else:
            ctx.fail(key + '#foreign-eval/' + c,
                     ['oracle:reference', 'foreign:set-on-extracted-model'],
                     inputs, w, got, True)


def computed_on_the_way(spec, inputs, cell):
    """(address, expected observation) of the formula cells the reference
    evaluation of ``cell`` looks at (lazily: only selected branches)."""
    seen, order = {}, []

    def get(addr):
        if addr in seen:
            return seen[addr]
        if addr in inputs:
            v = inputs[addr]
        elif addr in spec.ref:
            v = spec.ref[addr](get)
            order.append(addr)
        else:
            v = spec.cells.get(addr)
        seen[addr] = v
        return v
    try:
        get(cell)
    except Exception:  # noqa: BLE001   (a raising reference: nothing stored)
        return []
    out = []
    for a in order:
        if a == cell or seen[a] is models.RAISES:
            continue
        out.append((a, models.obs(seen[a], lib)))
    return out


def plan(tier):
    shards = []
    for f in models.ALL:
        spec = f()
        ops = alphabet(spec)
        depth = (DEPTH_NAMED if spec.names else DEPTH)[tier]
        if len(ops) > 9 and not spec.names:
            depth -= 1            # large alphabets: one level less, unmerged
        plen = min(2, depth)
        shards.append({'model': spec.name, 'mode': 'short', 'plen': plen})
        shards.append({'model': spec.name, 'mode': 'reload'})
        for prefix in itertools.product(range(len(ops)), repeat=plen):
            shards.append({'model': spec.name, 'mode': 'unmerged',
                           'prefix': list(prefix), 'depth': depth})
        shards.append({'model': spec.name, 'mode': 'merged', 'weight': 100,
                       'unmerged_depth': depth,
                       'max_depth': MERGED_DEPTH[tier]})
    for f in models.COSTLY:
        spec = f()
        ops = alphabet(spec)
        depth = COSTLY_DEPTH[tier] + (1 if spec.name == 'deepchain' else 0)
        shards.append({'model': spec.name, 'mode': 'short', 'plen': 2})
        for prefix in itertools.product(range(len(ops)), repeat=2):
            shards.append({'model': spec.name, 'mode': 'unmerged',
                           'prefix': list(prefix), 'depth': depth})
    return shards


def run_shard(shard, ctx):
    spec = models.by_name(shard['model'])
    ops = alphabet(spec)
    if shard['mode'] == 'reload':
        run_reload(spec, ctx)
        return
    if shard['mode'] == 'short':
        for n in range(1, shard['plen']):
            for idx in itertools.product(range(len(ops)), repeat=n):
                check_last(spec, [ops[i] for i in idx], ctx)
                ctx.count('histories_unmerged')
    elif shard['mode'] == 'unmerged':
        base = [ops[i] for i in shard['prefix']]
        extra = shard['depth'] - len(base)
        for n in range(0, extra + 1):
            for idx in itertools.product(range(len(ops)), repeat=n):
                hist = base + [ops[i] for i in idx]
                check_last(spec, hist, ctx)
                ctx.count('histories_unmerged')
        if shard['prefix'] == [0] * len(shard['prefix']):
            ctx.sample({'model': spec.name,
                        'history': [opname(o) for o in hist]})
    else:
        merged_bfs(spec, ops, ctx, shard['unmerged_depth'],
                   shard.get('max_depth'))


def merged_bfs(spec, ops, ctx, unmerged_depth, max_depth=None,
               max_states=20000):
    """Breadth-first search with fingerprint merging until no new state."""
    init = Run(spec)
    seen = {init.fp()}
    frontier = [[]]
    depth = 0
    while frontier:
        depth += 1
        nxt = []
        for hist in frontier:
            for op in ops:
                h = hist + [op]
                run = check_last(spec, h, ctx, unmerged_depth)
                k = run.fp()
                if k not in seen:
                    seen.add(k)
                    nxt.append(h)
        frontier = nxt
        if max_depth is not None and depth >= max_depth and frontier:
            ctx.count('merged_stopped_at_depth_bound')
            break
        if len(seen) > max_states:
            ctx.count('merged_cap_hit')
            break
    ctx.count('states', len(seen))
    ctx.count('merged_depth_reached/' + spec.name, depth)
    ctx.sample({'model': spec.name, 'merged_states': len(seen),
                'fixpoint_depth': depth})


def replay(inputs, ctx):
    spec = models.by_name(inputs['model'])
    if inputs.get('kind') == 'reload':
        run_reload(spec, ctx)
        return
    hist = [tuple(o) for o in inputs['history']]
    check_last(spec, hist, ctx)


def extra_coverage(tier, counters):
    return {'exhaustive': not counters.get('merged_cap_hit'),
            'merged_search_complete': not (
                counters.get('merged_cap_hit') or
                counters.get('merged_stopped_at_depth_bound')),
            'evaluations_note': 'evaluations counts oracle judgements; '
            'transitions counts executed histories'}


def selftest():
    for f in models.ALL_C05:
        spec = f()
        ref = spec.reference(spec.initial_inputs())
        assert set(ref) == set(spec.cells)
    d = models.diamond()
    r = d.reference({'Sheet1!A1': 5, 'Sheet1!A2': 1})
    assert r['Sheet1!C1'] == 6 + 50
