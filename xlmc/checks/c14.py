"""C14 - aggregates over ranges equal the reference fold of the addressed cells.

Oracle scope
  enforced : SUM / COUNT / COUNTA of any mix of ranges, single-cell references
             and number literals = fold over the generator's own copy of the
             addressed cells (blank cells and non-numeric text are ignored;
             a single-cell reference is a 1x1 range); AVERAGE / MIN / MAX the
             same whenever at least one number is addressed; the observed
             MIN <= AVERAGE <= MAX; every split of a rectangle into
             sub-ranges / scalars and every argument order gives the value of
             the whole range (all are compared with the same fold, SUM's
             additivity and the permutation invariance are consequences);
             argument lists the fold does not judge are still required to
             give the same observation in both argument orders;
             SUMPRODUCT of equally shaped ranges = sum of element-wise
             products, of differently shaped ranges = #VALUE!.
  refused  : AVERAGE / MIN / MAX when no number is addressed (the statement
             fixes no value; only order-independence is checked), numeric
             text, booleans and text literals as direct arguments (not
             generated).  A SUMPRODUCT position holding a blank or text is
             accepted under both readings of "ignored" (entry counts as 0 -
             Excel - or is left out of the product).
  numbers  : all cell values are dyadic rationals, so every summation order
             is exact; SUM/COUNT/COUNTA/MIN/MAX/SUMPRODUCT are compared
             exactly, AVERAGE with relative tolerance 1e-12.
"""
import itertools

from .. import lib
from ..ref import folds as ref

PROPERTY = 'C14'
LEVEL = 'exploration'

SYM = {'a': 2, 'b': -3, 'h': 0.5, '_': None, 'x': 'x', 'z': 0,
       # non-numeric text that contains a digit; a factor beyond 2^31.5
       'q': 'Q3', 'L': 4000000000,
       # values the statement is silent on (numeric text, a logical): no
       # reference value, but the stated relations still bind the observed
       # results (MIN <= AVERAGE <= MAX, argument order)
       'n': '40', 'm': '-100', 't': True,
       # text that is not numeric although a lenient converter takes it
       'T': 'true', 'y': '2020-01-01', 'i': 'inf'}
EXTRA = 4                       # the extra literal number argument
COLS = 'ABCDEFGHIJ'
PROBE_COL = 'ZZ'
FNS = ref.FUNCTIONS

RULE = ('for every rectangle shape of the tier and every fill of its cells '
        'over the alphabet, one model is compiled holding the cells and one '
        'probe formula per (function, argument decomposition): whole range, '
        'every row/column cut in both argument orders, every cell passed as '
        'scalar reference with the remainder as sub-ranges (both orders), '
        'whole range plus a literal number (both orders); a second model '
        'without any range holds the all-scalar-references forms; each probe '
        'cell is evaluated and compared with the fold.  SUMPRODUCT: every '
        'fill of every pair (triple) of equally shaped ranges, and every '
        'ordered pair of differently shaped ranges.  A case is non-trivial '
        'when it was judged and at least two values are addressed (a fold '
        'is needed)')
BOUNDS = {
    'quick': {
        'all decompositions x 6 functions': 'rectangles 1x1..2x2,1x3,3x1 over '
                                           '{2,-3,0.5,blank,"x"}',
        'whole range x 6 functions': '2x3 and 3x2 over {2,-3,0.5,blank,"x"} '
                                     '(15625 fills each)',
        'all split decompositions (per-cell ones in one argument order) x 6 '
        'functions': '2x3 and 3x2 over {-3,blank,"x"}',
        'all decompositions over {2,0,blank,"x"}': 'rectangles up to 2x2/1x3 '
                                                   '(zero is not empty)',
        'SUMPRODUCT equal shapes': 'pairs up to 2x2 over {2,-3,blank}, '
                                   'triples of 1x2/2x1',
        'SUMPRODUCT different shapes': 'all ordered pairs of 1x1,1x2,2x1,2x2,'
                                       '1x3,3x1 over {2,blank}',
    },
    'thorough': {
        'all decompositions x 6 functions': 'rectangles up to 2x3 / 3x2 over '
                                           '{2,-3,0.5,blank,"x"}',
        'whole range + one row cut + one column cut x 6 functions':
            '3x3 over {2,-3,blank,"x"} (262144 fills)',
        'SUMPRODUCT equal shapes': 'pairs up to 2x2 over {2,-3,blank,"x"}, '
                                   '1x3/3x1 pairs and 1x2/2x1 triples over '
                                   '{2,-3,blank}, 2x3/3x2 pairs and 2x2 '
                                   'triples over {2,blank}',
        'SUMPRODUCT different shapes': 'all ordered pairs of shapes up to '
                                       '2x3/3x2 over {2,blank}',
    },
}
ASSUMPTIONS = [
    'a reference to a single cell is a 1x1 range (a blank or text found '
    'there is ignored like in any range)',
    'an empty cell is a cell that is absent from the input dictionary',
    'reference folds xlmc/ref/folds.py (exact rational arithmetic, '
    'self-tested against the standard library)',
    'SUMPRODUCT: a blank/text entry may count as 0 or be left out of the '
    'product - both readings of "ignored" are accepted',
]


# ---------------------------------------------------------------- geometry
def col_letters(n):
    out = ''
    n += 1
    while n:
        n, r = divmod(n - 1, 26)
        out = chr(65 + r) + out
    return out


def addr(r, c, c0=0):
    return '%s%d' % (col_letters(c + c0), r + 1)


def piece(r0, c0, r1, c1):
    """Sub-rectangle (inclusive bounds) or None if empty."""
    if r0 > r1 or c0 > c1:
        return None
    return ('r', r0, c0, r1, c1)


def decompositions(nr, nc):
    """name -> list of pieces ('r', r0,c0,r1,c1) | ('n', number)."""
    whole = piece(0, 0, nr - 1, nc - 1)
    out = [('whole', [whole])]
    for k in range(1, nr):
        parts = [piece(0, 0, k - 1, nc - 1), piece(k, 0, nr - 1, nc - 1)]
        out.append(('rowcut%d' % k, parts))
        out.append(('rowcut%dr' % k, parts[::-1]))
    for k in range(1, nc):
        parts = [piece(0, 0, nr - 1, k - 1), piece(0, k, nr - 1, nc - 1)]
        out.append(('colcut%d' % k, parts))
        out.append(('colcut%dr' % k, parts[::-1]))
    if nr * nc > 1:
        for i in range(nr):
            for j in range(nc):
                parts = [piece(0, 0, i - 1, nc - 1), piece(i, 0, i, j - 1),
                         ('s', i, j), piece(i, j + 1, i, nc - 1),
                         piece(i + 1, 0, nr - 1, nc - 1)]
                parts = [p for p in parts if p is not None]
                out.append(('cell%d.%d' % (i, j), parts))
                out.append(('cell%d.%dr' % (i, j), parts[::-1]))
    out.append(('extra', [whole, ('n', EXTRA)]))
    out.append(('extrar', [('n', EXTRA), whole]))
    return out


def scalar_decompositions(nr, nc):
    cells = [('s', i, j) for i in range(nr) for j in range(nc)]
    return [('scalars', cells), ('scalarsr', cells[::-1])]


def twin(name):
    """The same decomposition with the arguments in the other order."""
    if name in ('whole', 'twice', 'cell-twice'):
        return None
    return name[:-1] if name.endswith('r') else name + 'r'


def variant_kind(name):
    if name in ('twice', 'cell-twice'):
        return 'repeated'
    for k in ('whole', 'rowcut', 'colcut', 'cell', 'extra', 'scalars'):
        if name.startswith(k):
            return 'cut' if k in ('rowcut', 'colcut') else k
    raise AssertionError(name)


def render_piece(p, c0=0, force_range=False):
    if p[0] == 'n':
        return repr(p[1])
    if p[0] == 's':
        return addr(p[1], p[2], c0)
    _, r0, cc0, r1, cc1 = p
    if (r0, cc0) == (r1, cc1) and not force_range:
        return addr(r0, cc0, c0)
    return '%s:%s' % (addr(r0, cc0, c0), addr(r1, cc1, c0))


def ref_arg(p, grid, force_range=False):
    if p[0] == 'n':
        return ('lit', p[1])
    if p[0] == 's':
        return ('cell', grid[p[1]][p[2]])
    _, r0, c0, r1, c1 = p
    if (r0, c0) == (r1, c1) and not force_range:
        return ('cell', grid[r0][c0])
    return ('range', tuple(tuple(grid[i][c0:c1 + 1])
                           for i in range(r0, r1 + 1)))


def grid_of(fill, nr, nc):
    vals = [SYM[ch] for ch in fill]
    return tuple(tuple(vals[i * nc:(i + 1) * nc]) for i in range(nr))


def cells_of(grid, c0=0):
    d = {}
    for i, row in enumerate(grid):
        for j, v in enumerate(row):
            if v is not None:
                d['Sheet1!' + addr(i, j, c0)] = v
    return d


# ---------------------------------------------------------------- recording
class Rec:
    """Filters recording to one key when replaying."""

    def __init__(self, ctx, only=None):
        self.ctx = ctx
        self.only = only

    def want(self, key):
        return self.only is None or key == self.only

    def ok(self, key, got, nontrivial):
        if self.want(key):
            self.ctx.ok(key, got, nontrivial)

    def fail(self, key, tags, inputs, want, got, nontrivial):
        if self.want(key):
            self.ctx.fail(key, sorted(tags), inputs, want, got, nontrivial)

    def skip(self, key, reason):
        if self.want(key):
            self.ctx.skip(reason)

    def count(self, key, name):
        if self.want(key):
            self.ctx.count(name)


def run_model(cells, probes):
    """probes: list of formulas -> list of observations (one fresh model)."""
    d = dict(cells)
    addrs = []
    for i, f in enumerate(probes):
        a = 'Sheet1!%s%d' % (PROBE_COL, i + 1)
        d[a] = f
        addrs.append(a)
    try:
        with lib.time_limit(20):
            model = lib.compile_dict(d)
    except lib.CaseTimeout:
        return ['compile-timeout'] * len(probes)
    except Exception as exc:  # noqa: BLE001
        return ['compile-raise:%s' % type(lib.innermost(exc)).__name__] * \
            len(probes)
    ev = lib.Evaluator(model)
    return [lib.eval_addr(model, a, ev) for a in addrs]


def obs_of(fr):
    return 'num:%s' % lib.fnum(float(fr))


def agrees(fn, want, got):
    if not lib.is_num_obs(got):
        return False
    g = lib.num_of(got)
    w = float(want)
    if fn == 'AVERAGE':
        return lib.close(g, w, rel=1e-12)
    return g == w


# ---------------------------------------------------------------- aggregates
VSETS = ('all', 'whole', 'splits', 'splits1', 'whole2cuts')


def select(nr, nc, vset):
    """(range-model decompositions, scalar-model decompositions)."""
    decs = decompositions(nr, nc)
    sc = scalar_decompositions(nr, nc)
    if vset == 'all':
        # a reference written twice addresses its cells twice
        whole = piece(0, 0, nr - 1, nc - 1)
        rep = [('twice', [whole, whole]),
               ('cell-twice', [whole, ('s', 0, 0), ('s', 0, 0)])]
        return decs + rep, sc
    if vset == 'whole':
        return [d for d in decs if d[0] == 'whole'], []
    if vset == 'splits':
        return [d for d in decs if d[0] != 'whole'], sc
    if vset == 'splits1':
        # like 'splits', the per-cell decompositions in one argument order
        # only (alternating from cell to cell)
        keep = []
        ncell = 0
        for name, parts in decs:
            if name == 'whole':
                continue
            if variant_kind(name) == 'cell':
                if name.endswith('r') != bool((ncell // 2) % 2):
                    ncell += 1
                    continue
                ncell += 1
            keep.append((name, parts))
        return keep, sc
    if vset == 'whole2cuts':
        # whole range, the first row cut and the last column cut (reversed)
        names = dict(decs)
        want = ['whole']
        if nr > 1:
            want.append('rowcut1')
        if nc > 1:
            want.append('colcut%dr' % (nc - 1))
        return [(n, names[n]) for n in want], []
    raise AssertionError(vset)


def run_agg_fill(nr, nc, fill, vset, ctx, only=None):
    rec = Rec(ctx, only)
    grid = grid_of(fill, nr, nc)
    cells = cells_of(grid)
    decs, sdecs = select(nr, nc, vset)
    base = 'C14/agg/%dx%d/fill=%s' % (nr, nc, fill)
    for model_tag, group in (('ranges', decs), ('scalars-only', sdecs)):
        if not group:
            continue
        probes = []
        for name, parts in group:
            text = ','.join(render_piece(p, force_range=(name == 'whole'))
                            for p in parts)
            for fn in FNS:
                probes.append('=%s(%s)' % (fn, text))
        obs = run_model(cells, probes)
        it = iter(obs)
        got_by = {}
        for name, parts in group:
            for fn in FNS:
                got_by[(name, fn)] = next(it)
        for name, parts in group:
            args = [ref_arg(p, grid, force_range=(name == 'whole'))
                    for p in parts]
            try:
                feats = ref.features(args)
            except ref.Unjudged:
                feats = {'has:value-kind-not-fixed-by-the-statement'}
            n_addressed = len(ref.addressed(args))
            text = ','.join(render_piece(p, force_range=(name == 'whole'))
                            for p in parts)
            for fn in FNS:
                key = '%s/v=%s/fn=%s' % (base, name, fn)
                got = got_by[(name, fn)]
                tags = set(feats) | {'fn:' + fn, 'v:' + variant_kind(name)}
                if n_addressed > 255:
                    tags.add('cells:over-255')
                if model_tag == 'scalars-only':
                    tags.add('model:no-ranges')
                inputs = {'family': 'agg', 'shape': [nr, nc], 'fill': fill,
                          'vset': vset, 'key': key,
                          'formula': '=%s(%s)' % (fn, text), 'cells': cells}
                try:
                    want = ref.aggregate(fn, args)
                except ref.Unjudged as u:
                    rec.skip(key, u.args[0])
                    # still: the same arguments in the other order agree
                    tw = twin(name)
                    if tw is not None and name.endswith('r') and \
                            (tw, fn) in got_by:
                        first = got_by[(tw, fn)]
                        if got == first:
                            rec.ok(key, got, False)
                        else:
                            rec.fail(key, tags | {'metamorphic:arg-order'},
                                     inputs, first, got, False)
                    continue
                nontriv = n_addressed >= 2
                if agrees(fn, want, got):
                    rec.ok(key, got, nontriv)
                else:
                    rec.fail(key, tags, inputs, obs_of(want), got, nontriv)
            # MIN <= AVERAGE <= MAX on the observed values
            trio = [got_by[(name, f)] for f in ('MIN', 'AVERAGE', 'MAX')]
            key = '%s/v=%s/rel=min-avg-max' % (base, name)
            if all(lib.is_num_obs(o) for o in trio):
                lo, av, hi = (lib.num_of(o) for o in trio)
                rec.count(key, 'min_avg_max_relations_checked')
                eps = 1e-12 * max(abs(lo), abs(hi), 1.0)
                if not (lo - eps <= av <= hi + eps):
                    rtags = set(feats) | {'rel:min-avg-max',
                                          'v:' + variant_kind(name)}
                    if model_tag == 'scalars-only':
                        rtags.add('model:no-ranges')
                    rec.fail(key, rtags,
                             {'family': 'agg', 'shape': [nr, nc],
                              'fill': fill, 'vset': vset, 'key': key,
                              'cells': cells, 'arguments': text},
                             'MIN<=AVERAGE<=MAX',
                             'list:[%s]' % ','.join(trio), True)


# ---------------------------------------------------------------- SUMPRODUCT
ORIGINS = (0, 3, 6)             # column offsets of the ranges: A, D, G


def sp_render(shape, k):
    nr, nc = shape
    return render_piece(('r', 0, 0, nr - 1, nc - 1), ORIGINS[k])


def run_sp_fill(shapes, fill, ctx, only=None):
    """shapes: list of (nr,nc) per range; fill: concatenated symbols."""
    rec = Rec(ctx, only)
    grids = []
    cells = {}
    pos = 0
    for k, (nr, nc) in enumerate(shapes):
        g = grid_of(fill[pos:pos + nr * nc], nr, nc)
        pos += nr * nc
        grids.append(g)
        cells.update(cells_of(g, ORIGINS[k]))
    assert pos == len(fill)
    n = len(shapes)
    orders = [('fwd', list(range(n)))]
    if n > 1:
        orders.append(('rev', list(range(n))[::-1]))
    equal = len(set(map(tuple, shapes))) == 1
    if equal:
        orders.append(('first', [0]))
    probes = ['=SUMPRODUCT(%s)' % ','.join(sp_render(shapes[k], k)
                                          for k in order)
              for _, order in orders]
    obs = run_model(cells, probes)
    sname = '+'.join('%dx%d' % tuple(s) for s in shapes)
    for (oname, order), formula, got in zip(orders, probes, obs):
        key = 'C14/sumproduct/%s/fill=%s/order=%s' % (sname, fill, oname)
        kind, want, accepted = ref.sumproduct([grids[k] for k in order])
        tags = {'fn:SUMPRODUCT', 'ranges:%d' % len(order)}
        vals = [v for k in order for row in grids[k] for v in row]
        if any(v is None for v in vals):
            tags.add('sp:blank')
        if any(isinstance(v, str) for v in vals):
            tags.add('sp:text')
        if any(shapes[k][1] > 1 for k in order):
            tags.add('sp:multi-column')
        tags.add('shapes:equal' if kind == 'num' else 'shapes:different')
        inputs = {'family': 'sp', 'shapes': [list(s) for s in shapes],
                  'fill': fill, 'key': key, 'formula': formula,
                  'cells': cells}
        nontriv = len(vals) >= 2
        if kind == 'err':
            w = 'err:' + want
            if got == w:
                rec.ok(key, got, nontriv)
            else:
                rec.fail(key, tags, inputs, w, got, nontriv)
        else:
            if lib.is_num_obs(got) and any(
                    lib.num_of(got) == float(a) for a in accepted):
                rec.ok(key, got, nontriv)
            else:
                rec.fail(key, tags, inputs, obs_of(want), got, nontriv)


# ---------------------------------------------------------------- plan
# ---------------------------------------------------------------- two sheets
def run_twosheet_fill(shape, fill, ctx, only=None):
    """The same rectangle text on two sheets in one formula:
    FN(A1:B2,Sheet2!A1:B2) addresses both rectangles."""
    rec = Rec(ctx, only)
    nr, nc = shape
    g1 = grid_of(fill[:nr * nc], nr, nc)
    g2 = grid_of(fill[nr * nc:], nr, nc)
    cells = cells_of(g1)
    for a, v in cells_of(g2).items():
        cells[a.replace('Sheet1!', 'Sheet2!')] = v
    # Sheet2 exists even when its rectangle is empty
    cells['Sheet2!K9'] = 1
    r = render_piece(('r', 0, 0, nr - 1, nc - 1), force_range=True)
    forms = (('own-other', '%s,Sheet2!%s' % (r, r), (g1, g2)),
             ('other-own', 'Sheet2!%s,%s' % (r, r), (g2, g1)),
             ('other-only', 'Sheet2!%s' % r, (g2,)))
    # one model per form: no other formula of the model names the other
    # sheet's rectangle on its own
    obs, obs_sp = [], []
    for _, text, _ in forms:
        o = run_model(cells, ['=%s(%s)' % (fn, text) for fn in FNS] +
                      ['=SUMPRODUCT(%s)' % text])
        obs += o[:-1]
        obs_sp.append(o[-1])
    it = iter(obs + obs_sp)
    base = 'C14/twosheet/%dx%d/fill=%s' % (nr, nc, fill)
    for name, text, grids in forms:
        args = [('range', g) for g in grids]
        for fn in FNS:
            got = next(it)
            key = '%s/v=%s/fn=%s' % (base, name, fn)
            tags = {'fn:' + fn, 'v:' + name, 'family:two-sheets'}
            inputs = {'family': 'twosheet', 'shape': [nr, nc], 'fill': fill,
                      'key': key, 'formula': '=%s(%s)' % (fn, text),
                      'cells': cells}
            try:
                want = ref.aggregate(fn, args)
            except ref.Unjudged as u:
                rec.skip(key, u.args[0])
                continue
            if agrees(fn, want, got):
                rec.ok(key, got, True)
            else:
                rec.fail(key, tags, inputs, obs_of(want), got, True)
    for name, text, grids in forms:
        got = next(it)
        key = '%s/v=%s/fn=SUMPRODUCT' % (base, name)
        kind, want, accepted = ref.sumproduct(list(grids))
        inputs = {'family': 'twosheet', 'shape': [nr, nc], 'fill': fill,
                  'key': key, 'formula': '=SUMPRODUCT(%s)' % text,
                  'cells': cells}
        tags = {'fn:SUMPRODUCT', 'v:' + name, 'family:two-sheets'}
        if lib.is_num_obs(got) and any(
                lib.num_of(got) == float(a) for a in accepted):
            rec.ok(key, got, True)
        else:
            rec.fail(key, tags, inputs, obs_of(want), got, True)


# ---------------------------------------------------------------- flags
def run_flags(ctx):
    """The numbers 1 and 0 in a range are numbers - also when the same
    evaluator has read a cell holding TRUE or FALSE just before (a flag cell
    outside the range, read first by the same formula or by an earlier
    evaluation)."""
    grids = (((1, 0), (2, 1), (0, 5)), ((1.0, 0.0), (1, 0), (3, 1.0)),
             ((1, 1), (1, 1), (1, 1)), ((0, 0), (0, 0), (0, 0)))
    r = render_piece(('r', 0, 0, 2, 1), force_range=True)
    for gi, grid in enumerate(grids):
        for flag in (True, False):
            cells = {'Sheet1!K1': flag, 'Sheet1!K2': not flag}
            for i, row in enumerate(grid):
                for j, v in enumerate(row):
                    cells['Sheet1!' + addr(i, j)] = v
            probes, wants = ['=K1', '=K2'], [None, None]
            for fn in FNS:
                for form in ('IF(K1,%s,%s)' if flag else 'IF(K1,%s,%s)',):
                    call = '%s(%s)' % (fn, r)
                    probes.append('=' + (form % ((call, '-1') if flag
                                                 else ('-1', call))))
                    wants.append((fn, ref.aggregate(fn, [('range', grid)])))
                probes.append('=%s(%s)' % (fn, r))
                wants.append((fn, ref.aggregate(fn, [('range', grid)])))
            obs = run_model(cells, probes)
            for f, w, got in zip(probes, wants, obs):
                if w is None:
                    continue
                key = 'C14/flags/%d/K1=%s/%s' % (gi, flag, f)
                if agrees(w[0], w[1], got):
                    ctx.ok(key, got, True)
                else:
                    ctx.fail(key, ['family:flag-read-first', 'fn:' + w[0]],
                             {'family': 'flags'}, obs_of(w[1]), got, True)


# ---------------------------------------------------------------- spellings
def run_spellings(ctx):
    """A rectangle is the same rectangle when its corners are written in lower
    or mixed case, with or without dollar signs (each formula in a model of
    its own: no other formula names the rectangle)."""
    grid = ((1, 5), (2, None), (3, 'x'))
    cells = {}
    for i, row in enumerate(grid):
        for j, v in enumerate(row):
            if v is not None:
                cells['Sheet1!' + addr(i, j)] = v
    a, b = addr(0, 0), addr(len(grid) - 1, 1)
    spellings = ('%s:%s' % (a.lower(), b.lower()),
                 '%s:%s' % (a.lower(), b),
                 '$%s$%s:$%s$%s' % (a[0].lower(), a[1:], b[0].lower(), b[1:]),
                 'Sheet1!%s:%s' % (a.lower(), b.lower()))
    for sp in spellings:
        for fn in FNS:
            try:
                want = ref.aggregate(fn, [('range', grid)])
            except ref.Unjudged:
                continue
            got = lib.eval_formula('=%s(%s)' % (fn, sp), cells,
                                   'Sheet1!%s1' % PROBE_COL)
            key = 'C14/spelling/%s(%s)' % (fn, sp)
            if agrees(fn, want, got):
                ctx.ok(key, got, True)
            else:
                ctx.fail(key, sorted({'family:spelling', 'fn:' + fn,
                                      'ref:lower-case'}),
                         {'family': 'spellings'}, obs_of(want), got, True)


# ---------------------------------------------------------------- after a change
def run_change(ctx):
    """"The addressed values" are the values the cells hold NOW: after a cell
    of the rectangle was changed - by this evaluator, on the model, or by
    another evaluator over the model - every aggregate is the fold of the new
    contents."""
    nr, nc = 3, 2
    base = [[1, 5], [2, 7], [3, 9]]
    r = render_piece(('r', 0, 0, nr - 1, nc - 1), force_range=True)
    ra = render_piece(('r', 0, 0, nr - 1, 0), force_range=True)
    rb = render_piece(('r', 0, 1, nr - 1, 1), force_range=True)
    cells = {}
    for i in range(nr):
        for j in range(nc):
            cells['Sheet1!' + addr(i, j)] = base[i][j]
    probes = {}
    for k, fn in enumerate(FNS):
        probes[fn] = 'Sheet1!%s%d' % (PROBE_COL, k + 1)
        cells[probes[fn]] = '=%s(%s)' % (fn, r)
    probes['SUMPRODUCT'] = 'Sheet1!%s%d' % (PROBE_COL, len(FNS) + 1)
    cells[probes['SUMPRODUCT']] = '=SUMPRODUCT(%s,%s)' % (ra, rb)
    for i in range(nr):
        for j in range(nc):
            for newv in (-4, None, 'x', 0, 0.0):
                for how in ('evaluator', 'model', 'second-evaluator'):
                    model = lib.compile_dict(cells)
                    ev = lib.Evaluator(model)
                    for a in probes.values():
                        lib.eval_addr(model, a, ev)
                    target = 'Sheet1!' + addr(i, j)
                    if how == 'evaluator':
                        ev.set_cell_value(target, newv)
                    elif how == 'model':
                        model.set_cell_value(target, newv)
                    else:
                        lib.Evaluator(model).set_cell_value(target, newv)
                    grid = [list(row) for row in base]
                    grid[i][j] = newv
                    g = tuple(tuple(row) for row in grid)
                    key0 = 'C14/change/%s:=%r/%s' % (addr(i, j), newv, how)
                    inputs = {'family': 'change'}
                    tags = {'family:after-change', 'set:' + how}
                    for fn in FNS:
                        got = lib.eval_addr(model, probes[fn], ev)
                        try:
                            want = ref.aggregate(fn, [('range', g)])
                        except ref.Unjudged as u:
                            ctx.skip(u.args[0])
                            continue
                        if agrees(fn, want, got):
                            ctx.ok('%s/%s' % (key0, fn), got, True)
                        else:
                            ctx.fail('%s/%s' % (key0, fn),
                                     sorted(tags | {'fn:' + fn}), inputs,
                                     obs_of(want), got, True)
                    got = lib.eval_addr(model, probes['SUMPRODUCT'], ev)
                    ga = tuple((row[0],) for row in grid)
                    gb = tuple((row[1],) for row in grid)
                    kind, want, accepted = ref.sumproduct([ga, gb])
                    if lib.is_num_obs(got) and any(
                            lib.num_of(got) == float(a) for a in accepted):
                        ctx.ok(key0 + '/SUMPRODUCT', got, True)
                    else:
                        ctx.fail(key0 + '/SUMPRODUCT',
                                 sorted(tags | {'fn:SUMPRODUCT'}), inputs,
                                 obs_of(want), got, True)
                    lib.clear_caches()


# ---------------------------------------------------------------- formula members
MEMBER_POOL = (('=COUNT(K1:K3)', 2), ('=COUNTA(K1:K3)', 3),
               ('=AVERAGE(K5:K6)', 0), ('=1+1', 2), ('=MAX(K1:K2)', 7),
               ('=K1*2', 14))


def run_members(ctx):
    """The cells of the range are themselves formulas - counts among them,
    whose functions hand back plain Python integers."""
    helpers = {'Sheet1!K1': 7, 'Sheet1!K2': 3, 'Sheet1!K3': 'x'}
    for (nr, nc) in ((1, 3), (3, 1), (2, 2)):
        r = render_piece(('r', 0, 0, nr - 1, nc - 1), force_range=True)
        for combo in itertools.product(range(len(MEMBER_POOL)),
                                       repeat=nr * nc):
            cells = dict(helpers)
            vals = []
            for k, ci in enumerate(combo):
                f, v = MEMBER_POOL[ci]
                cells['Sheet1!' + addr(k // nc, k % nc)] = f
                vals.append(v)
            g = tuple(tuple(vals[i * nc:(i + 1) * nc]) for i in range(nr))
            obs = run_model(cells, ['=%s(%s)' % (fn, r) for fn in FNS])
            key0 = 'C14/members/%dx%d/%s' % (nr, nc, ''.join(map(str, combo)))
            inputs = {'family': 'members', 'shape': [nr, nc],
                      'combo': list(combo)}
            for fn, got in zip(FNS, obs):
                want = ref.aggregate(fn, [('range', g)])
                if agrees(fn, want, got):
                    ctx.ok('%s/%s' % (key0, fn), got, True)
                else:
                    ctx.fail('%s/%s' % (key0, fn),
                             ['family:formula-members', 'fn:' + fn], inputs,
                             obs_of(want), got, True)


SMALL = ((1, 1), (1, 2), (2, 1), (1, 3), (3, 1), (2, 2))
SIX = ((2, 3), (3, 2))
SP_SHAPES_Q = ((1, 1), (1, 2), (2, 1), (2, 2))
SP_DIFF_Q = ((1, 1), (1, 2), (2, 1), (2, 2), (1, 3), (3, 1))
SP_DIFF_T = SP_DIFF_Q + ((2, 3), (3, 2))


def families(tier):
    """(kind, shapes, alphabet, vset, fills per shard)."""
    fam = []
    if tier == 'quick':
        for s in SMALL:
            fam.append(('agg', s, 'abh_x', 'all', 40))
            # zero is a number, not an empty cell
            fam.append(('agg', s, 'az_x', 'all', 40))
            # "Q3" is non-numeric text although it holds a digit
            fam.append(('agg', s, 'aq_', 'whole', 300))
            # relations only: numeric text and a logical among the numbers
            fam.append(('agg', s, 'anm_', 'whole2cuts', 300))
            fam.append(('agg', s, 'aTyi', 'whole', 300))
            fam.append(('agg', s, 'abt', 'whole2cuts', 300))
        for s in SIX:
            fam.append(('agg', s, 'abh_x', 'whole', 500))
            fam.append(('agg', s, 'b_x', 'splits1', 12))
        for s in ((1, 1), (1, 2), (2, 1), (2, 2)):
            fam.append(('two', (s, s), 'ab_', None, 400))
        # rectangles of more than 255 cells (whole range; one symbol, so one
        # fill each)
        for s in ((16, 16), (1, 256), (300, 1), (2, 150)):
            fam.append(('agg', s, 'a', 'whole', 1))
        for s in SP_SHAPES_Q:
            fam.append(('sp', (s, s), 'ab_', None, 300))
        for s in ((1, 2), (2, 1)):
            fam.append(('sp', (s, s, s), 'ab_', None, 300))
        # products beyond 2^63 (whole numbers stay exact)
        for s in ((1, 1), (1, 2), (2, 1)):
            fam.append(('sp', (s, s), 'La_', None, 300))
        for s1, s2 in itertools.permutations(SP_DIFF_Q, 2):
            fam.append(('sp', (s1, s2), 'a_', None, 300))
    else:
        for s in SMALL + SIX:
            fam.append(('agg', s, 'abh_x', 'all', 25))
        for s in SMALL:
            fam.append(('agg', s, 'az_x', 'all', 40))
            fam.append(('agg', s, 'anm_t', 'all', 40))
        for s in SIX:
            fam.append(('agg', s, 'az_', 'whole', 500))
        fam.append(('agg', (3, 3), 'ab_x', 'whole2cuts', 200))
        for s in SMALL:
            fam.append(('two', (s, s), 'ab_x', None, 400))
        for s in ((16, 16), (1, 256), (300, 1), (2, 150), (17, 16)):
            fam.append(('agg', s, 'a', 'whole', 1))
            fam.append(('agg', s, 'b', 'whole', 1))
        for s in SP_SHAPES_Q:
            fam.append(('sp', (s, s), 'ab_x', None, 600))
        for s in ((1, 3), (3, 1)):
            fam.append(('sp', (s, s), 'ab_', None, 600))
        for s in ((2, 3), (3, 2)):
            fam.append(('sp', (s, s), 'a_', None, 600))
        for s in ((1, 2), (2, 1)):
            fam.append(('sp', (s, s, s), 'ab_', None, 600))
        fam.append(('sp', ((2, 2),) * 3, 'a_', None, 600))
        for s1, s2 in itertools.permutations(SP_DIFF_T, 2):
            fam.append(('sp', (s1, s2), 'a_', None, 600))
    return fam


def ncells(kind, shapes):
    if kind == 'agg':
        return shapes[0] * shapes[1]
    return sum(a * b for a, b in shapes)


def plan(tier):
    shards = [{'kind': 'change'}, {'kind': 'members'},
              {'kind': 'spellings'}, {'kind': 'flags'}]
    for kind, shapes, alpha, vset, chunk in families(tier):
        total = len(alpha) ** ncells(kind, shapes)
        for lo in range(0, total, chunk):
            shards.append({'kind': kind, 'shapes': shapes, 'alpha': alpha,
                           'vset': vset, 'lo': lo,
                           'hi': min(total, lo + chunk)})
    return shards


def fill_at(alpha, n, idx):
    """idx-th word of length n over alpha (lexicographic)."""
    out = []
    for _ in range(n):
        idx, r = divmod(idx, len(alpha))
        out.append(alpha[r])
    return ''.join(reversed(out))


def run_shard(shard, ctx):
    kind = shard['kind']
    if kind == 'members':
        run_members(ctx)
        ctx.sample({'family': 'formula members',
                    'cells': {'A1': '=COUNT(K1:K3)', 'B1': '=1+1',
                              'Z1': '=SUM(A1:B1)'}})
        return
    if kind == 'spellings':
        run_spellings(ctx)
        return
    if kind == 'flags':
        run_flags(ctx)
        return
    if kind == 'change':
        run_change(ctx)
        ctx.sample({'family': 'after-change',
                    'history': 'evaluate =MAX(A1:B3); set A2; evaluate again'})
        return
    shapes = shard['shapes']
    n = ncells(kind, shapes) if kind == 'agg' else \
        sum(a * b for a, b in shapes)
    for idx in range(shard['lo'], shard['hi']):
        fill = fill_at(shard['alpha'], n, idx)
        if kind == 'agg':
            run_agg_fill(shapes[0], shapes[1], fill, shard['vset'], ctx)
        elif kind == 'two':
            run_twosheet_fill(tuple(shapes[0]), fill, ctx)
        else:
            run_sp_fill([tuple(s) for s in shapes], fill, ctx)
    if shard['lo'] == 0:
        fill = fill_at(shard['alpha'], n, shard['hi'] - 1)
        if kind == 'agg':
            decs, _ = select(shapes[0], shapes[1], shard['vset'])
            name, parts = decs[-1]
            ctx.sample({'cells': cells_of(grid_of(fill, *shapes)),
                        'formula': '=AVERAGE(%s)' % ','.join(
                            render_piece(p, force_range=(name == 'whole'))
                            for p in parts)})
        elif kind == 'two':
            ctx.sample({'two_sheets_shape': shapes[0], 'fill': fill,
                        'formula': '=SUM(A1:B2,Sheet2!A1:B2)'})
        else:
            ctx.sample({'sumproduct_shapes': shapes, 'fill': fill})


def replay(inputs, ctx):
    if inputs['family'] == 'change':
        run_change(ctx)
        return
    if inputs['family'] == 'spellings':
        run_spellings(ctx)
        return
    if inputs['family'] == 'flags':
        run_flags(ctx)
        return
    if inputs['family'] == 'members':
        run_members(ctx)
        return
    if inputs['family'] == 'agg':
        nr, nc = inputs['shape']
        run_agg_fill(nr, nc, inputs['fill'], inputs['vset'], ctx,
                     only=inputs['key'])
    elif inputs['family'] == 'twosheet':
        run_twosheet_fill(tuple(inputs['shape']), inputs['fill'], ctx,
                          only=inputs['key'])
    else:
        run_sp_fill([tuple(s) for s in inputs['shapes']], inputs['fill'],
                    ctx, only=inputs['key'])


def selftest():
    ref.selftest()
    # every decomposition addresses each cell of the rectangle exactly once
    for nr in (1, 2, 3):
        for nc in (1, 2, 3):
            marks = [[(i, j) for j in range(nc)] for i in range(nr)]
            everything = sorted(m for row in marks for m in row)
            for name, parts in decompositions(nr, nc) + \
                    scalar_decompositions(nr, nc):
                args = [ref_arg(p, marks, force_range=(name == 'whole'))
                        for p in parts]
                seen = []
                for a in args:
                    if a[0] == 'range':
                        seen.extend(v for row in a[1] for v in row)
                    elif a[0] == 'cell':
                        seen.append(a[1])
                assert sorted(seen) == everything, (nr, nc, name)
                tw = twin(name)
                if tw:
                    names = dict(decompositions(nr, nc) +
                                 scalar_decompositions(nr, nc))
                    assert names[tw] == names[name][::-1]
    assert render_piece(('r', 0, 0, 1, 2)) == 'A1:C2'
    assert render_piece(('r', 1, 1, 1, 1)) == 'B2'
    assert render_piece(('r', 0, 0, 0, 0), force_range=True) == 'A1:A1'
    assert sp_render((2, 2), 1) == 'D1:E2'
    assert fill_at('ab', 3, 0) == 'aaa' and fill_at('ab', 3, 5) == 'bab'
    assert len({fill_at('abc', 3, i) for i in range(27)}) == 27


TECHNIQUE = ('bounded-exhaustive enumeration of rectangle fills x argument '
             'decompositions x argument orders, evaluated through '
             'Evaluator.evaluate on freshly compiled models, against exact '
             'rational folds over the generator\'s copy of the cells')
LEVEL_TEXT = ('Every fill of every rectangle up to 2x2/1x3 (thorough: up to '
              '2x3, and 3x3 over four symbols) over {2,-3,0.5,blank,"x"} is '
              'compiled together with one probe formula per aggregate and '
              'per decomposition of the rectangle into sub-ranges, scalar '
              'references and an extra literal, in both argument orders; '
              'each probe is evaluated by the real evaluator and compared '
              'with an exact fold.  SUMPRODUCT is run on every fill of every '
              'pair of equally shaped ranges up to 2x2 and on every ordered '
              'pair of differently shaped ranges.')
LEVEL_NOTE = ('Trusted: xlmc/ref/folds.py (self-tested), the reading that a '
              'single-cell reference is a 1x1 range.  Not covered: numeric '
              'text and booleans in ranges, AVERAGE/MIN/MAX of no numbers '
              '(only order-independence), ranges beyond 3x3, ranges on other '
              'sheets, values that are not exactly representable.')
