"""C07 - Excel errors are values that propagate; typed operands never crash.

Oracle scope
  enforced : (a) an error operand of + - * / ^ & = <> < > <= >=, unary minus
             or % is the result, the leftmost one when both operands are
             errors; (b) an error in a scalar argument position of a
             registered function is the result (hand-written function table,
             xlmc/gen/functable.py); (c) an error among the arguments / range
             cells of an aggregating function is the result; (d) the operators
             over every ordered pair of scalar representatives return a value
             or #VALUE! / #DIV/0! / #NUM! and never raise; (e) truth tables of
             ISERROR / ISERR / ISNA over values and the seven errors, of
             ISNUMBER / ISTEXT / ISBLANK over non-error values, NA() = #N/A;
             (f) a cell whose formula yields an error stores it and hands it
             to dependants two levels up.  Every group runs by direct call
             and through formulas over cells.
  refused  : the other operand of an arithmetic operator being text that is
             itself not numeric ("abc"+#N/A: which of the two errors Excel
             shows is not in the property); unselected IF branches / CHOOSE
             values and short-circuited AND / OR arguments (C10); criteria
             positions (an error criterion matches error cells, C15); the
             IS*/COUNT family and the volatile four in group b; ISNUMBER /
             ISTEXT / ISBLANK of an error and ISNUMBER of a date object;
             non-finite float results (overflow is C16); errors inside array
             constants; text / blank cells inside
             aggregated ranges (C14).
"""
import itertools

from .. import lib
from ..gen import fcall
from ..gen import functable as ft
from ..ref import coerce as cref
from ..ref import errvalues as ref

PROPERTY = 'C07'
LEVEL = 'exploration'
RULE = ('exhaustive products: (a) 12 binary operators x error position x 7 '
        'codes x other-operand representatives, all 49 error pairs, unary '
        'minus and percent x 7; (b) every registered function outside the '
        'volatile four and the IS*/COUNT family x every scalar parameter '
        'position x 7 codes over a hand-written baseline call; (c) 10 '
        'aggregators x argument lists of length 1..4 and ranges x error '
        'position x 7 codes; (d) 14 operators x all ordered pairs of scalar '
        'representatives; (e) inspector truth tables; (f) error cells read '
        'through dependant chains; each by direct call and through compiled '
        'formulas (value read two dependants up, stored cell value '
        'compared).  A case is non-trivial when an error value is among its '
        'operands / arguments / cells (a, b, c, e-with-error, f) or when the '
        'operand pair is not number-number (d, e-without-error): then error '
        'dispatch or type coercion decides the outcome.  The thorough tier '
        'adds (a op1 b) op2 c and c op2 (a op1 b) over all ordered triples of '
        '12 typed representatives for 11x11 operators')
_FULL = {
    'other_operands': 'all 39 typed representatives (27 with a formula form)',
    'nested_error_operator_pairs': '12x12 operators x 2 shapes x 7 codes x '
                                   '2 positions',
    'function_error_pairs': 'all i<j scalar positions x 2 code pairs',
    'error_cell_constructions': ['computed (=1/0, =NA(), ="a"+1, =SQRT(-1))',
                                 'literal in cell'],
    'list_len_max': 4,
    'range_shapes': ['1x3', '3x1', '2x2', '2x3', '3x2', '1x1'],
    'typed_representatives_call': 39,
    'typed_representatives_formula': 27,
}
BOUNDS = {
    'quick': dict(_FULL, nested_typed_operands='not run'),
    'thorough': dict(_FULL, nested_typed_operands='11x11 operators (no ^) x '
                     '2 shapes x all ordered triples of 12 representatives'),
}
ASSUMPTIONS = [
    'function table xlmc/gen/functable.py (parameter kinds and a valid '
    'baseline call per registered function, written from Excel\'s function '
    'reference); a registered function without a row is a harness error',
    'reference rules xlmc/ref/errvalues.py (leftmost error, IS* truth '
    'tables, admissible operator outcomes), self-tested',
    'error cells are produced by =1/0, =NA(), ="a"+1, =SQRT(-1) and the '
    'literals =#REF! =#NAME? =#NULL! (thorough: also every literal)',
]
TECHNIQUE = ('bounded-exhaustive enumeration of operator / function / '
             'argument-position / error-code / operand-type products, '
             'executed on the real library by direct call and through '
             'compiled formulas, against the propagation rules stated in '
             'the property')
LEVEL_TEXT = ('Every operator and every registered function (fail-closed '
              'function table) is fed each of the seven error values in '
              'every scalar position, every aggregator gets an error at '
              'every list position and range cell, the 14 operators are '
              'applied to all ordered pairs of 39 scalar representatives '
              '(thorough: also to all nested triples of 12), and the '
              'inspectors are tabulated; each case '
              'runs as a direct call and as a formula whose value is read '
              'two dependants up and compared with the stored cell value.')
LEVEL_NOTE = ('Trusted: the hand-written function table and the rule '
              '"leftmost error wins".  Not covered: errors in array '
              'constants, more than two simultaneous errors, functions '
              'registered without a table row (reported as a harness error), '
              'cases listed under "refused" in the module docstring '
              '(skipped_out_of_scope in the evidence).')

CODES = ref.ERROR_CODES
BINOPS = ft.OPERATOR_NAMES
SYM = ft.OPERATOR_SYMBOL
ARITH = ft.ARITHMETIC

AGG_LISTS = {
    # name: (leading fixed args, filler values of the variadic tail)
    'SUM': ((), (1, 2, 3, 4)),
    'AVERAGE': ((), (1, 2, 3, 4)),
    'MIN': ((), (1, 2, 3, 4)),
    'MAX': ((), (1, 2, 3, 4)),
    'CONCAT': ((), ('a', 'b', 'c', 'd')),
    'CONCATENATE': ((), ('a', 'b', 'c', 'd')),
    'NPV': ((0.1,), (100, 200, 300, 400)),
    'AND': ((), (True, True, True, True)),      # nothing short-circuits
    'OR': ((), (False, False, False, False)),
}
DECIDING = {'AND': (False, False, False, False),
            'OR': (True, True, True, True)}
AGG_RANGES = ('SUM', 'AVERAGE', 'MIN', 'MAX', 'CONCAT', 'NPV', 'AND', 'OR')


def deep(tier):
    """Both tiers run the full products of groups a-f (they cost a few
    seconds); the thorough tier adds the nested typed-operand triples."""
    return tier in ('quick', 'thorough')


def _names():
    from .. import runner
    try:
        return ft.classify(lib.FUNCTIONS)
    except ft.Unclassified as exc:
        raise runner.HarnessError(str(exc))


# ---- representatives ------------------------------------------------------
def E(code):
    return ['err', code]


OTHERS_QUICK = (
    ['int', 0], ['int', 1], ['float', -2.5], ['str', 'abc'], ['str', ''],
    ['str', '3'], ['bool', True], ['bool', False], ['None'],
    ['datetime', [2020, 1, 1]],
)

TYPED_CALL = (
    ['int', 0], ['int', 1], ['int', -7], ['float', 2.5], ['float', -0.5],
    ['float', 1e308], ['int', 1000], ['Number', 3], ['Number', 0.25],
    ['npint', 4], ['npfloat', 1.5],
    ['str', ''], ['str', 'abc'], ['str', '3'], ['str', 'TRUE'],
    ['str', '1e3'], ['str', ' '], ['str', '10:00Z'], ['Text', 'xyz'],
    ['Text', '12'], ['str', 'abc%'], ['str', '%'], ['str', '5%'],
    ['bool', True], ['bool', False], ['Boolean', True],
    ['None'], ['BLANK'],
    ['datetime', [2020, 1, 1]], ['DateTime', [2020, 1, 1]],
)
TYPED_CALL_MORE = (
    ['float', 1e-308], ['float', -1e308], ['int', 2], ['float', 0.0],
    ['Number', -1], ['npint', 0], ['npfloat', -2.5], ['str', '-3'],
    ['str', '#N/A'], ['str', 'FALSE'], ['Text', ''], ['Boolean', False],
)
# (spec, how) for formulas
TYPED_FORMULA = (
    (['int', 0], 'lit'), (['int', 1], 'lit'), (['float', 2.5], 'lit'),
    (['float', 1e308], 'lit'), (['int', 7], 'cell'),
    (['float', -0.5], 'cell'), (['float', 1e308], 'cell'),
    (['str', 'abc'], 'lit'), (['str', ''], 'lit'), (['str', '3'], 'lit'),
    (['str', 'TRUE'], 'lit'), (['str', 'abc'], 'cell'),
    (['str', '3'], 'cell'), (['str', ''], 'cell'), (['str', '10:00Z'], 'lit'),
    (['str', 'abc%'], 'lit'), (['str', '5%%'], 'cell'), (['str', '%'], 'lit'),
    (['bool', True], 'lit'), (['bool', False], 'lit'),
    (['bool', True], 'cell'), (['None'], 'cell'),
    (['datetime', [2020, 1, 1]], 'lit'), (['datetime', [2020, 1, 1]], 'cell'),
)
TYPED_FORMULA_MORE = (
    (['int', 1000], 'lit'), (['float', 1e-308], 'cell'),
    (['str', ' '], 'lit'), (['str', '1e3'], 'cell'),
    (['bool', False], 'cell'), (['int', 0], 'cell'),
)


def skey(spec):
    if spec[0] == 'array':
        return '[%s]' % ';'.join(','.join(skey(c) for c in row)
                                 for row in spec[1])
    if len(spec) == 1:
        return spec[0]
    if spec[0] in ('datetime', 'DateTime'):
        return '%s:%04d-%02d-%02d' % ((spec[0],) + tuple(spec[1]))
    return '%s:%r' % (spec[0], spec[1])


def flat(args):
    for s in args:
        if s[0] == 'array':
            for row in s[1]:
                for c in row:
                    yield c
        else:
            yield s


def ttype(spec):
    t = cref.typed(spec)
    if t[0] == 'text':
        if t[1] == '':
            return 'text-empty'
        if cref.is_numeric_text(t[1]):
            return 'text-numeric'
        return 'text'
    return t[0]


_ZONED = __import__('re').compile(r'[0-9](Z|\s?UTC|[+-][0-9]{2}:[0-9]{2})$')


def carriers(specs):
    """Input features that name a carrier / notation of an operand."""
    out = set()
    for s in specs:
        if s[0] in ('npint', 'npfloat'):
            out.add('carrier:numpy')
        if s[0] in ('str', 'Text') and _ZONED.search(s[1]):
            out.add('operand:time-zone-text')
    return sorted(out)


def pow_tags(a, b):
    """Input features of number ^ power that decide its domain (reference
    side, from the operand values only).  Text that spells a logical value
    is read as that value here (the library does so; whether it should is
    C08's business), so that the domain feature is still named."""
    import math
    vals = []
    tags = []
    for s in (a, b):
        t = cref.typed(s)
        if t[0] == 'text' and t[1].upper() in ('TRUE', 'FALSE'):
            t = ('bool', t[1].upper() == 'TRUE')
            tags.append('pow:boolean-text-operand')
        try:
            vals.append(cref.to_number(t))
        except (cref.XlError, cref.Unjudged):
            return []
    x, y = vals
    if x == 0 and y < 0:
        tags.append('pow:zero-base-neg-exp')
    if x < 0 and y != int(y) and abs(y) < 1e300:
        tags.append('pow:neg-base-frac-exp')
    if x != 0 and abs(x) != 1 and y != 0:
        if y * math.log10(abs(x)) > 308:
            tags.append('pow:overflow')
    if a[0] == 'npint' and y < 0:
        tags.append('pow:numpy-int-neg-exp')
    return tags


# ---- execution ---------------------------------------------------------------
def execute(inp):
    fn = inp['fn']
    args = inp['args']
    if inp['route'] == 'call':
        return lib.call(fn, *[fcall.mat(s) for s in args])
    sh = fcall.Sheet()
    texts = [sh.arg(s, h) for s, h in zip(args, inp['hows'])]
    form = inp.get('form', 'call')
    if form == 'infix':
        formula = '=%s%s%s' % (texts[0], SYM[fn], texts[1])
    elif form == 'prefix':
        formula = '=%s%s' % (SYM[fn], texts[0])
    elif form == 'prefix2':           # the "double unary" idiom --x
        formula = '=%s%s%s' % (SYM[fn], SYM[fn], texts[0])
    elif form == 'prefix3':
        formula = '=%s(%s%s%s)' % (SYM[fn], SYM[fn], SYM[fn], texts[0])
    elif form == 'prefix-in-sum':     # 1+--x
        formula = '=1+%s%s%s' % (SYM[fn], SYM[fn], texts[0])
    elif form == 'postfix':
        formula = '=%s%s' % (texts[0], SYM[fn])
    elif form == 'nested-left':       # (a op1 b) op2 c
        formula = '=(%s%s%s)%s%s' % (texts[0], SYM[fn], texts[1],
                                     SYM[inp['fn2']], texts[2])
    elif form == 'nested-right':      # c op2 (a op1 b)
        formula = '=%s%s(%s%s%s)' % (texts[2], SYM[inp['fn2']], texts[0],
                                     SYM[fn], texts[1])
    else:
        formula = fcall.call_formula(fn, texts)
    inp['_formula'] = formula
    inp['_cells'] = dict(sh.cells)
    return fcall.evaluate(sh, formula, chain=True)


def run_case(inp, ctx):
    key, tags = inp['key'], inp['tags']
    judge = inp['judge']
    if judge == 'g':
        return run_g(ctx)
    if judge == 'h':
        return run_h(ctx)
    if judge == 'chain':
        return run_chain(inp, ctx)
    got = execute(inp)
    rec = {k: v for k, v in inp.items() if not k.startswith('_')}
    if '_formula' in inp:
        rec['formula'] = inp['_formula']
        rec['cells'] = inp['_cells']
    nontriv = inp.get('nontrivial', True)
    if judge == 'propagate':
        want = ref.propagate([cref.typed(s) for s in flat(inp['args'])])
        ctx.check(key, got, want, tags, rec, nontriv)
    elif judge == 'noraise':
        ok, judged = ref.operator_outcome_ok(got)
        if not judged:
            ctx.skip('nonfinite-result (overflow is C16)')
        elif ok:
            ctx.ok(key, got, nontriv)
        else:
            ctx.fail(key, tags, rec, 'value-or-#VALUE!/#DIV/0!/#NUM!', got,
                     nontriv)
    elif judge == 'truth':
        want = ref.inspector(inp['fn'], cref.typed(inp['args'][0]))
        assert want is not None
        ctx.check(key, got, 'bool:%s' % want, tags, rec, nontriv)
    elif judge == 'na':
        ctx.check(key, got, 'err:#N/A', tags, rec, nontriv)
    else:
        raise AssertionError(judge)


def run_chain(inp, ctx):
    """Group f: explicit dependant chains over an error cell."""
    cells = {'Sheet1!' + k: v for k, v in inp['cells'].items()}
    want = 'err:%s' % inp['code']
    try:
        with lib.time_limit():
            model = lib.compile_dict(cells)
    except Exception as exc:  # noqa: BLE001
        got = 'compile-raise:%s' % type(lib.innermost(exc)).__name__
        ctx.fail(inp['key'], inp['tags'], inp, want, got)
        return
    ev = lib.Evaluator(model)
    obs = []
    for addr in inp['read']:
        obs.append('%s=%s' % (addr, lib.eval_addr(model, 'Sheet1!' + addr,
                                                  ev)))
    for addr in inp['stored']:
        cell = model.cells.get('Sheet1!' + addr)
        obs.append('stored(%s)=%s' % (addr, lib.norm(
            cell.value if cell is not None else None)))
    wanted = ['%s=%s' % (a, want) for a in inp['read']] + [
        'stored(%s)=%s' % (a, want) for a in inp['stored']]
    ctx.check(inp['key'], ' '.join(obs), ' '.join(wanted), inp['tags'], inp)


# ---- case generators -------------------------------------------------------
def _binop_case(op, a, b, route, hows, tags, keytail, judge='propagate',
                nontrivial=True, g='a'):
    return {'g': g, 'fn': op, 'form': 'infix', 'args': [a, b],
            'route': route, 'hows': hows, 'judge': judge,
            'nontrivial': nontrivial,
            'tags': ['grp:' + g, 'op:' + op] + tags + ['route:' + keytail],
            'key': 'C07/%s/%s/%s,%s/route=%s' % (g, op, skey(a), skey(b),
                                                 keytail)}


def gen_a(shard, tier):
    op = shard['name']
    errspecs = [('computed', E)]
    if deep(tier):
        errspecs.append(('literal', lambda c: ['errlit', c]))
    if op in BINOPS:
        others = list(OTHERS_QUICK)
        if deep(tier):
            others = list(TYPED_CALL) + list(TYPED_CALL_MORE)
        for code in CODES:
            for pos in (0, 1):
                for other in others:
                    otags = ['errpos:%d' % pos, 'spell:other=' + ttype(other)]
                    invalid = False
                    if op in ARITH:
                        try:
                            cref.to_number(cref.typed(other))
                        except cref.XlError:
                            invalid = True
                        except cref.Unjudged:
                            invalid = True
                    routes = [('call', None, E)]
                    if fcall.has_formula_form(other):
                        for ename, mk in errspecs:
                            # error in a cell, other operand inline
                            routes.append(('cell-' + ename, ('cell', 'lit'),
                                           mk))
                        # error literal inline, other operand in a cell
                        routes.append(('lit', ('lit', 'cell'), E))
                    for rname, hows, mk in routes:
                        pair = [mk(code), other] if pos == 0 else \
                            [other, mk(code)]
                        if hows is not None and pos == 1:
                            hows = (hows[1], hows[0])
                        case = _binop_case(
                            op, pair[0], pair[1],
                            'call' if rname == 'call' else 'formula',
                            hows, otags, rname)
                        if invalid:
                            case['skip'] = ('other-operand-invalid-for-'
                                            'arithmetic')
                        yield case
        for c1 in CODES:
            for c2 in CODES:
                for rname, hows in (('call', None), ('cell', ('cell', 'cell')),
                                    ('lit', ('lit', 'lit'))):
                    yield _binop_case(
                        op, E(c1), E(c2),
                        'call' if rname == 'call' else 'formula', hows,
                        ['errpos:both'], rname)
        if deep(tier):
            # the error travels through two operator levels
            for op2 in BINOPS:
                for form in ('nested-left', 'nested-right'):
                    for code in CODES:
                        for epos in (0, 1):
                            a, b = (E(code), ['int', 2]) if epos == 0 else (
                                ['int', 2], E(code))
                            yield {
                                'g': 'a', 'fn': op, 'fn2': op2, 'form': form,
                                'args': [a, b, ['int', 3]],
                                'route': 'formula',
                                'hows': ['cell' if epos == 0 else 'lit',
                                         'cell' if epos == 1 else 'lit',
                                         'lit'],
                                'judge': 'propagate',
                                'tags': ['grp:a', 'op:' + op, 'op2:' + op2,
                                         'nested', 'route:cell'],
                                'key': 'C07/a/%s/%s/%s/err=%s/epos=%d' % (
                                    op, form, op2, code, epos)}
    else:
        form = 'prefix' if op == 'OP_NEG' else 'postfix'
        for code in CODES:
            routes = [('call', None, E(code)), ('lit', ['lit'], E(code))]
            routes.append(('cell', ['cell'], E(code)))
            if deep(tier):
                routes.append(('cell-literal', ['cell'], ['errlit', code]))
            for rname, hows, spec in routes:
                yield {'g': 'a', 'fn': op, 'form': form, 'args': [spec],
                       'route': 'call' if rname == 'call' else 'formula',
                       'hows': hows, 'judge': 'propagate',
                       'tags': ['grp:a', 'op:' + op, 'errpos:0',
                                'route:' + rname],
                       'key': 'C07/a/%s/%s/route=%s' % (op, skey(spec),
                                                        rname)}
                if op == 'OP_NEG' and rname != 'call':
                    # an error passes through any number of signs
                    for f2 in ('prefix2', 'prefix3', 'prefix-in-sum'):
                        yield {'g': 'a', 'fn': op, 'form': f2,
                               'args': [spec], 'route': 'formula',
                               'hows': hows, 'judge': 'propagate',
                               'tags': ['grp:a', 'op:' + op, 'errpos:0',
                                        'route:' + rname, 'form:' + f2],
                               'key': 'C07/a/%s/%s/%s/route=%s' % (
                                   op, f2, skey(spec), rname)}


def judged_positions(row):
    """(position, skip reason or None) of every scalar argument of the
    baseline call, variadic lazy positions included."""
    out = []
    lazy = row.flags.get('lazy', {})
    selected = row.flags.get('selected', ())
    for i in range(len(row.base)):
        kind = ft.kind_at(row, i)
        variadic = i >= len(row.params) or row.params[i][1].startswith('*')
        if kind == 'A':
            continue
        if variadic and i not in lazy:
            continue            # argument lists belong to group c
        reason = None
        if kind == 'c':
            reason = 'criterion-position (C15)'
        elif i in lazy and i not in selected:
            reason = 'lazy-unselected-position (C10)'
        out.append((i, reason))
    return out


def gen_b(shard, tier):
    name = shard['name']
    row = ft.TABLE[name]
    base = [fcall.native(v) for v in row.base]
    variants = [('cell', 'cell', E), ('lit', 'lit', E)]
    if deep(tier):
        variants.append(('cell-literal', 'cell',
                         lambda c: ['errlit', c]))
    positions = judged_positions(row)
    for i, reason in positions:
        ptag = ['grp:b', 'fn:' + name, 'spell:pos=%d' % i,
                'kind:' + ft.kind_at(row, i)]
        for code in CODES:
            routes = [('call', None, E)] + variants
            for rname, how, mk in routes:
                args = list(base)
                args[i] = mk(code)
                case = {
                    'g': 'b', 'fn': name, 'form': 'call', 'args': args,
                    'route': 'call' if rname == 'call' else 'formula',
                    'hows': None if rname == 'call' else [
                        how if j == i else 'lit' for j in range(len(args))],
                    'judge': 'propagate',
                    'tags': ptag + ['route:' + rname],
                    'key': 'C07/b/%s/pos=%d(%s)/err=%s/route=%s' % (
                        name, i, ft.pname_at(row, i), code, rname)}
                if reason:
                    case['skip'] = reason
                yield case
    # an argument BEFORE the error that cannot be converted to its
    # parameter's type (a word where a number is expected) does not take the
    # error's place: an operand that IS an error value is the result
    for i, reason in positions:
        if reason is not None or name == 'CHOOSE':
            # (CHOOSE: without a valid index no value is chosen at all)
            continue
        earlier = [j for j in range(i) if ft.kind_at(row, j) in ('n', 'd')]
        if not earlier:
            continue
        j = earlier[0]
        for code in ('#N/A', '#DIV/0!'):
            for rname, how in (('call', None), ('lit', 'lit'),
                               ('cell', 'cell')):
                args = list(base)
                args[i] = E(code)
                args[j] = fcall.native('abc')
                yield {
                    'g': 'b', 'fn': name, 'form': 'call', 'args': args,
                    'route': 'call' if rname == 'call' else 'formula',
                    'hows': None if rname == 'call' else [
                        how if k == i else 'lit' for k in range(len(args))],
                    'judge': 'propagate',
                    'tags': ['grp:b', 'fn:' + name, 'spell:pos=%d' % i,
                             'before:unconvertible-text', 'route:' + rname],
                    'key': 'C07/b/%s/pos=%d/err=%s/after-text-at-%d/route=%s'
                           % (name, i, code, j, rname)}
    if deep(tier):
        live = [i for i, reason in positions if reason is None]
        for i, j in itertools.combinations(live, 2):
            for c1, c2 in (('#N/A', '#DIV/0!'), ('#REF!', '#N/A')):
                for rname, how in (('call', None), ('cell', 'cell'),
                                   ('lit', 'lit')):
                    args = list(base)
                    args[i], args[j] = E(c1), E(c2)
                    yield {
                        'g': 'b', 'fn': name, 'form': 'call', 'args': args,
                        'route': 'call' if rname == 'call' else 'formula',
                        'hows': None if rname == 'call' else [
                            how if k in (i, j) else 'lit'
                            for k in range(len(args))],
                        'judge': 'propagate',
                        'tags': ['grp:b', 'fn:' + name, 'spell:pos=%d' % i,
                                 'spell:pos2=%d' % j, 'two-errors',
                                 'route:' + rname],
                        'key': 'C07/b/%s/pos=%d,%d/err=%s,%s/route=%s' % (
                            name, i, j, c1, c2, rname)}


def _shapes(tier):
    shapes = [(1, 3), (3, 1), (2, 2)]
    if deep(tier):
        shapes += [(2, 3), (3, 2), (1, 1)]
    return shapes


# functions that work on whole ranges of cash flows (and dates): (leading
# scalars, values, dates or None)
FLOW_RANGES = {
    'IRR': ((), (-100, 60, 70), None),
    'XNPV': ((0.1,), (-100, 60, 70), (43831, 43900, 44000)),
    'XIRR': ((), (-100, 60, 70), (43831, 43900, 44000)),
}


def gen_c_flows(name, tier):
    fixed, flows, dates = FLOW_RANGES[name]
    fixed = [fcall.native(v) for v in fixed]
    n = len(flows)
    for r, c in ((n, 1), (1, n)):
        for which in ((0,) if dates is None else (0, 1)):
            for pos in range(n):
                for code in CODES:
                    arrs = []
                    for w, vals in enumerate((flows, dates)):
                        if vals is None:
                            continue
                        cells = [fcall.native(v) for v in vals]
                        if w == which:
                            cells[pos] = E(code)
                        arrs.append(['array', [cells[k * c:(k + 1) * c]
                                               for k in range(r)]])
                    for rname in ('call', 'range'):
                        args = fixed + arrs
                        yield {
                            'g': 'c', 'fn': name, 'form': 'call',
                            'args': args,
                            'route': 'call' if rname == 'call' else 'formula',
                            'hows': ['lit'] * len(args), 'judge': 'propagate',
                            'tags': ['grp:c', 'fn:' + name, 'shape:range',
                                     'route:' + rname],
                            'key': 'C07/c/%s/range/%dx%d/arr=%d/cell=%d/'
                                   'err=%s/route=%s' % (name, r, c, which,
                                                        pos, code, rname)}


def gen_c(shard, tier):
    name = shard['name']
    if name in FLOW_RANGES:
        yield from gen_c_flows(name, tier)
        return
    maxlen = 4 if deep(tier) else 3
    if name == 'SUMPRODUCT':
        for shape in ((2, 1), (2, 2)) if not deep(tier) else (
                (2, 1), (2, 2), (1, 3), (3, 2)):
            r, c = shape
            for which in (0, 1):
                for pos in range(r * c):
                    for code in CODES:
                        arrs = []
                        for w in (0, 1):
                            cells = [['int', 1 + k + 3 * w]
                                     for k in range(r * c)]
                            if w == which:
                                cells[pos] = E(code)
                            arrs.append(['array', [cells[k * c:(k + 1) * c]
                                                   for k in range(r)]])
                        for rname in ('call', 'range'):
                            yield {
                                'g': 'c', 'fn': name, 'form': 'call',
                                'args': arrs,
                                'route': 'call' if rname == 'call'
                                else 'formula',
                                'hows': ['lit', 'lit'], 'judge': 'propagate',
                                'tags': ['grp:c', 'fn:' + name,
                                         'shape:range', 'route:' + rname],
                                'key': 'C07/c/%s/%dx%d/arr=%d/cell=%d/err=%s/'
                                       'route=%s' % (name, r, c, which, pos,
                                                     code, rname)}
        return
    fixed, fill = AGG_LISTS[name]
    fixed = [fcall.native(v) for v in fixed]
    for n in range(1, maxlen + 1):
        for pos in range(n):
            for code in CODES:
                items = [fcall.native(v) for v in fill[:n]]
                items[pos] = E(code)
                for rname, how in (('call', None), ('lit', 'lit'),
                                   ('cell', 'cell')):
                    args = fixed + items
                    yield {
                        'g': 'c', 'fn': name, 'form': 'call', 'args': args,
                        'route': 'call' if rname == 'call' else 'formula',
                        'hows': None if rname == 'call' else
                        ['lit'] * len(fixed) + [
                            how if k == pos else 'lit' for k in range(n)],
                        'judge': 'propagate',
                        'tags': ['grp:c', 'fn:' + name, 'shape:list',
                                 'route:' + rname],
                        'key': 'C07/c/%s/list/n=%d/pos=%d/err=%s/route=%s' % (
                            name, n, pos, code, rname)}
    if deep(tier):
        # two different errors in one list: the first one wins
        for n in (2, 3):
            for i, j in itertools.combinations(range(n), 2):
                for c1, c2 in (('#N/A', '#DIV/0!'), ('#NUM!', '#N/A')):
                    items = [fcall.native(v) for v in fill[:n]]
                    items[i], items[j] = E(c1), E(c2)
                    for rname, how in (('call', None), ('cell', 'cell')):
                        yield {
                            'g': 'c', 'fn': name, 'form': 'call',
                            'args': fixed + items,
                            'route': 'call' if rname == 'call' else 'formula',
                            'hows': None if rname == 'call' else
                            ['lit'] * len(fixed) + [
                                how if k in (i, j) else 'lit'
                                for k in range(n)],
                            'judge': 'propagate',
                            'tags': ['grp:c', 'fn:' + name, 'shape:list',
                                     'two-errors', 'route:' + rname],
                            'key': 'C07/c/%s/list/n=%d/pos=%d,%d/err=%s,%s/'
                                   'route=%s' % (name, n, i, j, c1, c2,
                                                 rname)}
    if name not in AGG_RANGES:
        return
    # (AND / OR: also with members that would decide the result on their
    # own - FALSE for AND, TRUE for OR - before and after the error)
    fills = [('', fill)]
    if name in DECIDING:
        fills.append(('deciding/', DECIDING[name]))
    for fname, fill_ in fills:
        for r, c in _shapes(tier):
            for pos in range(r * c):
                for code in CODES:
                    cells = [fcall.native(fill_[k % len(fill_)])
                             for k in range(r * c)]
                    cells[pos] = E(code)
                    arr = ['array', [cells[k * c:(k + 1) * c]
                                     for k in range(r)]]
                    variants = [('call', fixed + [arr]),
                                ('range', fixed + [arr])]
                    if deep(tier):
                        variants.append(('scalar+range',
                                         fixed + [fcall.native(fill[0]),
                                                  arr]))
                    for rname, args in variants:
                        yield {
                            'g': 'c', 'fn': name, 'form': 'call',
                            'args': args,
                            'route': 'call' if rname == 'call' else 'formula',
                            'hows': ['lit'] * len(args), 'judge': 'propagate',
                            'tags': ['grp:c', 'fn:' + name, 'shape:range',
                                     'route:' + rname] + (
                                ['fill:deciding'] if fname else []),
                            'key': 'C07/c/%s/range/%s%dx%d/cell=%d/err=%s/'
                                   'route=%s' % (name, fname, r, c, pos,
                                                 code, rname)}
    # an error inside a range and a second, different error in a scalar
    # argument, in both orders: the leftmost one wins wherever it sits
    for r, c in _shapes(tier):
        for pos in range(r * c):
            for c1, c2 in (('#N/A', '#DIV/0!'), ('#NUM!', '#N/A')):
                cells = [fcall.native(fill[k % len(fill)])
                         for k in range(r * c)]
                cells[pos] = E(c1)
                arr = ['array', [cells[k * c:(k + 1) * c] for k in range(r)]]
                for order, args in (('range-first', fixed + [arr, E(c2)]),
                                    ('scalar-first', fixed + [E(c2), arr])):
                    for rname in ('call', 'range'):
                        yield {
                            'g': 'c', 'fn': name, 'form': 'call',
                            'args': args,
                            'route': 'call' if rname == 'call' else 'formula',
                            'hows': ['lit'] * len(args), 'judge': 'propagate',
                            'tags': ['grp:c', 'fn:' + name, 'shape:range',
                                     'two-errors', 'order:' + order,
                                     'route:' + rname],
                            'key': 'C07/c/%s/range+scalar/%dx%d/cell=%d/'
                                   'err=%s,%s/%s/route=%s' % (
                                       name, r, c, pos, c1, c2, order, rname)}


NESTED_REPS = (
    (['int', 0], 'lit'), (['float', 2.5], 'lit'), (['float', -0.5], 'cell'),
    (['float', 1e308], 'cell'), (['int', 7], 'cell'), (['str', 'abc'], 'lit'),
    (['str', ''], 'cell'), (['str', '3'], 'cell'), (['str', 'TRUE'], 'lit'),
    (['bool', True], 'lit'), (['None'], 'cell'),
    (['datetime', [2020, 1, 1]], 'cell'),
)
NESTED_OPS = tuple(o for o in BINOPS if o != 'POWER')   # ^ domain is C16


def gen_d_nested(shard, tier):
    """thorough: (a op1 b) op2 c and c op2 (a op1 b) over all triples of 12
    representatives - intermediate results of every type (errors, texts,
    booleans, non-finite floats) meet every operator."""
    op1 = shard['name']
    form = shard['form']
    for op2 in (shard['op2'],):
        for (a, ha), (b, hb), (c, hc) in itertools.product(NESTED_REPS,
                                                           repeat=3):
            yield {
                'g': 'd', 'fn': op1, 'fn2': op2, 'form': form,
                'args': [a, b, c], 'route': 'formula',
                'hows': [ha, hb, hc], 'judge': 'noraise',
                'nontrivial': True,
                'tags': ['grp:d', 'op:' + op1, 'op2:' + op2, 'nested',
                         'route:formula'] + (
                    ['operand:date&date'] if op1 == 'CONCAT' and
                    cref.typed(a)[0] == 'date' and cref.typed(b)[0] == 'date'
                    else []),
                'key': 'C07/d/%s/%s/%s/%s@%s,%s@%s,%s@%s' % (
                    op1, form, op2, skey(a), ha, skey(b), hb, skey(c), hc)}


def gen_d(shard, tier):
    if shard.get('route') == 'nested':
        for case in gen_d_nested(shard, tier):
            yield case
        return
    op = shard['name']
    route = shard['route']
    if route == 'call':
        reps = [(s, None) for s in TYPED_CALL]
        if deep(tier):
            reps += [(s, None) for s in TYPED_CALL_MORE]
    else:
        reps = list(TYPED_FORMULA)
        if deep(tier):
            reps += list(TYPED_FORMULA_MORE)

    def tags_of(specs):
        t = ['grp:d', 'op:' + op]
        t.append('spell:lhs=' + ttype(specs[0]))
        if len(specs) > 1:
            t.append('spell:rhs=' + ttype(specs[1]))
        t += carriers(specs)
        if op == 'POWER':
            t += pow_tags(specs[0], specs[1])
        return t + ['route:' + route]

    if op in BINOPS:
        for (a, ha), (b, hb) in itertools.product(reps, repeat=2):
            plain = (cref.typed(a)[0] == 'num' and cref.typed(b)[0] == 'num')
            yield {
                'g': 'd', 'fn': op, 'form': 'infix', 'args': [a, b],
                'route': route, 'hows': [ha, hb], 'judge': 'noraise',
                'nontrivial': not plain, 'tags': tags_of([a, b]),
                'key': 'C07/d/%s/%s%s,%s%s/route=%s' % (
                    op, skey(a), '@' + ha if ha else '', skey(b),
                    '@' + hb if hb else '', route)}
    else:
        form = 'prefix' if op == 'OP_NEG' else 'postfix'
        for a, ha in reps:
            case = {
                'g': 'd', 'fn': op, 'form': form, 'args': [a],
                'route': route, 'hows': [ha], 'judge': 'noraise',
                'nontrivial': cref.typed(a)[0] != 'num',
                'tags': tags_of([a]),
                'key': 'C07/d/%s/%s%s/route=%s' % (
                    op, skey(a), '@' + ha if ha else '', route)}
            yield case


INSPECTORS = ('ISERROR', 'ISERR', 'ISNA', 'ISNUMBER', 'ISTEXT', 'ISBLANK')


def gen_e(shard, tier):
    fn = shard['name']
    if fn == 'NA':
        for rname in ('call', 'formula'):
            yield {'g': 'e', 'fn': 'NA', 'form': 'call', 'args': [],
                   'route': rname, 'hows': [], 'judge': 'na',
                   'tags': ['grp:e', 'fn:NA', 'route:' + rname],
                   'key': 'C07/e/NA/route=%s' % rname}
        return
    call_reps = [(s, None) for s in TYPED_CALL] + [(E(c), None)
                                                   for c in CODES]
    form_reps = list(TYPED_FORMULA) + [(E(c), h) for c in CODES
                                       for h in ('lit', 'cell')]
    # a text that spells an error code is a text, not an error
    call_reps += [(['str', '#N/A'], None), (['str', '#DIV/0!'], None),
                  (['Text', '#REF!'], None)]
    form_reps += [(['str', '#N/A'], 'lit'), (['str', '#DIV/0!'], 'cell'),
                  (['str', '#VALUE!'], 'lit')]
    if deep(tier):
        call_reps += [(s, None) for s in TYPED_CALL_MORE
                      if s != ['str', '#N/A']]
        form_reps += list(TYPED_FORMULA_MORE) + [
            (['errlit', c], 'cell') for c in CODES]
    for route, reps in (('call', call_reps), ('formula', form_reps)):
        for spec, how in reps:
            tv = cref.typed(spec)
            case = {
                'g': 'e', 'fn': fn, 'form': 'call', 'args': [spec],
                'route': route, 'hows': [how], 'judge': 'truth',
                'nontrivial': tv[0] != 'num',
                'tags': ['grp:e', 'fn:' + fn, 'arg:' + ttype(spec)] +
                carriers([spec]) + ['route:' + route],
                'key': 'C07/e/%s/%s%s/route=%s' % (
                    fn, skey(spec), '@' + how if how else '', route)}
            if ref.inspector(fn, tv) is None:
                case['skip'] = ('type-inspector-of-an-error-or-date-object '
                                '(property silent)')
            yield case


CHAINS = (
    ('ref-ref', {'Z2': '=Z1', 'Z3': '=Z2'}),
    ('arith', {'Z2': '=Z1+1', 'Z3': '=Z2*2'}),
    ('fn-concat', {'Z2': '=SUM(Z1)', 'Z3': '=Z2&"x"'}),
    ('neg-cmp', {'Z2': '=-Z1', 'Z3': '=Z2>=0'}),
    ('range', {'Z2': '=MAX(Y1:Z1)', 'Z3': '=ABS(Z2)'}),
)


def gen_f(shard, tier):
    for code in CODES:
        sources = [('computed', fcall.ERROR_FORMULA[code]),
                   ('literal', '=' + code)]
        for sname, src in sources:
            if sname == 'literal' and src == fcall.ERROR_FORMULA[code]:
                continue
            for cname, deps in CHAINS:
                for order in (('Z3',), ('Z1', 'Z3'), ('Z3', 'Z3', 'Z1')):
                    if not deep(tier) and order != ('Z3',) \
                            and cname != 'ref-ref':
                        continue
                    cells = {'Z1': src, 'Y1': 5}
                    cells.update(deps)
                    yield {
                        'g': 'f', 'judge': 'chain', 'code': code,
                        'cells': cells, 'read': list(order),
                        'stored': ['Z1', 'Z2', 'Z3'],
                        'tags': ['grp:f', 'chain:' + cname,
                                 'source:' + sname],
                        'key': 'C07/f/%s/%s/%s/read=%s' % (
                            code, sname, cname, '+'.join(order))}


# -- type reports of constants that are equal in Python -------------------------
# ISNUMBER / ISTEXT / ISBLANK report the type of the value a cell holds -
# whatever other cell, holding a value that Python finds equal (1.0 and TRUE,
# 0.0 and FALSE, 1 and TRUE), was read before in the same process.  Each
# sequence runs in a fresh interpreter.
G_PAIRS = ((1.0, True), (0.0, False), (1, True), (0, False), (2.0, 2))
G_FORMS = (('ISNUMBER', lambda v: not isinstance(v, bool)),
           ('ISTEXT', lambda v: False),
           ('ISBLANK', lambda v: False),
           ('ISERROR', lambda v: False),
           ('=TRUE', lambda v: v is True),
           ('=1', lambda v: not isinstance(v, bool) and v == 1),
           ('=0', lambda v: not isinstance(v, bool) and v == 0),
           ('=FALSE', lambda v: v is False))


def run_g(ctx):
    import json
    import os
    import subprocess
    import sys
    root = os.path.dirname(os.path.dirname(os.path.dirname(
        os.path.abspath(__file__))))
    for pi, (x, y) in enumerate(G_PAIRS):
        for first in ('X', 'Y'):
            cells = {'Sheet1!X1': x, 'Sheet1!Y1': y}
            order, wants = [], []
            cols = ('X', 'Y') if first == 'X' else ('Y', 'X')
            for col in cols:
                v = x if col == 'X' else y
                for fi, (form, want) in enumerate(G_FORMS):
                    addr = 'Sheet1!%s%d' % (col, fi + 2)
                    cells[addr] = ('=%s1%s' % (col, form)) if form[0] == '=' \
                        else '=%s(%s1)' % (form, col)
                    order.append(addr)
                    wants.append((col, form, 'bool:%s' % bool(want(v))))
            p = subprocess.run(
                [sys.executable, '-W', 'ignore', '-m', 'xlmc.checks.seq_proc',
                 json.dumps({'cells': cells, 'order': order})],
                cwd=root, stdout=subprocess.PIPE, stderr=subprocess.DEVNULL,
                text=True, timeout=300)
            tags = ['grp:g', 'family:python-equal-constants',
                    'first:' + first]
            inputs = {'g': 'g'}
            key0 = 'C07/g/%r~%r/first=%s' % (x, y, first)
            if p.returncode != 0 or not p.stdout.strip():
                ctx.fail(key0 + '/process', tags, inputs, 'sequence runs',
                         'exit %s' % p.returncode)
                continue
            res = json.loads(p.stdout.strip().splitlines()[-1])
            for (col, form, want), got in zip(wants, res):
                ctx.check('%s/%s1%s' % (key0, col, form), got, want, tags,
                          inputs, True,
                          note='fresh process; X1=%r Y1=%r, column %s read '
                          'first' % (x, y, first))


def run_h(ctx):
    """One error cell behind both operands of an operator (directly, or after
    it went through another operator or function): the result is that error,
    stored and handed on like any other."""
    for code in CODES:
        for sym in sorted({SYM[op] for op in BINOPS}):
            for fname, form in (('same', 'A1%sA1'), ('plus', 'A1%s(A1+1)'),
                                ('sum', 'SUM(A1:A1)%sA1'),
                                ('abs', 'A1%sABS(A1)')):
                text = form % sym
                cells = {'Sheet1!A1': fcall.ERROR_FORMULA[code],
                         'Sheet1!Z1': '=' + text, 'Sheet1!Z2': '=Z1',
                         'Sheet1!Z3': '=ISERROR(' + text + ')'}
                model = lib.compile_dict(cells)
                ev = lib.Evaluator(model)
                got = (lib.observe(ev.evaluate, 'Sheet1!Z2'),
                       lib.observe(ev.get_cell_value, 'Sheet1!Z1'),
                       lib.observe(ev.evaluate, 'Sheet1!Z3'))
                want = ('err:' + code, 'err:' + code, 'bool:True')
                ctx.check('C07/h/%s/%s/%s' % (code, fname, text),
                          ' '.join(got), ' '.join(want),
                          ['grp:h', 'family:one-cell-both-operands',
                           'op:' + sym, 'form:' + fname], {'g': 'h'}, True)
                lib.clear_caches()


def gen_g(shard, tier):
    if shard['g'] == 'h':
        yield {'g': 'h', 'judge': 'h', 'key': 'C07/h', 'tags': []}
        return
    yield {'g': 'g', 'judge': 'g', 'key': 'C07/g', 'tags': []}


GEN = {'g': gen_g, 'h': gen_g, 'a': gen_a, 'b': gen_b, 'c': gen_c, 'd': gen_d, 'e': gen_e,
       'f': gen_f}


def b_functions():
    out = []
    for name in _names():
        row = ft.TABLE[name]
        if row.flags.get('volatile') or row.flags.get('inspector'):
            continue
        if name.startswith('OP_'):
            continue            # operators are group a
        if judged_positions(row):
            out.append(name)
    return out


def plan(tier):
    _names()
    shards = []
    for op in BINOPS + ('OP_NEG', 'OP_PERCENT'):
        shards.append({'g': 'a', 'name': op})
    for name in b_functions():
        shards.append({'g': 'b', 'name': name})
    for name in sorted(AGG_LISTS) + ['SUMPRODUCT'] + sorted(FLOW_RANGES):
        shards.append({'g': 'c', 'name': name})
    for op in BINOPS + ('OP_NEG', 'OP_PERCENT'):
        for route in ('call', 'formula'):
            shards.append({'g': 'd', 'name': op, 'route': route})
    if tier == 'thorough':
        for op in NESTED_OPS:
            for op2 in NESTED_OPS:
                for form in ('nested-left', 'nested-right'):
                    shards.append({'g': 'd', 'name': op, 'op2': op2,
                                   'route': 'nested', 'form': form})
    for fn in INSPECTORS + ('NA',):
        shards.append({'g': 'e', 'name': fn})
    shards.append({'g': 'f', 'name': 'chains'})
    shards.append({'g': 'g', 'name': 'python-equal-constants'})
    shards.append({'g': 'h', 'name': 'one-cell-both-operands'})
    return shards


def run_shard(shard, ctx):
    import warnings
    warnings.simplefilter('ignore')
    n = 0
    for case in GEN[shard['g']](shard, ctx.tier):
        if 'skip' in case:
            ctx.skip(case['skip'])
            continue
        run_case(case, ctx)
        if n == 0:
            ctx.sample({k: case[k] for k in ('key', 'fn', 'args', 'route')
                        if k in case} | (
                {'formula': case['_formula']} if '_formula' in case else {}))
        n += 1
    ctx.count('cases_group_' + shard['g'], n)


def replay(inputs, ctx):
    import warnings
    warnings.simplefilter('ignore')
    if inputs.get('g') == 'g':
        run_g(ctx)
        return
    if inputs.get('g') == 'h':
        run_h(ctx)
        return
    run_case(dict(inputs), ctx)


def _selftest():
    ref.selftest()
    cref.selftest()
    ft.selftest()
    names = _names()
    # every registered non-volatile function is either judged in group b/c,
    # an operator, an inspector, or has no scalar parameter at all
    bset = set(b_functions())
    for name in names:
        row = ft.TABLE[name]
        if row.flags.get('volatile') or row.flags.get('inspector'):
            continue
        if name.startswith('OP_') or name in ('POWER', 'CONCAT'):
            assert name in SYM or name in bset
            continue
        if name in bset or name in AGG_LISTS or name == 'SUMPRODUCT':
            continue
        assert not ft.scalar_positions(row), name   # PI, TRUE, FALSE, SUMIF..
    assert set(AGG_LISTS) <= {n for n, r in ft.TABLE.items()
                              if r.flags.get('aggregator')}
    # the skey of distinct representatives is distinct
    for reps in (TYPED_CALL + TYPED_CALL_MORE,):
        assert len({skey(s) for s in reps}) == len(reps)
    assert len({(skey(s), h) for s, h in TYPED_FORMULA + TYPED_FORMULA_MORE}
               ) == len(TYPED_FORMULA + TYPED_FORMULA_MORE)
    assert pow_tags(['int', 0], ['int', -1]) == ['pow:zero-base-neg-exp']
    assert pow_tags(['int', -7], ['float', 2.5]) == ['pow:neg-base-frac-exp']
    assert pow_tags(['float', 2.5], ['float', 1e308]) == ['pow:overflow']
    assert pow_tags(['int', 2], ['int', 3]) == []


def selftest():
    """Reference-model / table self-test; any failure is a harness error
    (exit 2), never a verdict."""
    from .. import runner
    try:
        _selftest()
    except runner.HarnessError:
        raise
    except Exception as exc:  # noqa: BLE001
        import traceback
        raise runner.HarnessError('selftest failed: %s\n%s' % (
            exc, traceback.format_exc()))
