"""C06 - circular references are reported, acyclic sharing is never flagged.

Engine H over configurations: every dependency multigraph on n labelled cells
(edge multiplicity 0/1/2, self loops included), closed through direct
references and through SUM over ranges, every cell as entry point; plus chains
of every length 1..D ending in an unknown function, a Python-level error, or a
back edge to every position.

Oracle scope
  * entry cell lies on a cycle            -> an exception whose type or message
    (anywhere in its cause/context chain) mentions "cycle" or "circular",
    raised within the per-case time limit; never a value, RecursionError,
    MemoryError or a timeout;
  * entry cell only REACHES a cycle       -> terminates within the limit with
    an exception (the statement does not fix its wording);
  * no cycle reachable from the entry     -> the path-weighted sum computed on
    the generator's DAG, no exception (a cell referenced twice or reached
    along several paths is not a cycle);
  * chains: len(str(exception)) <= 4*L(5)*(d/5)^2 and wall time <= 1 s for
    every d <= D (L(5) = message length at depth 5): polynomial, not doubling.
"""
import itertools
import time

from .. import lib

PROPERTY = 'C06'
LEVEL = 'model_checking'
ENGINE = 'xlmc-H'
RULE = ('all dependency multigraphs (multiplicity 0..2) on n<=3 cells and all '
        '65 536 digraphs on 4 cells (thorough: plus all digraphs on 5 cells '
        'with <= 6 edges), via direct references '
        'and via SUM ranges, each cell as entry; chains 1..D with a failure '
        'or back edge at every position; non-trivial = the graph has an edge '
        'reachable from the entry (a dependency is followed)')
BOUNDS = {
    'quick': {'multigraph_cells': 3, 'digraph_cells': 4, 'range_cells': 3,
              'chain_depth': 40},
    'thorough': {'multigraph_cells': 3, 'digraph_cells': 4,
                 'digraphs_on_5_cells_max_edges': 6, 'range_cells': 4,
                 'chain_depth': 120},
}
ASSUMPTIONS = [
    'per-case wall-clock limit 2 s ("promptly"), address space limit 4 GiB '
    'per worker (timeouts and MemoryError are observations, not harness '
    'errors); a shard is abandoned, and reported as a violation, after 3 '
    'timeouts',
]
TECHNIQUE = ('exhaustive enumeration of dependency graphs x entry points on '
             'the real evaluator under time/memory limits, against '
             'reachability in the generated graph')
LEVEL_TEXT = ('All 19 683 dependency multigraphs on three cells, all 65 536 '
              'digraphs on four cells (thorough: all 245 506 digraphs with '
              '<= 6 edges on five cells), cycles '
              'closed through ranges, and failing chains of every depth are '
              'evaluated from every entry cell by the real library under '
              'resource limits; the outcome class is compared with cycle '
              'reachability and DAG values computed by the generator.')
LEVEL_NOTE = ('Every configuration is executed on the implementation. '
              '"Promptly" is decided as a fixed wall-clock limit; the '
              'polynomial bound is checked for depths up to the stated one '
              'against an explicit quadratic.')

CHAIN_D = {'quick': 40, 'thorough': 120}
PROMPT_S = 2.0          # "promptly"
MAX_SLOW_PER_SHARD = 3  # then the shard is abandoned (recorded as a failure)
_SLOW = [0]


class ShardAbandoned(Exception):
    pass


def breaker():
    if _SLOW[0] >= MAX_SLOW_PER_SHARD:
        raise ShardAbandoned()


def cell(i):
    return 'Sheet1!B%d' % (i + 1)


def local(i):
    return 'B%d' % (i + 1)


def cycle_obs(fn, *args):
    """Observation that distinguishes a cycle report from other failures."""
    try:
        try:
            with lib.time_limit(PROMPT_S):
                return lib.norm(fn(*args)), None
        except lib.CaseTimeout:
            # wall clock: on a machine loaded by other work a millisecond
            # case can exceed the limit once; a genuine hang does it again
            try:
                with lib.time_limit(PROMPT_S):
                    return lib.norm(fn(*args)), None
            except lib.CaseTimeout:
                _SLOW[0] += 1
                return 'timeout', None
    except RecursionError as exc:
        return 'raise:RecursionError', exc
    except MemoryError as exc:
        return 'raise:MemoryError', exc
    except Exception as exc:  # noqa: BLE001
        e, seen = exc, set()
        while e is not None and id(e) not in seen:
            seen.add(id(e))
            text = message_of(e)
            if text is None:
                # reporting includes putting the report into words
                return 'timeout', None
            text = (type(e).__name__ + ' ' + text[:20000]).lower()
            if 'cycle' in text or 'circular' in text:
                return 'cycle-report', exc
            e = e.__cause__ or e.__context__
        return lib.exc_obs(exc), exc


def message_of(exc):
    """str(exc), or None when rendering it does not finish promptly (an
    exception class may build its message when asked for it)."""
    try:
        with lib.time_limit(PROMPT_S):
            return str(exc)
    except lib.CaseTimeout:
        _SLOW[0] += 1
        return None
    except Exception:  # noqa: BLE001
        return ''


def analyse(adj, entry):
    """adj[i] = {j: multiplicity}.  Returns (on_cycle, reaches_cycle, value)
    for the entry; value is None if a cycle is reachable."""
    n = len(adj)
    # reachable set
    reach, stack = set(), [entry]
    while stack:
        u = stack.pop()
        for v in adj[u]:
            if v not in reach:
                reach.add(v)
                stack.append(v)
    on_cycle = entry in reach
    # cycle among nodes reachable from entry (incl. entry)?
    nodes = reach | {entry}
    color = {}

    def dfs(u):
        color[u] = 1
        for v in adj[u]:
            if color.get(v) == 1:
                return True
            if v not in color and dfs(v):
                return True
        color[u] = 2
        return False
    reaches = any(dfs(u) for u in sorted(nodes) if u not in color)
    if reaches:
        return on_cycle, True, None
    memo = {}

    def val(u):
        if u not in memo:
            if not adj[u]:
                memo[u] = float(u + 1)
            else:
                memo[u] = sum(m * val(v) for v, m in adj[u].items())
        return memo[u]
    return False, False, val(entry)


def formula_direct(adj_i, i):
    if not adj_i:
        return i + 1
    terms = []
    for j in sorted(adj_i):
        terms.extend([local(j)] * adj_i[j])
    return '=' + '+'.join(terms)


def judge(key, tags, inputs, adj, entry, model, ctx, ev=None, names=None):
    on_cycle, reaches, value = analyse(adj, entry)
    t0 = time.time()
    got, exc = cycle_obs((ev or lib.Evaluator(model)).evaluate,
                         names[entry] if names else cell(entry))
    dt = time.time() - t0
    lib.clear_caches()
    nontriv = bool(adj[entry])
    if got == 'timeout':
        ctx.fail(key, tags + ['not-prompt'], inputs, 'terminates within %.0f s'
                 % PROMPT_S, got, nontriv)
        ctx.count('transitions')
        breaker()
        return
    if on_cycle:
        want = 'cycle-report'
        ok = got == want
        tags = tags + ['entry:on-cycle']
    elif reaches:
        want = 'exception (any), promptly'
        ok = got.startswith('raise:') or got == 'cycle-report'
        if got in ('raise:RecursionError', 'raise:MemoryError'):
            ok = False
        tags = tags + ['entry:reaches-cycle']
    else:
        want = lib.norm(value)
        ok = got == want
        tags = tags + ['entry:acyclic']
        if any(m > 1 for row in adj for m in row.values()):
            tags.append('shape:repeated-reference')
    if ok:
        ctx.ok(key, got, nontriv)
    else:
        ctx.fail(key, tags, inputs, want, got, nontriv,
                 'wall=%.3fs' % dt)
    ctx.count('transitions')


def entry_orders(n):
    """All orders of the entry cells for n <= 3, ascending / descending /
    two rotations above."""
    if n <= 3:
        return list(itertools.permutations(range(n)))
    base = list(range(n))
    return [tuple(base), tuple(reversed(base)),
            tuple(base[1:] + base[:1]), tuple(base[2:] + base[:2])]


def shared_evaluator_pass(key0, tags, inputs, adj, n, model, ctx,
                          cells=None, names=None):
    """ONE evaluator (and one model) serves several evaluate() calls in a
    row: an earlier cycle report or failure must not leak into a later
    evaluation (acyclic sharing is never flagged, cycles stay reported).
    Only graphs that have both a cyclic and another entry are interesting;
    purely acyclic graphs are C05's business."""
    verdicts = [analyse(adj, e) for e in range(n)]
    if not any(v[1] for v in verdicts) or n < 2:
        return
    for order in entry_orders(n):
        if cells is not None:
            fresh = lib.compile_dict(cells)
        else:
            fresh = lib.compile_dict({cell(i): formula_direct(adj[i], i)
                                      for i in range(n)}) \
                if tags == ['via:direct'] else None
        m = fresh if fresh is not None else model
        ev = lib.Evaluator(m)
        okey = ''.join(map(str, order))
        for pos, entry in enumerate(order):
            if pos == 0:
                # already judged with a fresh evaluator; just execute it
                cycle_obs(ev.evaluate,
                          names[entry] if names else cell(entry))
                continue
            judge('%s/shared=%s/pos=%d/entry=%d' % (key0, okey, pos, entry),
                  tags + ['evaluator:shared'],
                  dict(inputs, entry=entry), adj, entry, m, ctx, ev, names)


def adj_from_code(code, n, base):
    """code: integer whose base-`base` digits are the n*n multiplicities."""
    adj = [dict() for _ in range(n)]
    for i in range(n):
        for j in range(n):
            code, m = divmod(code, base)
            if m:
                adj[i][j] = m
    return adj


def run_graph(kind, n, base, code, ctx):
    adj = adj_from_code(code, n, base)
    cells = {cell(i): formula_direct(adj[i], i) for i in range(n)}
    key0 = 'C06/%s/n=%d/b=%d/g=%d' % (kind, n, base, code)
    inputs = {'kind': kind, 'n': n, 'base': base, 'code': code}
    try:
        model = lib.compile_dict(cells)
    except Exception as exc:  # noqa: BLE001
        ctx.fail(key0 + '/compile', ['compile'], inputs, 'compiles',
                 lib.exc_obs(exc))
        return
    ctx.count('states')
    for entry in range(n):
        judge('%s/entry=%d' % (key0, entry), ['via:direct'],
              dict(inputs, entry=entry), adj, entry, model, ctx)
    shared_evaluator_pass(key0, ['via:direct'], inputs, adj, n, model, ctx)


# -- the same graphs, references written another way -------------------------
# lazy: the references sit inside lazily evaluated arguments (IF branches,
# AND conditions); placed: the cells lie at addresses one of which is the
# textual tail / head of another (sheet names Sales / NetSales, cells B1 /
# B10), so that a cycle test on the printed path is not an address test.
PLACEMENTS = {
    'tail-sheets': ('Sales!B2', 'NetSales!B2', 'GrossNetSales!B2',
                    'XGrossNetSales!B2'),
    'head-cells': ('Sheet1!B1', 'Sheet1!B10', 'Sheet1!B100', 'Sheet1!B1000'),
    'head-sheets': ('S!A1', 'S1!A1', 'S!A11', 'S1!A11'),
}
LAZY_VIAS = ('lazy-branch', 'lazy-and', 'lazy-else')


def formula_variant(adj_i, i, via, names):
    if not adj_i:
        return i + 1
    terms = []
    for j in sorted(adj_i):
        terms.extend([names[j]] * adj_i[j])
    total = '+'.join(terms)
    if via == 'placed':
        return '=' + total
    if via == 'lazy-branch':
        return '=IF(TRUE,%s,0)' % total
    if via == 'lazy-else':
        return '=IF(FALSE,0,IF(TRUE,%s))' % total
    if via == 'lazy-and':
        # leaves are positive numbers: the conditions hold
        return '=IF(AND(%s),%s,0)' % (
            ','.join('%s>-1' % t for t in terms), total)
    raise ValueError(via)


def run_variant(via, place, n, base, code, ctx):
    adj = adj_from_code(code, n, base)
    names = PLACEMENTS[place][:n] if place else tuple(
        cell(i) for i in range(n))
    cells = {names[i]: formula_variant(adj[i], i, via, names)
             for i in range(n)}
    key0 = 'C06/%s%s/n=%d/b=%d/g=%d' % (via, '-' + place if place else '',
                                        n, base, code)
    inputs = {'kind': 'variant', 'via': via, 'place': place, 'n': n,
              'base': base, 'code': code}
    tags = ['via:' + via] + (['place:' + place] if place else [])
    try:
        model = lib.compile_dict(cells)
    except Exception as exc:  # noqa: BLE001
        ctx.fail(key0 + '/compile', ['compile'] + tags, inputs, 'compiles',
                 lib.exc_obs(exc))
        return
    ctx.count('states')
    for entry in range(n):
        judge('%s/entry=%d' % (key0, entry), tags,
              dict(inputs, entry=entry), adj, entry, model, ctx, None, names)
    shared_evaluator_pass(key0, tags, inputs, adj, n, model, ctx, cells,
                          names)


# -- ladders: two cells per level, each summing the level below ---------------
LADDER_D = {'quick': 20, 'thorough': 32}


def ladder_model(d, ending):
    cells = {}
    for k in range(1, d):
        rng = 'A%d:B%d' % (k + 1, k + 1)
        cells['Sheet1!A%d' % k] = '=SUM(%s)' % rng
        cells['Sheet1!B%d' % k] = '=SUM(%s)+1' % rng
    bottom = {'unknown-function': '=NOSUCHFUNCTION(1)',
              'python-error': '=ABS()', 'back-edge': '=A1+1'}[ending]
    cells['Sheet1!A%d' % d] = bottom
    cells['Sheet1!B%d' % d] = bottom
    return cells


def run_ladder(ending, dmax, ctx):
    """The first failing cell decides the outcome: reporting it takes one
    visit per level, however many paths lead down."""
    for d in range(2, dmax + 1):
        key = 'C06/ladder/%s/d=%d' % (ending, d)
        inputs = {'kind': 'ladder', 'ending': ending, 'd': d}
        tags = ['ladder', 'ending:' + ending]
        model = lib.compile_dict(ladder_model(d, ending))
        t0 = time.time()
        got, exc = cycle_obs(lib.Evaluator(model).evaluate, 'Sheet1!A1')
        dt = time.time() - t0
        lib.clear_caches()
        ctx.count('transitions')
        ctx.count('states')
        if ending == 'back-edge':
            want, ok = 'cycle-report', got == 'cycle-report'
        else:
            want, ok = 'exception, no cycle report', got.startswith('raise:')
        if got in ('raise:RecursionError', 'raise:MemoryError', 'timeout'):
            ok = False
        if not ok:
            ctx.fail(key, tags + ['outcome'], inputs, want, got, True,
                     'wall=%.3fs' % dt)
            breaker()
            continue
        ctx.ok(key, got)
        mlen = len(message_of(exc) or '') if exc is not None else 0
        bound = 400 * d * d
        ctx.check(key + '#msglen', 'msglen:within-quadratic'
                  if mlen <= bound else 'msglen:exceeds-quadratic',
                  'msglen:within-quadratic', tags + ['resource:message'],
                  inputs, True, 'len=%d bound=%d' % (mlen, bound))


# -- ranges and direct references in one graph ----------------------------------
# cell 0 holds SUM over a block of the cells, the others a constant or the
# sum of one or two direct references (a running total summed by a range, a
# common precedent of two range members ...)
MIXED_N = 4


def mixed_options():
    n = MIXED_N
    first = [(j, k) for j in range(n) for k in range(j, n)]
    rest = [()] + [(a,) for a in range(n)] + \
        [(a, b) for a in range(n) for b in range(a + 1, n)]
    return first, rest


def run_mixed(i0, rest_choice, ctx):
    n = MIXED_N
    first, rest = mixed_options()
    j, k = first[i0]
    adj = [{v: 1 for v in range(j, k + 1)}]
    cells = {cell(0): '=SUM(%s:%s)' % (local(j), local(k))}
    for i, c in enumerate(rest_choice, 1):
        refs = rest[c]
        adj.append({v: 1 for v in refs})
        cells[cell(i)] = ('=' + '+'.join(local(v) for v in refs)) if refs \
            else i + 1
    key0 = 'C06/mixed/r=%d/c=%s' % (i0, '.'.join(map(str, rest_choice)))
    inputs = {'kind': 'mixed', 'i0': i0, 'rest': list(rest_choice)}
    try:
        model = lib.compile_dict(cells)
    except Exception as exc:  # noqa: BLE001
        ctx.fail(key0 + '/compile', ['compile'], inputs, 'compiles',
                 lib.exc_obs(exc))
        return
    ctx.count('states')
    for entry in range(n):
        judge('%s/entry=%d' % (key0, entry), ['via:range+direct'],
              dict(inputs, entry=entry), adj, entry, model, ctx)
    shared_evaluator_pass(key0, ['via:range+direct'], inputs, adj, n, model,
                          ctx, cells)


RANGE_OPTS_CACHE = {}


def range_options(n):
    """None or a contiguous block [j,k] of the n cells."""
    if n not in RANGE_OPTS_CACHE:
        RANGE_OPTS_CACHE[n] = [None] + [(j, k) for j in range(n)
                                        for k in range(j, n)]
    return RANGE_OPTS_CACHE[n]


def run_rangegraph(n, choice, ctx):
    opts = range_options(n)
    adj, cells = [], {}
    for i, c in enumerate(choice):
        o = opts[c]
        if o is None:
            adj.append({})
            cells[cell(i)] = i + 1
        else:
            j, k = o
            adj.append({v: 1 for v in range(j, k + 1)})
            cells[cell(i)] = '=SUM(%s:%s)' % (local(j), local(k))
    key0 = 'C06/range/n=%d/c=%s' % (n, ''.join(map(str, choice)))
    inputs = {'kind': 'range', 'n': n, 'choice': list(choice)}
    try:
        model = lib.compile_dict(cells)
    except Exception as exc:  # noqa: BLE001
        ctx.fail(key0 + '/compile', ['compile'], inputs, 'compiles',
                 lib.exc_obs(exc))
        return
    ctx.count('states')
    for entry in range(n):
        judge('%s/entry=%d' % (key0, entry), ['via:range'],
              dict(inputs, entry=entry), adj, entry, model, ctx)
    shared_evaluator_pass(key0, ['via:range'], inputs, adj, n, model, ctx)


# how a cell of a chain refers to the next one (each adds 1)
LINKS = {
    'plus': '=C%d+1',
    'nested': '=(C%d+1)*1',                 # the reference two levels down
    'lazy-if': '=IF(TRUE,C%d+1,0)',         # in a lazily evaluated argument
    'lazy-and': '=IF(AND(TRUE,C%d>-1E+9),C%d+1,0)',
    'range': '=SUM(C%d:C%d)+1',
    'twice': '=C%d+C%d*0+1',                # the next cell along two paths
}


def chain_model(d, ending, back=None, link='plus', shared=False):
    """cells C1 <- C2 <- ... <- Cd ; C1 is the entry, Cd holds the ending.
    ``shared``: every tenth cell also adds 0 * the last cell (acyclic
    sharing: the last cell is reached along many paths)."""
    cells = {}
    for i in range(1, d):
        n = LINKS[link].count('%d')
        f = LINKS[link] % ((i + 1,) * n)
        if shared and i % 10 == 0 and i + 1 < d:
            f += '+0*$C$%d' % d
        cells['Sheet1!C%d' % i] = f
    if ending == 'unknown-function':
        cells['Sheet1!C%d' % d] = '=NOSUCHFUNCTION(1)'
    elif ending == 'python-error':
        cells['Sheet1!C%d' % d] = '=ABS()'
    elif ending == 'back-edge':
        cells['Sheet1!C%d' % d] = '=C%d+1' % back
    elif ending == 'value':
        cells['Sheet1!C%d' % d] = 7
    return cells


def run_chain(ending, dmax, ctx, link='plus'):
    """One ending over all depths (the bound for depth d uses depth 5)."""
    base_len = None
    lk = '' if link == 'plus' else '-' + link
    for d in range(1, dmax + 1):
        backs = range(1, d + 1) if ending == 'back-edge' else [None]
        for back in backs:
            cells = chain_model(d, ending, back, link)
            key = 'C06/chain%s/%s/d=%d%s' % (
                lk, ending, d, '' if back is None else '/back=%d' % back)
            inputs = {'kind': 'chain', 'ending': ending, 'd': d, 'back': back,
                      'link': link}
            model = lib.compile_dict(cells)
            t0 = time.time()
            ev = lib.Evaluator(model)
            got, exc = cycle_obs(ev.evaluate, 'Sheet1!C1')
            dt = time.time() - t0
            # the same evaluator again, from the head and from the middle: an
            # earlier failure must not turn into (or hide) a cycle report
            for again in ('Sheet1!C1', 'Sheet1!C%d' % max(1, d // 2)):
                got2, _ = cycle_obs(ev.evaluate, again)
                if again == 'Sheet1!C1':
                    want2 = got
                elif ending == 'value':
                    want2 = lib.norm(7 + d - max(1, d // 2))
                elif ending == 'back-edge':
                    want2 = None          # position relative to the cycle
                else:
                    want2 = got
                if want2 is not None:
                    ctx.check('C06/chain%s/%s/d=%d%s/again=%s' % (
                        lk, ending, d,
                        '' if back is None else '/back=%d' % back,
                        again.split('!')[1]), got2, want2,
                        ['chain', 'ending:' + ending, 'evaluator:shared',
                         'link:' + link],
                        {'kind': 'chain', 'ending': ending, 'd': d,
                         'back': back, 'link': link})
            lib.clear_caches()
            mlen = len(message_of(exc) or '') if exc is not None else 0
            if d == 5 and back in (None, 1):
                base_len = max(mlen, 200)
            ctx.count('transitions')
            ctx.count('states')
            tags = ['chain', 'ending:' + ending, 'link:' + link]
            if ending == 'value':
                ctx.check(key, got, lib.norm(7 + d - 1), tags, inputs)
                continue
            if ending == 'back-edge':
                # C1 is on the cycle iff the back edge returns to C1
                want = 'cycle-report' if back == 1 else 'exception'
                ok = got == 'cycle-report' if back == 1 else (
                    got.startswith('raise:') or got == 'cycle-report')
            else:
                want = 'exception'
                ok = got.startswith('raise:')
            if got in ('raise:RecursionError', 'raise:MemoryError',
                       'timeout'):
                ok = False
            if not ok:
                ctx.fail(key, tags + ['outcome'], inputs, want, got)
                breaker()
                continue
            ctx.ok(key, got)
            if d >= 5 and base_len is not None:
                bound = int(4 * base_len * (d / 5.0) ** 2)
                obs = 'msglen:within-quadratic' if mlen <= bound else \
                    'msglen:exceeds-quadratic'
                ctx.check(key + '#msglen', obs, 'msglen:within-quadratic',
                          tags + ['resource:message'], inputs, True,
                          'len=%d bound=%d' % (mlen, bound))
                obs = 'time:within-1s' if dt <= 1.0 else 'time:exceeds-1s'
                ctx.check(key + '#time', obs, 'time:within-1s',
                          tags + ['resource:time'], inputs, True,
                          'wall=%.3f' % dt)


DEEP = (200, 250, 300, 400)


def run_deep(ending, ctx):
    """Acyclic chains deeper than the interpreter's recursion capacity: the
    statement does not promise that they evaluate, but whatever happens must
    not be reported as a cycle."""
    import sys
    old_limit = sys.getrecursionlimit()
    sys.setrecursionlimit(1000)        # the interpreter's default
    try:
        _run_deep(ending, ctx)
    finally:
        sys.setrecursionlimit(old_limit)


def _run_deep(ending, ctx):
    if ending == 'back-edge':
        # cycles longer than the interpreter's recursion capacity: still a
        # cycle, and it must be reported as one
        for link in ('plus', 'nested', 'range', 'lazy-if'):
            for d in DEEP:
                model = lib.compile_dict(chain_model(d, ending, 1, link))
                try:
                    with lib.time_limit(30):
                        got, _ = cycle_obs(lib.Evaluator(model).evaluate,
                                           'Sheet1!C1')
                except lib.CaseTimeout:
                    got = 'timeout'
                lib.clear_caches()
                ctx.count('transitions')
                ctx.check('C06/deep/back-edge%s/d=%d' % (
                    '' if link == 'plus' else '-' + link, d), got,
                    'cycle-report',
                    ['chain', 'deep-cycle', 'entry:on-cycle', 'link:' + link],
                    {'kind': 'deep', 'ending': ending}, True)
        _run_deep_reloaded(ctx)
        return
    for d, link in [(x, 'plus') for x in DEEP + tuple(-x for x in DEEP)] + [
            (x, 'twice') for x in DEEP]:
        # (negative: the same depth with acyclic sharing of the last cell;
        # 'twice': every cell reaches the next one along two paths)
        shared = d < 0
        d = abs(d)
        cells = chain_model(d, ending, link=link, shared=shared)
        key = 'C06/deep/%s%s%s/d=%d' % (ending, '-shared' if shared else '',
                                        '' if link == 'plus' else '-' + link,
                                        d)
        inputs = {'kind': 'deep', 'ending': ending}
        model = lib.compile_dict(cells)
        try:
            with lib.time_limit(30):
                got, _ = cycle_obs(lib.Evaluator(model).evaluate,
                                   'Sheet1!C1')
        except lib.CaseTimeout:
            got = 'timeout'
        lib.clear_caches()
        ctx.count('transitions')
        obs = 'cycle-report' if got == 'cycle-report' else (
            'no answer within 30 s' if got == 'timeout' else 'no-cycle-report')
        ctx.check(key, obs, 'no-cycle-report',
                  ['chain', 'deep-acyclic', 'ending:' + ending,
                   'link:' + link], inputs, True, 'outcome=%s' % got)


def _run_deep_reloaded(ctx):
    """The formulas change under a living evaluator (its Model object is
    loaded anew): what it found out about the old formulas is not the
    answer for the new ones."""
    import os
    import tempfile
    for d in DEEP:
        texts = {'open': chain_model(d, 'value'),
                 'closed': chain_model(d, 'back-edge', 1)}
        with tempfile.TemporaryDirectory(prefix='xlmc_c06_') as tmp:
            paths = {}
            for name, cells in texts.items():
                paths[name] = os.path.join(tmp, name + '.json')
                lib.compile_dict(cells).persist_to_json_file(paths[name])
            for first, second in (('open', 'closed'), ('closed', 'open')):
                model = lib.compile_dict(texts[first])
                ev = lib.Evaluator(model)
                try:
                    with lib.time_limit(30):
                        cycle_obs(ev.evaluate, 'Sheet1!C1')
                        model.construct_from_json_file(paths[second], True)
                        got, _ = cycle_obs(ev.evaluate, 'Sheet1!C1')
                except lib.CaseTimeout:
                    got = 'timeout'
                lib.clear_caches()
                ctx.count('transitions', 2)
                obs = 'cycle-report' if got == 'cycle-report' else (
                    'no answer within 30 s' if got == 'timeout'
                    else 'no-cycle-report')
                ctx.check('C06/deep/reloaded/%s-then-%s/d=%d' % (
                    first, second, d), obs,
                    'cycle-report' if second == 'closed'
                    else 'no-cycle-report',
                    ['chain', 'deep-cycle' if second == 'closed'
                     else 'deep-acyclic', 'history:model-reloaded'],
                    {'kind': 'deep', 'ending': 'back-edge'}, True,
                    'outcome=%s' % got)


# -- defined names of several areas ----------------------------------------------
# A formula that sums a name of two areas is acyclic wherever it stands outside
# those areas - also in the rows of one area and the columns of the other.
AREAS = (('A1:A3', 'C5:C7'), ('B2:C3', 'E6:F7'), ('D1:F1', 'A4:A6'))


def _cells_of(area):
    import re
    m = re.match(r'([A-Z])(\d+):([A-Z])(\d+)$', area)
    c1, r1, c2, r2 = m.group(1), int(m.group(2)), m.group(3), int(m.group(4))
    return ['%s%d' % (chr(c), r) for r in range(r1, r2 + 1)
            for c in range(ord(c1), ord(c2) + 1)]


def run_areas(ctx):
    import os
    import tempfile
    import warnings
    from ..gen import rawxlsx
    for ai, areas in enumerate(AREAS):
        members = [c for a in areas for c in _cells_of(a)]
        cells = {c: {'form': 'n', 'v': k + 1} for k, c in enumerate(members)}
        total = sum(range(1, len(members) + 1))
        hosts = [c for c in _cells_of('A1:G8') if c not in members]
        for h in hosts:
            cells[h] = {'form': 'f', 'f': 'SUM(inputs)'}
        target = ','.join('Sheet1!$%s$%s:$%s$%s' % (
            a[0], a[1:a.index(':')], a[a.index(':') + 1],
            a[a.index(':') + 2:]) for a in areas)
        with tempfile.TemporaryDirectory(prefix='xlmc_c06_') as tmp:
            path = os.path.join(tmp, 'areas.xlsx')
            with open(path, 'wb') as fp:
                fp.write(rawxlsx.build([('Sheet1', cells)],
                                       {'inputs': target}))
            with warnings.catch_warnings():
                warnings.simplefilter('ignore')
                model = lib.ModelCompiler().read_and_parse_archive(path)
        ev = lib.Evaluator(model)
        for h in hosts:
            got, _ = cycle_obs(ev.evaluate, 'Sheet1!' + h)
            ctx.check('C06/areas/%d/%s' % (ai, h), got, lib.norm(total),
                      ['acyclic', 'name:two-areas'],
                      {'kind': 'areas'}, True,
                      note='inputs = %s; %s holds =SUM(inputs)' % (target, h))
            ctx.count('transitions')
        ctx.count('states')
        lib.clear_caches()


def plan(tier):
    shards = [{'kind': 'areas'}]
    for ending in ('value', 'unknown-function', 'back-edge'):
        shards.append({'kind': 'deep', 'ending': ending, 'weight': 40})
    for n, base in ((1, 3), (2, 3), (3, 3)):
        total = base ** (n * n)
        step = 250
        for lo in range(0, total, step):
            shards.append({'kind': 'direct', 'n': n, 'base': base, 'lo': lo,
                           'hi': min(total, lo + step)})
    total = 2 ** 16
    for lo in range(0, total, 1024):
        shards.append({'kind': 'direct', 'n': 4, 'base': 2, 'lo': lo,
                       'hi': min(total, lo + 1024)})
    if tier == 'thorough':
        # all digraphs on 5 cells with at most 6 edges (incl. self loops)
        for k in range(0, 7):
            total = len(list(itertools.combinations(range(25), k))) \
                if k < 4 else None
            if total is not None:
                shards.append({'kind': 'sparse5', 'k': k, 'lo': 0,
                               'hi': total})
            else:
                import math
                total = math.comb(25, k)
                for lo in range(0, total, 4000):
                    shards.append({'kind': 'sparse5', 'k': k, 'lo': lo,
                                   'hi': min(total, lo + 4000)})
    rn = (1, 2, 3) if tier == 'quick' else (1, 2, 3, 4)
    for n in rn:
        opts = len(range_options(n))
        allc = list(itertools.product(range(opts), repeat=n))
        for lo in range(0, len(allc), 200):
            shards.append({'kind': 'range', 'n': n, 'lo': lo,
                           'hi': min(len(allc), lo + 200)})
    for ending in ('unknown-function', 'python-error', 'back-edge', 'value'):
        shards.append({'kind': 'chain', 'ending': ending,
                       'dmax': CHAIN_D[tier], 'weight': 50})
    for link in ('lazy-if', 'lazy-and', 'nested'):
        for ending in ('unknown-function', 'python-error'):
            shards.append({'kind': 'chain', 'ending': ending, 'link': link,
                           'dmax': min(CHAIN_D[tier], 40), 'weight': 30})
    first, rest = mixed_options()
    for i0 in range(len(first)):
        for c1 in range(len(rest)):
            shards.append({'kind': 'mixed', 'i0': i0, 'c1': c1})
    for ending in ('unknown-function', 'python-error', 'back-edge'):
        shards.append({'kind': 'ladder', 'ending': ending,
                       'dmax': LADDER_D[tier], 'weight': 30})
    # variants: (via, placement, n, base)
    variants = []
    for via in LAZY_VIAS:
        variants += [(via, None, 2, 3), (via, None, 3, 2)]
        if tier == 'thorough':
            variants += [(via, None, 3, 3)]
    for place in sorted(PLACEMENTS):
        variants += [('placed', place, 2, 3), ('placed', place, 3, 2)]
        if tier == 'thorough':
            variants += [('placed', place, 4, 2)]
    for via, place, n, base in variants:
        total = base ** (n * n)
        for lo in range(0, total, 256):
            shards.append({'kind': 'variant', 'via': via, 'place': place,
                           'n': n, 'base': base, 'lo': lo,
                           'hi': min(total, lo + 256)})
    return shards


def run_shard(shard, ctx):
    _SLOW[0] = 0
    try:
        _run_shard(shard, ctx)
    except ShardAbandoned:
        ctx.fail('C06/abandoned/%r' % sorted(shard.items()),
                 ['shard-abandoned'], {'kind': 'shard', 'shard': shard},
                 'every case terminates promptly',
                 'timeout x%d: shard abandoned' % MAX_SLOW_PER_SHARD)


def _run_shard(shard, ctx):
    if shard['kind'] == 'direct':
        for code in range(shard['lo'], shard['hi']):
            run_graph('direct', shard['n'], shard['base'], code, ctx)
        if shard['lo'] == 0:
            adj = adj_from_code(shard['hi'] - 1, shard['n'], shard['base'])
            ctx.sample({'n': shard['n'], 'cells': {
                cell(i): formula_direct(adj[i], i)
                for i in range(shard['n'])}})
    elif shard['kind'] == 'deep':
        run_deep(shard['ending'], ctx)
    elif shard['kind'] == 'areas':
        run_areas(ctx)
        ctx.sample({'kind': 'areas', 'name': 'inputs = A1:A3,C5:C7',
                    'formula': '=SUM(inputs) in every other cell of A1:G8'})
    elif shard['kind'] == 'mixed':
        first, rest = mixed_options()
        for c2 in range(len(rest)):
            for c3 in range(len(rest)):
                run_mixed(shard['i0'], (shard['c1'], c2, c3), ctx)
        if shard['i0'] == 0 and shard['c1'] == 0:
            ctx.sample({'family': 'mixed', 'cells': {
                'B1': '=SUM(B2:B4)', 'B2': '=B4', 'B3': '=B2+B4', 'B4': 4}})
    elif shard['kind'] == 'ladder':
        run_ladder(shard['ending'], shard['dmax'], ctx)
        ctx.sample({'ladder': shard['ending'],
                    'cells_d3': ladder_model(3, shard['ending'])})
    elif shard['kind'] == 'variant':
        for code in range(shard['lo'], shard['hi']):
            run_variant(shard['via'], shard['place'], shard['n'],
                        shard['base'], code, ctx)
        if shard['lo'] == 0:
            adj = adj_from_code(shard['hi'] - 1, shard['n'], shard['base'])
            names = PLACEMENTS[shard['place']] if shard['place'] else \
                tuple(cell(i) for i in range(shard['n']))
            ctx.sample({'via': shard['via'], 'place': shard['place'],
                        'cells': {names[i]: formula_variant(
                            adj[i], i, shard['via'], names)
                            for i in range(shard['n'])}})
    elif shard['kind'] == 'sparse5':
        combos = itertools.islice(
            itertools.combinations(range(25), shard['k']),
            shard['lo'], shard['hi'])
        for edges in combos:
            code = sum(1 << e for e in edges)
            run_graph('direct', 5, 2, code, ctx)
    elif shard['kind'] == 'range':
        n = shard['n']
        allc = list(itertools.product(range(len(range_options(n))), repeat=n))
        for choice in allc[shard['lo']:shard['hi']]:
            run_rangegraph(n, choice, ctx)
    else:
        run_chain(shard['ending'], shard['dmax'], ctx,
                  shard.get('link', 'plus'))
        ctx.sample({'chain': shard['ending'],
                    'cells_d3': chain_model(3, shard['ending'], 1)})


def replay(inputs, ctx):
    _SLOW[0] = 0
    try:
        _replay(inputs, ctx)
    except ShardAbandoned:
        ctx.fail('C06/abandoned/replay', ['shard-abandoned'], inputs,
                 'every case terminates promptly',
                 'timeout x%d: replay abandoned' % MAX_SLOW_PER_SHARD)


def _replay(inputs, ctx):
    k = inputs['kind']
    if k == 'shard':
        run_shard(inputs['shard'], ctx)
    elif k == 'deep':
        run_deep(inputs['ending'], ctx)
    elif k == 'areas':
        run_areas(ctx)
    elif k == 'direct':
        run_graph('direct', inputs['n'], inputs['base'], inputs['code'], ctx)
    elif k == 'mixed':
        run_mixed(inputs['i0'], tuple(inputs['rest']), ctx)
    elif k == 'variant':
        run_variant(inputs['via'], inputs['place'], inputs['n'],
                    inputs['base'], inputs['code'], ctx)
    elif k == 'ladder':
        run_ladder(inputs['ending'], inputs['d'], ctx)
    elif k == 'range':
        run_rangegraph(inputs['n'], tuple(inputs['choice']), ctx)
    else:
        # the quadratic bound is relative to depth 5: replay the whole family
        run_chain(inputs['ending'], max(inputs['d'], 5), ctx,
                  inputs.get('link', 'plus'))


def selftest():
    # diamond with a repeated reference: B1=B2+B2+B3, B2=B3, B3 const 3
    adj = [{1: 2, 2: 1}, {2: 1}, {}]
    assert analyse(adj, 0) == (False, False, 9.0)
    # two-cycle B1<->B2, B3 -> B1 reaches it
    adj = [{1: 1}, {0: 1}, {0: 1}]
    assert analyse(adj, 0)[:2] == (True, True)
    assert analyse(adj, 2)[:2] == (False, True)
    assert analyse([{0: 1}], 0)[:2] == (True, True)
