"""Helper of C18: make the given library calls one after the other in THIS
(fresh) process and print the observations as JSON.  What the library
remembers process-wide about arguments it has converted starts empty here.

usage: python -m xlmc.checks.c18_proc '<json list of [function, [args]]>'
"""
import json
import sys


def main():
    from .. import lib
    out = []
    for name, args in json.loads(sys.argv[1]):
        out.append(lib.call(name, *args))
    print(json.dumps(out))


if __name__ == '__main__':
    main()
