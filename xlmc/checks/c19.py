"""C19 - base-conversion functions are exact two's-complement conversions.

Oracle scope
  enforced : for integers of the representable windows, the twelve functions
             DEC2BIN/OCT/HEX, BIN/OCT/HEX2DEC and the six cross conversions
             return exactly the reference digits (upper case, non-negative
             results zero-padded to ``places``, negative results as 10-digit
             two's complement); X2Y(Y2X(v)) is the identity (canonical
             spelling); #NUM! for numbers outside the window, invalid digits,
             fractional digit strings, more than 10 digits, ``places`` outside
             1..10 or too small for a non-negative result; #VALUE! for a
             boolean in either argument.  Direct calls, literal formulas and
             formulas over cell references.
  lenient  : two different error classes at once (either accepted); a
             negative value with a valid ``places`` < 10 (10-digit result or
             #NUM! accepted: the statement only fixes padding of non-negative
             results).
  refused  : fractional decimal numbers, numeric text as the decimal number,
             empty text and blanks, fractional or text ``places`` - the
             statement is silent; counted under skipped_out_of_scope, never
             executed.
"""
import itertools

from .. import lib
from ..ref import bases as ref

PROPERTY = 'C19'
LEVEL = 'exploration'
OMIT = ref.OMIT

PLACES_ALL = (OMIT, -1, 0, 1, 2, 3, 4, 5, 6, 7, 8, 9, 10, 11, True, False)
PLACES_REFUSED = 2          # 3.9 and "3": generated in the design, not judged
INVALID_ALPHABET = '012789AFGaf.- '
DENSE = {'quick': 70000, 'thorough': 2 ** 19}
# |n| up to here: every spelling x {omitted, too small, exact, 10} x all
# functions; beyond: the thinner programme of thin_cases()
DENSE_RICH = {'quick': 4200, 'thorough': 70000}
STRLEN = {'quick': 3, 'thorough': 4}

RULE = ('families: (A) the whole binary window -512..511 x 16 places values '
        '(omitted, -1, 0, 1..10, 11, TRUE, FALSE) through all twelve '
        'functions, every binary digit string of length 1..10, literal and '
        'cell-reference formulas; (B) every k-bit boundary +-2^k+-6, k=0..40 '
        '(contains all window bounds +-4 of the octal and hexadecimal '
        'windows) x all places x all functions x routes; (C) every integer '
        'of the dense range (quick +-70000, thorough +-2^19) through all '
        'functions with places in {omitted, too small by one, exact, 10} '
        '(every spelling up to +-4200 / +-70000, canonical spelling mainly '
        'beyond); '
        '(D) every string up to length 3 (thorough 4) over '
        '"012789AFGaf.- ", 10/11-digit strings, fractional numbers and '
        'booleans; round trips X2Y(Y2X(v)) for A-C.  A case is non-trivial '
        'when the two\'s-complement wrap (negative value), a window bound '
        '(value within 4 of it or outside), the padding rule (places '
        'supplied) or an input-validation rule decides the result; plain '
        'conversions of interior non-negative values without places count '
        'as evaluations only')
BOUNDS = {
    'quick': {'binary_window': 'complete x 16 places values',
              'bit_boundaries': 'k=0..40, +-6, both signs',
              'dense_range': '-70000..70000 (all spellings to +-4200)',
              'invalid_strings': 'length<=3 over 14 characters'},
    'thorough': {'binary_window': 'complete x 16 places values',
                 'bit_boundaries': 'k=0..40, +-6, both signs',
                 'dense_range': '-2^19..2^19 (all spellings to +-70000)',
                 'invalid_strings': 'length<=4 over 14 characters'},
}
ASSUMPTIONS = [
    'two\'s-complement model of the statement: 10 digits per base, windows '
    '-512..511 / -2^29..2^29-1 / -2^39..2^39-1 (xlmc/ref/bases.py, '
    'self-tested against int(s, base), format() and the examples of the '
    'Excel documentation)',
    'lower-case hexadecimal digits are hexadecimal digits; a blank, a sign '
    'or a decimal point inside a digit string is an invalid digit',
]
TECHNIQUE = ('bounded-exhaustive enumeration of (function, number, places, '
             'route) over the complete binary window, all bit boundaries, a '
             'dense integer range and an invalid-input alphabet, executed on '
             'the real library against an independent two\'s-complement '
             'reference model')
LEVEL_TEXT = ('The binary window is decided completely (every integer, every '
              'digit string, every places value, all twelve functions, call '
              'and formula routes); the octal and hexadecimal windows are '
              'explored at every bit boundary +-6 and on every integer of a '
              'dense range, with round trips, plus every short string over '
              'an alphabet holding each invalid character class.')
LEVEL_NOTE = ('Trusted: xlmc/ref/bases.py (self-tested).  Not covered: the '
              'interior of the 30/40-bit windows beyond the dense range '
              'except bit boundaries; inputs on which the statement is '
              'silent (fractional decimal numbers, text places, empty text) '
              'are not judged.')

_SRC = ('BIN', 'OCT', 'HEX')


# -- value sets ------------------------------------------------------------
def boundary_values():
    vals = set()
    for k in range(0, 41):
        for sign in (1, -1):
            for d in range(-6, 7):
                vals.add(sign * 2 ** k + d)
    return sorted(v for v in vals if not -512 <= v <= 511)


_BVALS = None


def bvals():
    global _BVALS
    if _BVALS is None:
        _BVALS = boundary_values()
    return _BVALS


def in_window(v, base):
    lo, hi = ref.window(base)
    return lo <= v <= hi


# -- execution ---------------------------------------------------------------
def lit(x):
    if isinstance(x, bool):
        return 'TRUE' if x else 'FALSE'
    if isinstance(x, str):
        return '"%s"' % x
    return repr(x)


def pl(p):
    return '-' if p is OMIT else repr(p)


def formula_of(fn, args):
    return '=%s(%s)' % (fn, ','.join(args))


def execute(fn, number, places, route):
    if route == 'call':
        if places is OMIT:
            return lib.call(fn, number)
        return lib.call(fn, number, places)
    if route == 'formula':
        args = [lit(number)] + ([] if places is OMIT else [lit(places)])
        return lib.eval_formula(formula_of(fn, args))
    if route == 'cells':
        cells = {'Sheet1!A1': number}
        args = ['A1']
        if places is not OMIT:
            cells['Sheet1!B1'] = places
            args.append('B1')
        return lib.eval_formula(formula_of(fn, args), cells)
    raise AssertionError(route)


def execute_rt(fn1, fn2, number, places, route):
    if route == 'call':
        try:
            f1, f2 = lib.FUNCTIONS[fn1], lib.FUNCTIONS[fn2]
        except KeyError as exc:
            return 'unregistered:%s' % exc.args[0]
        if places is OMIT:
            return lib.observe(lambda: f2(f1(number)))
        return lib.observe(lambda: f2(f1(number, places)))
    if route == 'formula':
        args = [lit(number)] + ([] if places is OMIT else [lit(places)])
        return lib.eval_formula('=%s(%s(%s))' % (fn2, fn1, ','.join(args)))
    raise AssertionError(route)


def one(ctx, fam, fn, number, places=OMIT, route='call'):
    e = ref.expected(fn, number, places)
    if e is None:
        ctx.skip('statement-silent')
        return
    got = execute(fn, number, places, route)
    key = 'C19/%s/%s/n=%r/p=%s/r=%s' % (fam, fn, number, pl(places), route)
    if got in e.accept:
        ctx.ok(key, got, e.nontrivial)
    else:
        ctx.fail(key, sorted(e.tags | {'route:' + route}),
                 {'kind': 'one', 'fam': fam, 'fn': fn, 'number': number,
                  'places': places, 'route': route},
                 e.want, got, e.nontrivial)


def rt_expect(fn1, fn2, number, places):
    """Expectation of fn2(fn1(number, places)), or None when the first step
    is not a uniquely determined non-error value."""
    e1 = ref.expected(fn1, number, places)
    if e1 is None or len(e1.accept) != 1:
        return None
    o = e1.accept[0]
    if o.startswith('text:'):
        mid = o[5:]
    elif o.startswith('num:'):
        mid = int(float(o[4:]))
    else:
        return None
    e2 = ref.expected(fn2, mid)
    if e2 is None:
        return None
    tags = {'rt', 'fn:%s>%s' % (fn1, fn2)}
    tags.update(t for t in e1.tags if t.split(':')[0] in
                ('sign', 'edge', 'places', 'digits'))
    return ref.Expect(e2.accept, tags, True, e1.value)


def rt(ctx, fam, fn1, fn2, number, places=OMIT, route='call'):
    e = rt_expect(fn1, fn2, number, places)
    if e is None:
        ctx.skip('round-trip-first-step-not-a-value')
        return
    got = execute_rt(fn1, fn2, number, places, route)
    key = 'C19/%s/RT/%s>%s/n=%r/p=%s/r=%s' % (fam, fn1, fn2, number,
                                               pl(places), route)
    if got in e.accept:
        ctx.ok(key, got, True)
    else:
        ctx.fail(key, sorted(e.tags | {'route:' + route}),
                 {'kind': 'rt', 'fam': fam, 'fn': fn1, 'fn2': fn2,
                  'number': number, 'places': places, 'route': route},
                 e.want, got, True)


# -- families ------------------------------------------------------------------
def few_places(value, dst):
    """omitted, one too small, exact, 10 (for a non-negative in-window value);
    omitted, 1, 10 otherwise."""
    if dst == 'DEC':
        return (OMIT,)
    if value >= 0 and in_window(value, dst):
        n = len(ref.encode(value, dst))
        out = [OMIT]
        if n > 1:
            out.append(n - 1)
        out.append(n)
        if n < 10:
            out.append(10)
        return tuple(out)
    return (OMIT, 1, 10)


def spellings(value, src, all_lengths):
    """Digit strings (and numbers) that spell ``value`` in base ``src``."""
    s = ref.encode(value, src)
    out = [s]
    if value >= 0 and len(s) < 10:
        if all_lengths:
            out.extend('0' * (n - len(s)) + s for n in range(len(s) + 1, 11))
        else:
            out.append('0' * (10 - len(s)) + s)
    if s != s.lower():
        out.append(s.lower())
    if s.isdigit():
        out.append(int(s))          # =BIN2DEC(1111111111)
    return out


def value_cases(ctx, fam, v, places_of, all_lengths, formula_level):
    """Everything that is asked about one integer ``v``.

    places_of(value, dst) -> places values; formula_level 0 none, 1 a few
    formulas, 2 every DEC2BIN places value as a formula as well.
    """
    # decimal origin
    for dst in _SRC:
        fn = 'DEC2' + dst
        for p in places_of(v, dst):
            one(ctx, fam, fn, v, p)
            if formula_level >= 2 and dst == 'BIN':
                one(ctx, fam, fn, v, p, 'formula')
        if places_of is all_places:
            ctx.skip('places-fractional-or-text', PLACES_REFUSED)
        if formula_level == 1 or (formula_level >= 2 and dst != 'BIN'):
            one(ctx, fam, fn, v, OMIT, 'formula')
            one(ctx, fam, fn, v, 10, 'formula')
        if formula_level >= 1:
            one(ctx, fam, fn, v, OMIT, 'cells')
            one(ctx, fam, fn, v, 10, 'cells')
        if in_window(v, dst):
            rt(ctx, fam, fn, dst + '2DEC', v)
            if formula_level >= 1:
                rt(ctx, fam, fn, dst + '2DEC', v, OMIT, 'formula')
            if v >= 0:
                n = len(ref.encode(v, dst))
                for p in (range(n, 11) if all_lengths else sorted({n, 10})):
                    rt(ctx, fam, fn, dst + '2DEC', v, p)
    one(ctx, fam, 'DEC2BIN', float(v))
    # non-decimal origins
    for src in _SRC:
        if not in_window(v, src):
            continue
        canon = ref.encode(v, src)
        for s in spellings(v, src, all_lengths and src == 'BIN'):
            main = s == canon
            for dst in ('DEC',) + _SRC:
                if dst == src:
                    continue
                fn = '%s2%s' % (src, dst)
                for p in (places_of(v, dst) if dst != 'DEC' else (OMIT,)):
                    one(ctx, fam, fn, s, p)
                if formula_level >= 1 and (main or isinstance(s, int)):
                    one(ctx, fam, fn, s, OMIT, 'formula')
                    if dst != 'DEC':
                        one(ctx, fam, fn, s, 10, 'formula')
                    if main:
                        one(ctx, fam, fn, s, OMIT, 'cells')
                # there and back
                if dst == 'DEC':
                    rt(ctx, fam, fn, 'DEC2' + src, s)
                elif in_window(v, dst):
                    rt(ctx, fam, fn, '%s2%s' % (dst, src), s)
                    if main and formula_level >= 1:
                        rt(ctx, fam, fn, '%s2%s' % (dst, src), s, OMIT,
                           'formula')
                    if main and v >= 0:
                        rt(ctx, fam, fn, '%s2%s' % (dst, src), s, 10)


def thin_cases(ctx, fam, v):
    """The cheaper per-value programme of the outer dense range (|v| > 511,
    so the binary window is always exceeded)."""
    one(ctx, fam, 'DEC2BIN', v)
    one(ctx, fam, 'DEC2HEX', float(v))
    for dst in ('OCT', 'HEX'):
        fn = 'DEC2' + dst
        for p in few_places(v, dst):
            one(ctx, fam, fn, v, p)
        rt(ctx, fam, fn, dst + '2DEC', v)
        rt(ctx, fam, fn, dst + '2DEC', v, 10)
    for src, other in (('OCT', 'HEX'), ('HEX', 'OCT')):
        canon = ref.encode(v, src)
        one(ctx, fam, src + '2DEC', canon)
        one(ctx, fam, src + '2BIN', canon)
        fn = '%s2%s' % (src, other)
        for p in few_places(v, other):
            one(ctx, fam, fn, canon, p)
        rt(ctx, fam, src + '2DEC', 'DEC2' + src, canon)
        rt(ctx, fam, fn, '%s2%s' % (other, src), canon)
        for s in spellings(v, src, False)[1:]:
            one(ctx, fam, src + '2DEC', s)
            one(ctx, fam, fn, s)


def all_places(value, dst):
    return PLACES_ALL if dst != 'DEC' else (OMIT,)


def strings_cases(ctx, first, maxlen, formula_len):
    fam = 'D-strings'
    for n in range(1, maxlen + 1):
        for rest in itertools.product(INVALID_ALPHABET, repeat=n - 1):
            s = first + ''.join(rest)
            for src in _SRC:
                if ref.valid_digits(s, src):
                    c = ref.encode(ref.decode(s, src), src)
                    if src == 'BIN' or s == c or s == c.lower():
                        continue        # owned by the value families
                for dst in ('DEC',) + _SRC:
                    if dst == src:
                        continue
                    fn = '%s2%s' % (src, dst)
                    one(ctx, fam, fn, s)
                    if dst != 'DEC':
                        one(ctx, fam, fn, s, 10)
                    if n <= formula_len:
                        one(ctx, fam, fn, s, OMIT, 'formula')
                        one(ctx, fam, fn, s, OMIT, 'cells')


LONG_STRINGS = (
    '1' * 11, '0' * 10 + '1', '0' * 11, '7' * 11, 'F' * 11, '1' * 12,
    '01111111111', '10000000000', '00000000101', '1' * 20, '1' * 9 + '2',
    '7' * 9 + '8', 'F' * 9 + 'G', '1' * 9 + '.', '1' * 8 + '.1',
    '-111111111', ' 111111111', '111111111 ', '1' * 5 + '.' + '1' * 5,
    # words: texts whose truth value is not their emptiness
    'false', 'FALSE', 'False', 'true', 'TRUE', 'fa', 'FACE', 'no', '0x1F',
    # a line break is not a digit, wherever it stands
    '101\n', '1011010110\n', '\n101', '17\n', 'FF\n', '1\n0', '101\r\n',
    # characters that Python's int() or case mappings turn into digits: the
    # ff ligature (upper() gives FF), full-width and Arabic-Indic digits,
    # full-width letters
    '\ufb00', '\ufb00\ufb00', '1\ufb00', '\uff11\uff10', '\u0661\u0660',
    '\uff21', '\uff41\uff11', '1\u0661',
)
FRACTIONS = (0.5, 1.5, 10.1, 101.5, 0.1, 1.01, 111.111, 7.7, 1e-3,
             # long digit strings with a small fraction
             1234567012.25, 1010011.001, 1011010110.25, 1111111.5,
             7654321.25, 1000000000.5)
LONG_INTS = (11111111111, 10000000000, 77777777777, 1234567, 99999999999,
             -1, -10, -101, -1111111111, 2, 8, 9, 12, 18, 19, 102, 108)


def special_cases(ctx, part):
    fam = 'D-special'
    pairs = [(s, d) for s in _SRC for d in ('DEC',) + _SRC if s != d]
    if part == 'long':
        for s in LONG_STRINGS + LONG_INTS + FRACTIONS:
            for src, dst in pairs:
                fn = '%s2%s' % (src, dst)
                for route in ('call', 'formula', 'cells'):
                    one(ctx, fam, fn, s, OMIT, route)
                    if dst != 'DEC':
                        one(ctx, fam, fn, s, 10, route)
    elif part == 'bool':
        for fn in ref.FUNCTIONS:
            src, dst = ref.split(fn)
            good = 5 if src == 'DEC' else '101'
            for b in (True, False):
                for route in ('call', 'formula', 'cells'):
                    one(ctx, fam, fn, b, OMIT, route)
                    if dst != 'DEC':
                        for p in PLACES_ALL:
                            one(ctx, fam, fn, b, p, route)
                        one(ctx, fam, fn, good, b, route)
                        one(ctx, fam, fn, -5 if src == 'DEC' else
                            ref.encode(-5, src), b, route)
    elif part == 'float':
        # integral floats spell integers; fractional decimal numbers are
        # refused by the reference (counted as skipped)
        for v in (0, 1, 5, -5, 511, -512, 512, -513, 2 ** 29 - 1, 2 ** 29,
                  -2 ** 29, -2 ** 29 - 1, 2 ** 39 - 1, 2 ** 39, -2 ** 39,
                  -2 ** 39 - 1):
            for dst in _SRC:
                for p in PLACES_ALL:
                    one(ctx, fam, 'DEC2' + dst, float(v), p)
                one(ctx, fam, 'DEC2' + dst, float(v), OMIT, 'cells')
                one(ctx, fam, 'DEC2' + dst, v + 0.5)
            for src in _SRC:
                if in_window(v, src) and ref.encode(v, src).isdigit():
                    f = float(ref.encode(v, src))
                    for dst in ('DEC',) + _SRC:
                        if dst != src:
                            one(ctx, fam, '%s2%s' % (src, dst), f)
                            one(ctx, fam, '%s2%s' % (src, dst), f, OMIT,
                                'cells')
    else:
        raise AssertionError(part)


# -- contract --------------------------------------------------------------------
def plan(tier):
    shards = []
    for lo in range(-512, 512, 16):
        shards.append({'fam': 'A-binwin', 'lo': lo, 'hi': lo + 16})
    b = bvals()
    for i in range(0, len(b), 12):
        shards.append({'fam': 'B-bounds', 'lo': i, 'hi': min(len(b), i + 12)})
    lim = DENSE[tier]
    step = 1000 if tier == 'quick' else 8192
    for lo in range(-lim, lim + 1, step):
        shards.append({'fam': 'C-dense', 'lo': lo,
                       'hi': min(lim + 1, lo + step)})
    for ch in INVALID_ALPHABET:
        shards.append({'fam': 'D-strings', 'first': ch,
                       'maxlen': STRLEN[tier],
                       'formula_len': 2 if tier == 'quick' else 3})
    for part in ('long', 'bool', 'float'):
        shards.append({'fam': 'D-special', 'part': part})
    return shards


def run_shard(shard, ctx):
    fam = shard['fam']
    if fam == 'A-binwin':
        for v in range(shard['lo'], shard['hi']):
            value_cases(ctx, fam, v, all_places, True, 2)
        ctx.sample({'family': fam, 'value': shard['lo'],
                    'formula': formula_of('DEC2BIN', [lit(shard['lo']),
                                                      '10'])})
    elif fam == 'B-bounds':
        for v in bvals()[shard['lo']:shard['hi']]:
            value_cases(ctx, fam, v, all_places, False, 1)
        ctx.sample({'family': fam, 'value': bvals()[shard['lo']]})
    elif fam == 'C-dense':
        skip = set(bvals())
        for v in range(shard['lo'], shard['hi']):
            if -512 <= v <= 511 or v in skip:
                continue
            if abs(v) <= DENSE_RICH[ctx.tier]:
                value_cases(ctx, fam, v, few_places, False, 0)
            else:
                thin_cases(ctx, fam, v)
    elif fam == 'D-strings':
        strings_cases(ctx, shard['first'], shard['maxlen'],
                      shard['formula_len'])
    elif fam == 'D-special':
        special_cases(ctx, shard['part'])
    else:
        raise AssertionError(fam)


def replay(inputs, ctx):
    if inputs['kind'] == 'one':
        one(ctx, inputs['fam'], inputs['fn'], inputs['number'],
            inputs['places'], inputs['route'])
    else:
        rt(ctx, inputs['fam'], inputs['fn'], inputs['fn2'], inputs['number'],
           inputs['places'], inputs['route'])


def selftest():
    ref.selftest()
    b = bvals()
    for base in _SRC:
        lo, hi = ref.window(base)
        for d in range(-4, 5):
            for edge in (lo, hi):
                v = edge + d
                assert v in b or -512 <= v <= 511, (base, v)
    assert lit(True) == 'TRUE' and lit('1F') == '"1F"' and lit(-5) == '-5'
    assert few_places(5, 'BIN') == (OMIT, 2, 3, 10)
    assert few_places(-5, 'BIN') == (OMIT, 1, 10)
    assert '0000000101' in spellings(5, 'BIN', True)
    assert 101 in spellings(5, 'BIN', False)
    assert 'ff' in spellings(255, 'HEX', False)
