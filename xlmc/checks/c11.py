"""C11 - a workbook file loads into a model with the same cells and formulas.

Generated .xlsx files (raw SpreadsheetML writer, xlmc/gen/rawxlsx.py) are
loaded with ModelCompiler().read_and_parse_archive and compared with the
generator's dictionary of the workbook.

Oracle scope
  enforced : every stored cell of a sheet that is not ignored is present as
             Sheet!A1 with its constant (number, text in each of its storage
             forms, boolean, date) or its formula text ('=...') and the
             cached result; shared-formula members show the anchor formula
             shifted to their position; defined names mean their cell /
             range; get_cell_value before any evaluation returns the cached
             result; ignored sheets contribute no stored cell; evaluating
             every cell of the loaded model equals evaluating a model built
             by read_and_parse_dict from the same contents (where that reader
             can express them) and equals the generator's arithmetic.
  lenient  : an error constant / cached error may be carried as an error
             value or as its text; placeholder blank cells created for
             ranges are allowed; a date may be a datetime or its serial.
  refused  : array formulas, data tables, external links, hidden sheets /
             names.
"""
import itertools
import os
import tempfile

from .. import lib
from ..gen import rawxlsx as R

PROPERTY = 'C11'
LEVEL = 'exploration'
RULE = ('generated workbooks: (sheets) every sheet-name list of length 1..4 '
        'over 4 names (3 orders) x every subset of ignored sheets; (forms) '
        'every storage form x every cell of a 3x3 grid x every sheet, '
        'isolated and in Latin-square combination; (shared) 6 anchor '
        'formulas x 4 block shapes x 2 anchor positions; (names) defined '
        'names for cells / ranges / quoted sheets.  Non-trivial = the '
        'judged cell is not a plain number constant, or the workbook has an '
        'ignored sheet')
BOUNDS = {'quick': {'sheets': 4, 'grid': '3x3', 'orders': 3},
          'thorough': {'sheets': 4, 'grid': '3x3', 'orders': 24,
                       'pairs_of_forms': True}}
ASSUMPTIONS = ['the raw writer emits valid SpreadsheetML (accepted by '
               'openpyxl 3.1)']
TECHNIQUE = ('bounded-exhaustive enumeration of workbook configurations '
             '(storage forms x positions x sheets x ignored subsets x shared '
             'formula blocks) loaded by the real reader and compared with '
             'the generator\'s dictionary; differential against '
             'read_and_parse_dict')
LEVEL_TEXT = ('Every SpreadsheetML storage form at every position of a 3x3 '
              'grid on every sheet, every subset of ignored sheets for 1-4 '
              'sheets, shared formulas in every block shape and defined '
              'names are written to real .xlsx files and loaded by the real '
              'reader; cells, formula texts, cached values, names and '
              'evaluation results are compared with the generator\'s '
              'dictionary.')
LEVEL_NOTE = ('Trusted: the raw writer and the generator\'s reference '
              'shifter for shared formulas.  Not covered: array formulas, '
              'hidden sheets, external links, files written by other '
              'producers.')

NAMES4 = ['Sheet1', 'My Sheet', 'Data_2', "It's"]
GRID = ['A1', 'B1', 'C1', 'A2', 'B2', 'C2', 'A3', 'B3', 'C3']

FORMS = [
    ('n', {'form': 'n', 'v': 2.5}, 'num:2.5'),
    ('n-int', {'form': 'n', 'v': 7}, 'num:7.0'),
    ('s', {'form': 's', 'v': 'shared é'}, 'text:shared é'),
    ('str', {'form': 'str', 'v': 'plain <&>'}, 'text:plain <&>'),
    ('inlineStr', {'form': 'inlineStr', 'v': 'in line'}, 'text:in line'),
    ('b-true', {'form': 'b', 'v': True}, 'bool:True'),
    ('b-false', {'form': 'b', 'v': False}, 'bool:False'),
    ('date', {'form': 'date', 'v': 43831}, 'date:43831'),
    # a date-formatted number below 1 is a time of day: still a number
    ('time', {'form': 'date', 'v': 0.5}, 'num:0.5'),
    # a date with a time of day keeps both
    ('datetime', {'form': 'date', 'v': 43831.75}, 'date:43831+64800s'),
    ('e', {'form': 'e', 'v': '#N/A'}, 'err:#N/A'),
    # text that begins with "=" (typed as '=E1*2): a constant, not a formula
    ('s-eq', {'form': 's', 'v': '=E1*2'}, 'text:=E1*2'),
    ('str-eq', {'form': 'str', 'v': '=E1*2'}, 'text:=E1*2'),
    ('inlineStr-eq', {'form': 'inlineStr', 'v': '=E1*2'}, 'text:=E1*2'),
    ('f', {'form': 'f', 'f': 'E1+E2*E3'}, None),
    ('f-n', {'form': 'f', 'f': 'E1+E2*E3', 'ct': 'n', 'cv': 99.5}, 'num:99.5'),
    ('f-str', {'form': 'f', 'f': 'E1&"x"', 'ct': 'str', 'cv': 'cached'},
     'text:cached'),
    ('f-b', {'form': 'f', 'f': 'E1>E2', 'ct': 'b', 'cv': True}, 'bool:True'),
    ('f-inlineStr', {'form': 'f', 'f': 'E1&"x"', 'ct': 'inlineStr',
                     'cv': 'cached'}, 'text:cached'),
    # a cached TEXT that spells a number stays text
    ('f-str-num', {'form': 'f', 'f': 'E1&"x"', 'ct': 'str', 'cv': '007'},
     'text:007'),
    ('f-str-sci', {'form': 'f', 'f': 'E1&"x"', 'ct': 'str', 'cv': '1.5e3'},
     'text:1.5e3'),
    # "[" inside a text literal is not an external reference: the formula is
    # evaluated, the (stale) cached result is not kept
    ('f-bracket', {'form': 'f', 'f': 'E1&" [kg]"', 'ct': 'str',
                   'cv': 'stale'}, 'text:stale'),
    ('f-date', {'form': 'f', 'f': 'E1+43829', 'ct': 'n', 'cv': 43831,
                'style': 1}, 'date:43831'),
    ('f-time', {'form': 'f', 'f': 'E1/8', 'ct': 'n', 'cv': 0.25,
                'style': 1}, 'num:0.25'),
    ('f-datetime', {'form': 'f', 'f': 'E1+43829', 'ct': 'n', 'cv': 43831.75,
                    'style': 1}, 'date:43831+64800s'),
    ('f-e', {'form': 'f', 'f': 'E1/0', 'ct': 'e', 'cv': '#DIV/0!'},
     'err:#DIV/0!'),
]
HELPERS = {'E1': 2, 'E2': 3, 'E3': 4}
FORMULA_VALUES = {'E1+43829': 'num:43831.0', 'E1/8': 'num:0.25', 'E1&" [kg]"': 'text:2 [kg]',
                  'E1+E2*E3': 'num:14.0', 'E1&"x"': 'text:2x',
                  'E1>E2': 'bool:False', 'E1/0': 'err:#DIV/0!'}

_TMP = None


def tmp_path(name):
    global _TMP
    if _TMP is None:
        _TMP = tempfile.TemporaryDirectory(prefix='xlmc_c11_')
    return os.path.join(_TMP.name, '%d_%s.xlsx' % (os.getpid(), name))


def load(sheets, names=None, ignore=(), date1904=False, hidden=(),
         how='ignore-list', norefs=()):
    path = tmp_path('wb')
    with open(path, 'wb') as fp:
        fp.write(R.build(sheets, names, date1904, hidden, norefs))
    import warnings
    with warnings.catch_warnings():
        warnings.simplefilter('ignore')
        if how == 'default':
            return lib.ModelCompiler().read_and_parse_archive(path)
        if how == 'ignore-hidden':
            return lib.ModelCompiler().read_and_parse_archive(
                path, ignore_hidden=True)
        return lib.ModelCompiler().read_and_parse_archive(
            path, ignore_sheets=list(ignore))


# a date constant / a date-formatted cached result in a workbook that uses the
# 1904 date system denotes the day 1462 days later
EPOCH_SHIFT = 1462


def shifted(want, date1904):
    if date1904 and want and want.startswith('date:'):
        day, plus, rest = want[5:].partition('+')
        return 'date:%d%s%s' % (int(day) + EPOCH_SHIFT, plus, rest)
    return want


def lenient(got, want):
    """err:X may be carried as text:X; a date as its serial."""
    if got == want:
        return True
    if want.startswith('err:') and got == 'text:' + want[4:]:
        return True
    if want.startswith('date:') and got == 'num:%s.0' % want[5:]:
        return True
    return False


def helper_cells():
    return {c: {'form': 'n', 'v': v} for c, v in HELPERS.items()}


def judge_cell(ctx, key0, model, sheet, coord, spec, want_value, tags, inputs,
               nontriv):
    addr = '%s!%s' % (sheet, coord)
    cell = model.cells.get(addr)
    if cell is None:
        ctx.fail(key0 + '/present', tags, inputs, 'cell present', 'cell absent',
                 nontriv)
        return
    ctx.ok(key0 + '/present', 'present', nontriv)
    # formula text
    want_f = ('=' + spec['f']) if 'f' in spec else None
    got_f = cell.formula.formula if cell.formula is not None else None
    ctx.check(key0 + '/formula', 'formula:%s' % got_f, 'formula:%s' % want_f,
              tags + ['oracle:formula-text'], inputs, nontriv)
    if want_f is not None:
        infm = addr in model.formulae
        ctx.check(key0 + '/in-formulae', 'in-formulae:%s' % infm,
                  'in-formulae:True', tags + ['oracle:formulae-key'], inputs,
                  nontriv)
    # stored / cached value through the public accessor, before evaluation
    got_v = lib.observe(model.get_cell_value, addr)
    want_v = want_value if want_value is not None else 'blank'
    if lenient(got_v, want_v):
        ctx.ok(key0 + '/value', got_v, nontriv)
    else:
        ctx.fail(key0 + '/value', tags + ['oracle:stored-value'], inputs,
                 want_v, got_v, nontriv)


def judge_eval(ctx, key0, model, sheet, coord, want, tags, inputs, nontriv):
    got = lib.eval_addr(model, '%s!%s' % (sheet, coord))
    if lenient(got, want):
        ctx.ok(key0 + '/evaluate', got, nontriv)
    else:
        ctx.fail(key0 + '/evaluate', tags + ['oracle:evaluate'], inputs, want,
                 got, nontriv)


def eval_want(spec, const_want):
    if 'f' in spec:
        return FORMULA_VALUES[spec['f']]
    return const_want


# ---- family: forms -------------------------------------------------------------
def run_form_isolated(fi, pos, sheet_index, ctx, date1904=False):
    fname, spec, want = FORMS[fi]
    want = shifted(want, date1904)
    titles = ['Sheet1', 'My Sheet']
    sheets = []
    for i, t in enumerate(titles):
        cells = helper_cells()
        if i == sheet_index:
            cells[GRID[pos]] = spec
        sheets.append((t, cells))
    key0 = 'C11/form%s/%s/%s/sheet=%d' % ('-1904' if date1904 else '', fname,
                                          GRID[pos], sheet_index)
    inputs = {'family': 'form', 'fi': fi, 'pos': pos, 'sheet': sheet_index,
              'date1904': date1904}
    tags = ['form:' + fname] + (['epoch:1904'] if date1904 else [])
    try:
        model = load(sheets, date1904=date1904)
    except Exception as exc:  # noqa: BLE001
        ctx.fail(key0 + '/load', tags, inputs, 'loads', lib.exc_obs(exc))
        return
    nontriv = fname not in ('n', 'n-int')
    judge_cell(ctx, key0, model, titles[sheet_index], GRID[pos], spec, want,
               tags, inputs, nontriv)
    judge_eval(ctx, key0, model, titles[sheet_index], GRID[pos],
               eval_want(spec, want), tags, inputs, nontriv)
    # no other stored cell appeared on the grid
    extra = [a for a, c in model.cells.items()
             if a.split('!')[1] in GRID and a != '%s!%s' % (
                 titles[sheet_index], GRID[pos])
             and (c.formula is not None or c.value not in (None, ''))]
    ctx.check(key0 + '/no-extra', 'extra:%d' % len(extra), 'extra:0', tags,
              inputs, False)


def run_form_norefs(fi, pos, ctx, mode='all'):
    """The r attribute of rows and cells is optional: a sheet written without
    it (rows and cells in sequence from A1) is the same sheet.  The form under
    test stands at GRID[pos]; the rest of A1:E3 is filled (column E holds the
    helper cells)."""
    fname, spec, want = FORMS[fi]
    cells = {}
    for r in (1, 2, 3):
        for ci, c in enumerate('ABCD'):
            cells['%s%d' % (c, r)] = {'form': 'n', 'v': 100 * r + ci}
    cells.update(helper_cells())
    cells[GRID[pos]] = spec
    key0 = 'C11/norefs-%s/%s/%s' % (mode, fname, GRID[pos])
    inputs = {'family': 'norefs', 'fi': fi, 'pos': pos, 'mode': mode}
    tags = ['form:' + fname, 'xml:no-r-attributes', 'norefs:' + mode]
    try:
        model = load([('Sheet1', cells)], norefs={'Sheet1': mode})
    except Exception as exc:  # noqa: BLE001
        ctx.fail(key0 + '/load', tags, inputs, 'loads', lib.exc_obs(exc))
        return
    judge_cell(ctx, key0, model, 'Sheet1', GRID[pos], spec, want, tags,
               inputs, True)
    judge_eval(ctx, key0, model, 'Sheet1', GRID[pos], eval_want(spec, want),
               tags, inputs, True)
    got = {a: lib.observe(model.get_cell_value, a)
           for a, c in model.cells.items()
           if a != 'Sheet1!' + GRID[pos]
           and (c.formula is not None or c.value not in (None, ''))}
    wantd = {'Sheet1!' + k: lib.norm(v['v']) for k, v in cells.items()
             if k != GRID[pos]}
    ctx.check(key0 + '/other-cells', repr(sorted(got.items())),
              repr(sorted(wantd.items())), tags + ['oracle:addresses'],
              inputs, True)


def run_form_latin(rot, sheet_index, ctx):
    titles = ['Sheet1', 'My Sheet']
    sheets = []
    placed = {}
    for i, t in enumerate(titles):
        cells = helper_cells()
        if i == sheet_index:
            for p, coord in enumerate(GRID):
                f = FORMS[(p + rot) % len(FORMS)]
                cells[coord] = f[1]
                placed[coord] = f
        sheets.append((t, cells))
    key00 = 'C11/latin/rot=%d/sheet=%d' % (rot, sheet_index)
    inputs = {'family': 'latin', 'rot': rot, 'sheet': sheet_index}
    try:
        model = load(sheets)
    except Exception as exc:  # noqa: BLE001
        ctx.fail(key00 + '/load', ['latin'], inputs, 'loads',
                 lib.exc_obs(exc))
        return
    for coord, (fname, spec, want) in placed.items():
        key0 = '%s/%s/%s' % (key00, coord, fname)
        tags = ['form:' + fname, 'latin']
        judge_cell(ctx, key0, model, titles[sheet_index], coord, spec, want,
                   tags, inputs, True)
        judge_eval(ctx, key0, model, titles[sheet_index], coord,
                   eval_want(spec, want), tags, inputs, True)
    # differential: the same contents through read_and_parse_dict
    if sheet_index == 0:
        d = {}
        for coord, v in HELPERS.items():
            d['Sheet1!' + coord] = v
        expressible = True
        for coord, (fname, spec, want) in placed.items():
            if 'f' in spec:
                d['Sheet1!' + coord] = '=' + spec['f']
            elif spec['form'] in ('n', 's', 'str', 'inlineStr', 'b') and \
                    not str(spec['v']).startswith('='):
                d['Sheet1!' + coord] = spec['v']
        if expressible:
            try:
                dm = lib.compile_dict(d)
            except Exception as exc:  # noqa: BLE001
                ctx.skip('dict-reader-cannot-express')
                return
            for coord, (fname, spec, want) in placed.items():
                addr = 'Sheet1!' + coord
                if addr not in d:
                    continue
                a = lib.eval_addr(model, addr)
                b = lib.eval_addr(dm, addr)
                ctx.check('%s/%s/differential' % (key00, coord), a, b,
                          ['form:' + fname, 'oracle:differential'], inputs,
                          True)


# ---- family: sheets / ignored subsets ------------------------------------------
def sheet_cells(i):
    cells = helper_cells()
    cells['A1'] = {'form': 'n', 'v': 100 + i}
    cells['B1'] = {'form': 's', 'v': 'name%d' % i}
    cells['C1'] = {'form': 'f', 'f': 'A1*2', 'ct': 'n', 'cv': 2 * (100 + i)}
    # the same text with an unqualified multi-cell range on every sheet (no
    # other formula names that range)
    cells['A2'] = {'form': 'n', 'v': 7 + i}
    cells['D1'] = {'form': 'f', 'f': 'SUM(A1:A2)'}
    return cells


def run_sheets(order, ignore_mask, ctx):
    titles = list(order)
    sheets = [(t, sheet_cells(i)) for i, t in enumerate(titles)]
    ignored = [t for i, t in enumerate(titles) if ignore_mask >> i & 1]
    key0 = 'C11/sheets/%s/ignore=%d' % ('|'.join(titles), ignore_mask)
    inputs = {'family': 'sheets', 'order': titles, 'mask': ignore_mask}
    tags = ['sheets:%d' % len(titles)]
    if ignored:
        tags.append('ignored:some')
    if any("'" in t or ' ' in t for t in titles):
        tags.append('sheetname:needs-quotes')
    try:
        model = load(sheets, ignore=ignored)
    except Exception as exc:  # noqa: BLE001
        ctx.fail(key0 + '/load', tags, inputs, 'loads', lib.exc_obs(exc))
        return
    want_addrs = set()
    for i, t in enumerate(titles):
        if t in ignored:
            continue
        for coord in sheets[i][1]:
            want_addrs.add('%s!%s' % (t, coord))
    got_addrs = {a for a, c in model.cells.items()
                 if c.formula is not None or c.value not in (None, '')}
    nontriv = bool(ignored) or len(titles) > 1
    ctx.check(key0 + '/addresses', repr(sorted(got_addrs)),
              repr(sorted(want_addrs)), tags + ['oracle:addresses'], inputs,
              nontriv)
    ctx.check(key0 + '/formulae', repr(sorted(model.formulae)),
              repr(sorted(a for a in want_addrs
                          if a.endswith('!C1') or a.endswith('!D1'))),
              tags + ['oracle:formulae-keys'], inputs, nontriv)
    for i, t in enumerate(titles):
        if t in ignored:
            continue
        got = lib.eval_addr(model, '%s!C1' % t)
        ctx.check('%s/eval/%d' % (key0, i), got, lib.norm(2 * (100 + i)),
                  tags + ['oracle:evaluate'], inputs, nontriv)
        got = lib.eval_addr(model, '%s!D1' % t)
        ctx.check('%s/eval-range/%d' % (key0, i), got,
                  lib.norm(100 + i + 7 + i),
                  tags + ['oracle:evaluate', 'ref:unqualified-range'], inputs,
                  nontriv)


# ---- family: sheets that hold a single cell -------------------------------------
LONE_FORMS = [('n', {'form': 'n', 'v': 7}), ('f', {'form': 'f', 'f': '3+4'}),
              ('s', {'form': 's', 'v': '7'})]


def run_lone(fi, pos, fpos, ctx):
    """Sheet 'Rates' stores exactly one cell, at GRID[pos]; sheet 'Sheet1'
    stores exactly one cell, a formula at GRID[fpos] that doubles it."""
    fname, spec = LONE_FORMS[fi]
    at, fat = GRID[pos], GRID[fpos]
    sheets = [('Sheet1', {fat: {'form': 'f', 'f': 'Rates!%s*2' % at}}),
              ('Rates', {at: dict(spec)})]
    key0 = 'C11/lone/%s/%s/%s' % (fname, at, fat)
    inputs = {'family': 'lone', 'fi': fi, 'pos': pos, 'fpos': fpos}
    tags = ['sheet:single-cell', 'form:' + fname] + (
        ['lone:A1'] if 'A1' in (at, fat) else [])
    try:
        model = load(sheets)
    except Exception as exc:  # noqa: BLE001
        ctx.fail(key0 + '/load', tags, inputs, 'loads', lib.exc_obs(exc))
        return
    got_addrs = sorted(a for a, c in model.cells.items()
                       if c.formula is not None or c.value not in (None, ''))
    ctx.check(key0 + '/addresses', repr(got_addrs),
              repr(sorted(['Rates!' + at, 'Sheet1!' + fat])),
              tags + ['oracle:addresses'], inputs)
    ctx.check(key0 + '/eval', lib.eval_addr(model, 'Sheet1!' + fat),
              'num:14.0', tags + ['oracle:evaluate'], inputs)


# ---- family: two loads in one process --------------------------------------------
# What a load yields depends on its own arguments only - not on an earlier load
# in the same process (another workbook, other ignore arguments).
LOAD_TITLES = ['Sheet1', 'Calc', 'My Sheet']
LOAD_HIDDEN = {'Calc': 'hidden', 'My Sheet': 'veryHidden'}
LOAD_OPTS = [('default', ()), ('ignore-hidden', ()), ('ignore-list', ()),
             ('ignore-list', ('Calc',)), ('ignore-list', ('Sheet1',)),
             ('ignore-list', ('My Sheet', 'Calc'))]


def load_expect(how, ignore):
    gone = set(ignore)
    if how == 'ignore-hidden':
        gone |= set(LOAD_HIDDEN)
    return {'%s!%s' % (t, coord) for i, t in enumerate(LOAD_TITLES)
            if t not in gone for coord in sheet_cells(i)}


def run_loads(first, second, ctx):
    sheets = [(t, sheet_cells(i)) for i, t in enumerate(LOAD_TITLES)]
    key0 = 'C11/loads/%d,%d' % (first, second)
    inputs = {'family': 'loads', 'first': first, 'second': second}
    got = []
    for n, oi in enumerate((first, second)):
        how, ignore = LOAD_OPTS[oi]
        tags = ['loads:two', 'how:' + how,
                'position:%s' % ('first', 'second')[n]]
        try:
            model = load(sheets, ignore=ignore, hidden=LOAD_HIDDEN, how=how)
        except Exception as exc:  # noqa: BLE001
            ctx.fail('%s/load%d' % (key0, n), tags, inputs, 'loads',
                     lib.exc_obs(exc))
            return
        addrs = {a for a, c in model.cells.items()
                 if c.formula is not None or c.value not in (None, '')}
        ctx.check('%s/addresses%d' % (key0, n), repr(sorted(addrs)),
                  repr(sorted(load_expect(how, ignore))),
                  tags + ['oracle:addresses'], inputs, n == 1)
        for i, t in enumerate(LOAD_TITLES):
            if '%s!D1' % t in load_expect(how, ignore):
                ctx.check('%s/eval%d/%d' % (key0, n, i),
                          lib.eval_addr(model, '%s!D1' % t),
                          lib.norm(100 + i + 7 + i),
                          tags + ['oracle:evaluate'], inputs, n == 1)


# ---- family: shared formulas ------------------------------------------------------
ANCHORS = [
    ('relative', 'A1+1'), ('absolute', '$A$1+1'), ('mixed', '$A1+A$1'),
    ('range', 'SUM(A1:B2)'), ('cross-sheet', "'My Sheet'!A1*2"),
    ('string', '"A1"&A1'),
]
SHAPES = [(1, 3), (3, 1), (2, 2), (2, 3)]
ANCHOR_POS = [('F', 1), ('G', 2)]


def data_value(sheet_index, col, row):
    return (sheet_index + 1) * 100 + row * 10 + (ord(col) - 64)


def shared_expect(text, sheet_index):
    """Tiny evaluator for the six anchor formula shapes (after shifting)."""
    import re

    def val(ref, si=sheet_index):
        m = re.match(r'\$?([A-Z])\$?(\d+)$', ref)
        col, row = m.group(1), int(m.group(2))
        if col <= 'D' and row <= 5:
            return data_value(si, col, row)
        return None
    m = re.match(r"^(\$?[A-Z]\$?\d+)\+1$", text)
    if m:
        v = val(m.group(1))
        return None if v is None else lib.norm(v + 1)
    m = re.match(r"^(\$?[A-Z]\$?\d+)\*2$", text)
    if m:
        v = val(m.group(1))
        return None if v is None else lib.norm(v * 2)
    m = re.match(r"^(\$?[A-Z]\$?\d+)\+(\$?[A-Z]\$?\d+)$", text)
    if m:
        a, b = val(m.group(1)), val(m.group(2))
        return None if None in (a, b) else lib.norm(a + b)
    m = re.match(r"^SUM\(([A-Z])(\d+):([A-Z])(\d+)\)$", text)
    if m:
        c1, r1, c2, r2 = m.group(1), int(m.group(2)), m.group(3), \
            int(m.group(4))
        tot = 0
        for r in range(r1, r2 + 1):
            for c in range(ord(c1), ord(c2) + 1):
                if chr(c) > 'D' or r > 5:
                    return None
                tot += data_value(sheet_index, chr(c), r)
        return lib.norm(tot)
    m = re.match(r"^'My Sheet'!([A-Z]\d+)\*2$", text)
    if m:
        v = val(m.group(1), 1)
        return None if v is None else lib.norm(v * 2)
    m = re.match(r'^"A1"&([A-Z]\d+)$', text)
    if m:
        v = val(m.group(1))
        return None if v is None else 'text:A1%d' % v
    raise AssertionError(text)


def run_shared(ai, si_shape, pi, ctx):
    aname, anchor = ANCHORS[ai]
    nrows, ncols = SHAPES[si_shape]
    acol, arow = ANCHOR_POS[pi]
    titles = ['Sheet1', 'My Sheet']
    sheets = []
    for i, t in enumerate(titles):
        cells = {}
        for r in range(1, 6):
            for c in 'ABCD':
                cells['%s%d' % (c, r)] = {'form': 'n',
                                          'v': data_value(i, c, r)}
        sheets.append((t, cells))
    c0 = ord(acol)
    last = '%s%d' % (chr(c0 + ncols - 1), arow + nrows - 1)
    ref = '%s%d:%s' % (acol, arow, last)
    members = {}
    for dr in range(nrows):
        for dc in range(ncols):
            coord = '%s%d' % (chr(c0 + dc), arow + dr)
            want_text = R.shift_formula(anchor, dr, dc)
            members[coord] = (dr, dc, want_text)
            if dr == 0 and dc == 0:
                sheets[0][1][coord] = {'form': 'shared-master', 'f': anchor,
                                       'ref': ref, 'si': 0}
            else:
                sheets[0][1][coord] = {'form': 'shared-member', 'si': 0}
    key00 = 'C11/shared/%s/%dx%d/at=%s%d' % (aname, nrows, ncols, acol, arow)
    inputs = {'family': 'shared', 'ai': ai, 'shape': si_shape, 'pi': pi}
    try:
        model = load(sheets)
    except Exception as exc:  # noqa: BLE001
        ctx.fail(key00 + '/load', ['shared'], inputs, 'loads',
                 lib.exc_obs(exc))
        return
    for coord, (dr, dc, want_text) in members.items():
        tags = ['shared', 'anchor:' + aname,
                'member' if (dr or dc) else 'master']
        addr = 'Sheet1!' + coord
        cell = model.cells.get(addr)
        got_f = cell.formula.formula if cell is not None and \
            cell.formula is not None else None
        ctx.check('%s/%s/formula' % (key00, coord), 'formula:%s' % got_f,
                  'formula:=%s' % want_text, tags + ['oracle:formula-text'],
                  inputs, True)
        want = shared_expect(want_text, 0)
        if want is None:
            ctx.skip('shared-member-outside-data-grid')
            continue
        got = lib.eval_addr(model, addr)
        ctx.check('%s/%s/evaluate' % (key00, coord), got, want,
                  tags + ['oracle:evaluate'], inputs, True)


def run_shared_multi(ctx):
    """Two shared-formula groups on one sheet (si 0 and 1) that touch, a third
    on the second sheet with the same anchor text, members with cached
    values of each type."""
    titles = ['Sheet1', 'My Sheet']
    sheets = []
    for i, t in enumerate(titles):
        cells = {}
        for r in range(1, 6):
            for c in 'ABCD':
                cells['%s%d' % (c, r)] = {'form': 'n',
                                          'v': data_value(i, c, r)}
        sheets.append((t, cells))
    groups = [
        (0, 0, 'F', 1, 3, 1, 'A1+1'),       # sheet, si, col, row, rows, cols
        (0, 1, 'G', 1, 3, 2, '$A1*2'),
        (1, 0, 'F', 1, 3, 1, 'A1+1'),       # same text as group 0, other sheet
    ]
    expect = {}
    for sh, si, col, row, nr, nc, anchor in groups:
        last = '%s%d' % (chr(ord(col) + nc - 1), row + nr - 1)
        for dr in range(nr):
            for dc in range(nc):
                coord = '%s%d' % (chr(ord(col) + dc), row + dr)
                text = R.shift_formula(anchor, dr, dc)
                cached = 1000 * (si + 1) + dr * 10 + dc
                spec = {'form': 'shared-master', 'f': anchor,
                        'ref': '%s%d:%s' % (col, row, last), 'si': si} \
                    if (dr, dc) == (0, 0) else {'form': 'shared-member',
                                                'si': si}
                spec.update({'ct': 'n', 'cv': cached})
                sheets[sh][1][coord] = spec
                expect[(sh, coord)] = (text, cached)
    inputs = {'family': 'shared-multi'}
    try:
        model = load(sheets)
    except Exception as exc:  # noqa: BLE001
        ctx.fail('C11/shared-multi/load', ['shared'], inputs, 'loads',
                 lib.exc_obs(exc))
        return
    for (sh, coord), (text, cached) in sorted(expect.items()):
        addr = '%s!%s' % (titles[sh], coord)
        key0 = 'C11/shared-multi/%s' % addr
        cell = model.cells.get(addr)
        got_f = cell.formula.formula if cell is not None and \
            cell.formula is not None else None
        tags = ['shared', 'shared:several-groups']
        ctx.check(key0 + '/formula', 'formula:%s' % got_f,
                  'formula:=%s' % text, tags + ['oracle:formula-text'],
                  inputs, True)
        ctx.check(key0 + '/cached', lib.observe(model.get_cell_value, addr),
                  lib.norm(cached), tags + ['oracle:stored-value'], inputs,
                  True)
        want = shared_expect(text, sh)
        if want is not None:
            ctx.check(key0 + '/evaluate', lib.eval_addr(model, addr), want,
                      tags + ['oracle:evaluate'], inputs, True)


# ---- family: defined names ---------------------------------------------------------
def run_names(ctx):
    titles = ['Sheet1', 'My Sheet']
    sheets = []
    for i, t in enumerate(titles):
        cells = {}
        for r in range(1, 4):
            for c in 'ABC':
                cells['%s%d' % (c, r)] = {'form': 'n',
                                          'v': data_value(i, c, r)}
        sheets.append((t, cells))
    sheets[0][1]['E1'] = {'form': 'f', 'f': 'cellname+1'}
    sheets[0][1]['E2'] = {'form': 'f', 'f': 'SUM(rangename)'}
    sheets[0][1]['E3'] = {'form': 'f', 'f': 'qcell*2'}
    # (no formula of the workbook spells this range itself)
    sheets[0][1]['E4'] = {'form': 'f', 'f': 'SUM(qrange)'}
    names = {'cellname': 'Sheet1!$B$2', 'rangename': 'Sheet1!$A$1:$B$2',
             'qcell': "'My Sheet'!$C$3", 'qrange': "'My Sheet'!$A$1:$A$3"}
    # a range name on a sheet whose name holds an apostrophe (doubled in the
    # reference)
    sheets.append(("It's", {'B%d' % r: {'form': 'n', 'v': 1000 + r}
                            for r in (1, 2, 3)}))
    sheets[0][1]['E5'] = {'form': 'f', 'f': 'SUM(arange)'}
    names['arange'] = "'It''s'!$B$1:$B$3"
    # names of the workbook's names again, defined for one sheet only (where
    # no formula uses them): on Sheet1 the workbook's names are meant
    names[('cellname', 1)] = "'My Sheet'!$A$1"
    names[('rangename', 2)] = "'It''s'!$B$1:$B$2"
    inputs = {'family': 'names'}
    try:
        model = load(sheets, names)
    except Exception as exc:  # noqa: BLE001
        ctx.fail('C11/names/load', ['names'], inputs, 'loads',
                 lib.exc_obs(exc))
        return
    dn = model.defined_names

    def target(name):
        d = dn.get(name)
        if d is None:
            return 'name:absent'
        if isinstance(d, lib.xltypes.XLCell):
            return 'cell:%s' % d.address
        if isinstance(d, lib.xltypes.XLRange):
            return 'range:%r' % (d.cells,)
        return 'other:%s' % type(d).__name__

    ctx.check('C11/names/cellname', target('cellname'), 'cell:Sheet1!B2',
              ['name:cell'], inputs)
    ctx.check('C11/names/rangename', target('rangename'),
              "range:[['Sheet1!A1', 'Sheet1!B1'], ['Sheet1!A2', 'Sheet1!B2']]",
              ['name:range'], inputs)
    ctx.check('C11/names/qcell', target('qcell'), 'cell:My Sheet!C3',
              ['name:cell', 'name:quoted-sheet'], inputs)
    ctx.check('C11/names/qrange', target('qrange'),
              "range:[['My Sheet!A1'], ['My Sheet!A2'], ['My Sheet!A3']]",
              ['name:range', 'name:quoted-sheet'], inputs)
    v = data_value
    ctx.check('C11/names/eval/cellname+1', lib.eval_addr(model, 'Sheet1!E1'),
              lib.norm(v(0, 'B', 2) + 1), ['name:cell', 'oracle:evaluate'],
              inputs)
    ctx.check('C11/names/eval/SUM(rangename)',
              lib.eval_addr(model, 'Sheet1!E2'),
              lib.norm(v(0, 'A', 1) + v(0, 'B', 1) + v(0, 'A', 2) +
                       v(0, 'B', 2)), ['name:range', 'oracle:evaluate'],
              inputs)
    ctx.check('C11/names/eval/qcell*2', lib.eval_addr(model, 'Sheet1!E3'),
              lib.norm(v(1, 'C', 3) * 2),
              ['name:cell', 'name:quoted-sheet', 'oracle:evaluate'], inputs)
    ctx.check('C11/names/eval/SUM(qrange)', lib.eval_addr(model, 'Sheet1!E4'),
              lib.norm(v(1, 'A', 1) + v(1, 'A', 2) + v(1, 'A', 3)),
              ['name:range', 'name:quoted-sheet', 'oracle:evaluate'], inputs)
    ctx.check('C11/names/arange', target('arange'),
              "range:[[\"It's!B1\"], [\"It's!B2\"], [\"It's!B3\"]]",
              ['name:range', 'name:quoted-sheet', 'sheetname:apostrophe'],
              inputs)
    ctx.check('C11/names/eval/SUM(arange)', lib.eval_addr(model, 'Sheet1!E5'),
              lib.norm(3006), ['name:range', 'name:quoted-sheet',
                               'sheetname:apostrophe', 'oracle:evaluate'],
              inputs)
    ctx.check('C11/names/get/cellname',
              lib.observe(model.get_cell_value, 'cellname'),
              lib.norm(v(0, 'B', 2)), ['name:cell', 'oracle:get'], inputs)


# ---- family: names x sparse ranges x ignored sheets --------------------------------
def run_names_sparse(mask, holes, ctx):
    """Three sheets, each with a 3-cell column of which the cells in ``holes``
    are not stored, and a name for the whole column; Sheet A sums every name.
    ``mask``: ignored subset of the two other sheets."""
    # (the second title is a proper prefix of the third: ignoring 'In' must
    # not touch names that point into 'Inp')
    titles = ['A', 'In', 'Inp']
    sheets = []
    for i, t in enumerate(titles):
        cells = {}
        for r in (1, 2, 3):
            if (i, r) not in holes:
                cells['A%d' % r] = {'form': 'n', 'v': 10 * (i + 1) + r}
        sheets.append((t, cells))
    names = {'col%d' % i: '%s!$A$1:$A$3' % t for i, t in enumerate(titles)}
    names['one1'] = 'Inp!$A$1'
    for i in range(3):
        sheets[0][1]['C%d' % (i + 1)] = {'form': 'f', 'f': 'SUM(col%d)' % i}
    sheets[0][1]['C4'] = {'form': 'f', 'f': 'one1*2'}
    ignored = [t for k, t in enumerate(titles[1:]) if mask >> k & 1]
    key0 = 'C11/names-sparse/ignore=%d/holes=%s' % (
        mask, ''.join('%d%d' % h for h in sorted(holes)) or '-')
    inputs = {'family': 'names-sparse', 'mask': mask,
              'holes': [list(h) for h in sorted(holes)]}
    tags = ['names', 'name:range'] + (['ignored:some'] if ignored else []) + (
        ['range:with-empty-cells'] if holes else [])
    try:
        model = load(sheets, names, ignore=ignored)
    except Exception as exc:  # noqa: BLE001
        ctx.fail(key0 + '/load', tags, inputs, 'loads', lib.exc_obs(exc))
        return
    ctx.ok(key0 + '/load', 'loads')
    for i, t in enumerate(titles):
        if t in ignored:
            continue
        d = model.defined_names.get('col%d' % i)
        got = 'range:%r' % (d.cells,) if isinstance(
            d, lib.xltypes.XLRange) else 'other:%s' % type(d).__name__
        ctx.check('%s/target/%d' % (key0, i), got,
                  'range:%r' % ([['%s!A%d' % (t, r)] for r in (1, 2, 3)],),
                  tags, inputs)
        want = sum(10 * (i + 1) + r for r in (1, 2, 3)
                   if (i, r) not in holes)
        ctx.check('%s/eval/%d' % (key0, i),
                  lib.eval_addr(model, 'A!C%d' % (i + 1)), lib.norm(want),
                  tags + ['oracle:evaluate'], inputs)
    if 'Inp' not in ignored and (2, 1) not in holes:
        d = model.defined_names.get('one1')
        ctx.check(key0 + '/target/one1',
                  'cell:%s' % d.address if isinstance(d, lib.xltypes.XLCell)
                  else 'other:%s' % type(d).__name__, 'cell:Inp!A1',
                  tags + ['name:cell'], inputs)
        ctx.check(key0 + '/eval/one1', lib.eval_addr(model, 'A!C4'),
                  lib.norm(62), tags + ['name:cell', 'oracle:evaluate'],
                  inputs)
    stored = {a for a, c in model.cells.items()
              if c.formula is not None or c.value not in (None, '')}
    bad = sorted(a for a in stored if a.split('!')[0] in ignored)
    ctx.check(key0 + '/ignored-contribute-no-cells', 'cells:%s' % bad,
              'cells:[]', tags + ['oracle:addresses'], inputs)


SPARSE_HOLES = [frozenset(), frozenset({(0, 2)}), frozenset({(1, 1)}),
                frozenset({(0, 1), (0, 3)}), frozenset({(2, 2), (1, 3)}),
                frozenset({(0, 1), (0, 2), (0, 3)})]


# ---- plan ---------------------------------------------------------------------------
def orders(tier):
    base = NAMES4
    outs = []
    perms = list(itertools.permutations(base))
    chosen = perms if tier == 'thorough' else [perms[0], perms[9], perms[23]]
    seen = set()
    for p in chosen:
        for k in range(1, 5):
            o = tuple(p[:k])
            if o not in seen:
                seen.add(o)
                outs.append(o)
    return outs


def plan(tier):
    shards = []
    for fi in range(len(FORMS)):
        shards.append({'family': 'form', 'fi': fi})
    for rot in range(len(FORMS)):
        shards.append({'family': 'latin', 'rot': rot})
    for o in orders(tier):
        shards.append({'family': 'sheets', 'order': list(o)})
    for ai in range(len(ANCHORS)):
        shards.append({'family': 'shared', 'ai': ai})
    shards.append({'family': 'names'})
    shards.append({'family': 'shared-multi'})
    for fi in range(len(FORMS)):
        shards.append({'family': 'form', 'fi': fi, 'date1904': True})
    shards.append({'family': 'loads'})
    shards.append({'family': 'names-sparse'})
    for fi in range(len(LONE_FORMS)):
        shards.append({'family': 'lone', 'fi': fi})
    for fi in range(len(FORMS)):
        shards.append({'family': 'norefs', 'fi': fi})
    return shards


def run_shard(shard, ctx):
    f = shard['family']
    if f == 'form':
        for pos in range(len(GRID)):
            for si in (0, 1):
                run_form_isolated(shard['fi'], pos, si, ctx,
                                  shard.get('date1904', False))
        ctx.sample({'family': f, 'form': FORMS[shard['fi']][0],
                    'spec': FORMS[shard['fi']][1],
                    'date1904': shard.get('date1904', False)})
    elif f == 'norefs':
        for pos in range(len(GRID)):
            run_form_norefs(shard['fi'], pos, ctx)
            run_form_norefs(shard['fi'], pos, ctx, 'constants')
        ctx.sample({'family': f, 'form': FORMS[shard['fi']][0],
                    'xml': '<row><c><v>100</v></c><c><f>E1+E2*E3</f>'
                           '<v>99.5</v></c>...'})
    elif f == 'lone':
        for pos in range(len(GRID)):
            for fpos in range(len(GRID)):
                run_lone(shard['fi'], pos, fpos, ctx)
        ctx.sample({'family': f, 'form': LONE_FORMS[shard['fi']][0],
                    'sheets': {'Sheet1': {'A1': '=Rates!A1*2'},
                               'Rates': {'A1': 7}}})
    elif f == 'names-sparse':
        for mask in range(4):
            for holes in SPARSE_HOLES:
                run_names_sparse(mask, holes, ctx)
        ctx.sample({'family': f, 'names': {'col2': 'Inp!$A$1:$A$3'},
                    'note': 'A2 is not stored in the file'})
    elif f == 'loads':
        for a in range(len(LOAD_OPTS)):
            for b in range(len(LOAD_OPTS)):
                run_loads(a, b, ctx)
        ctx.sample({'family': f, 'sheets': LOAD_TITLES,
                    'hidden': dict(LOAD_HIDDEN),
                    'history': 'load(ignore_hidden=True); load()'})
    elif f == 'latin':
        for si in (0, 1):
            run_form_latin(shard['rot'], si, ctx)
    elif f == 'sheets':
        o = shard['order']
        for mask in range(2 ** len(o)):
            run_sheets(o, mask, ctx)
        ctx.sample({'family': f, 'order': o})
    elif f == 'shared':
        for s in range(len(SHAPES)):
            for p in range(len(ANCHOR_POS)):
                run_shared(shard['ai'], s, p, ctx)
        ctx.sample({'family': f, 'anchor': ANCHORS[shard['ai']][1]})
    elif f == 'shared-multi':
        run_shared_multi(ctx)
    else:
        run_names(ctx)


def replay(inputs, ctx):
    f = inputs['family']
    if f == 'form':
        run_form_isolated(inputs['fi'], inputs['pos'], inputs['sheet'], ctx,
                          inputs.get('date1904', False))
    elif f == 'loads':
        run_loads(inputs['first'], inputs['second'], ctx)
    elif f == 'lone':
        run_lone(inputs['fi'], inputs['pos'], inputs['fpos'], ctx)
    elif f == 'norefs':
        run_form_norefs(inputs['fi'], inputs['pos'], ctx,
                        inputs.get('mode', 'all'))
    elif f == 'names-sparse':
        run_names_sparse(inputs['mask'],
                         frozenset(tuple(h) for h in inputs['holes']), ctx)
    elif f == 'latin':
        run_form_latin(inputs['rot'], inputs['sheet'], ctx)
    elif f == 'sheets':
        run_sheets(inputs['order'], inputs['mask'], ctx)
    elif f == 'shared':
        run_shared(inputs['ai'], inputs['shape'], inputs['pi'], ctx)
    elif f == 'shared-multi':
        run_shared_multi(ctx)
    else:
        run_names(ctx)


def selftest():
    R.selftest()
    assert shared_expect('A2+1', 0) == lib.norm(100 + 20 + 1 + 1)
    assert shared_expect('SUM(B2:C3)', 0) == lib.norm(
        sum(data_value(0, c, r) for c in 'BC' for r in (2, 3)))
