"""Helper of C10: evaluate formulas one after the other in THIS (fresh)
process - each on a model of its own, with a spy function - and print
[observation, spy log] per formula as JSON.  What the library remembers
process-wide about IF / AND / OR starts empty here.

usage: python -m xlmc.checks.c10_proc '<json list of [formula, {cell: content}]>'
"""
import json
import sys


def main():
    from .. import lib
    out = []
    for formula, cells in json.loads(sys.argv[1]):
        d = {'Sheet1!' + k: v for k, v in cells.items()}
        d['Sheet1!Z1'] = formula
        log = []

        def SPY(k, v, log=log):
            log.append(int(k))
            return v
        try:
            model = lib.compile_dict(d)
            ev = lib.Evaluator(model)
            ev.namespace['SPY'] = SPY
            obs = lib.eval_addr(model, 'Sheet1!Z1', ev)
        except Exception as exc:  # noqa: BLE001
            obs = 'compile-raise:%s' % type(exc).__name__
        out.append([obs, sorted(set(log))])
    print(json.dumps(out))


if __name__ == '__main__':
    main()
