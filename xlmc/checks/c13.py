"""C13 - an extracted sub-model computes the same values as the full model.

Engine H over configurations and histories: every DAG on n cells in a fixed
topological order (n = 4: 64 graphs, thorough n = 5: 1024), in four variants
(direct references; contiguous fan-ins written as SUM over a range; cells
split over two sheets; the second cell reached through a defined name, model
loaded from .xlsx; range members whose value is the empty text until an input
changes; the same formulas with unqualified references on two sheets of a
loaded workbook, the second sheet judged), every non-empty focus subset (cells, and the name), taken
before anything was evaluated and after every cell was evaluated, followed by
input-change histories applied to both models: every single change from the
initial state and one long path that realises every ordered pair of changes
consecutively.

Oracle scope
  * every focused cell / name evaluates in the extracted model to the same
    observation as in the original, initially and after every change;
  * extracted.cells contains the focus and its transitive closure in the
    generator's graph;
  * extract leaves the original unchanged (fingerprint before = after).
"""
import itertools
import os
import tempfile

from .. import lib, explore
from ..gen import rawxlsx as R

PROPERTY = 'C13'
LEVEL = 'model_checking'
ENGINE = 'xlmc-H'
RULE = ('all DAGs on n cells (fixed topological order) x 4 variants x every '
        'non-empty focus subset x {fresh, fully evaluated} x input-change '
        'histories (every single change; a path covering every ordered pair '
        'of changes); non-trivial = the focus has a dependency that is not '
        'itself in the focus (extraction has to follow a reference)')
N = {'quick': 4, 'thorough': 5}
BOUNDS = {t: {'cells': N[t], 'graphs': 2 ** (N[t] * (N[t] - 1) // 2),
              'variants': 12, 'change_values': [0, 7]} for t in N}
ASSUMPTIONS = ['reference closure: reachability in the generated graph']
TECHNIQUE = ('exhaustive enumeration of dependency DAGs x focus sets x model '
             'states, extract() executed on the real model, differential '
             'evaluation of original vs extracted model along input-change '
             'histories')
LEVEL_TEXT = ('For every DAG on 4 (thorough 5) cells in sixteen reference '
              'styles (direct, ranges, two sheets, defined names, named '
              'ranges over inputs / formulas / a cell set after loading / a '
              'quoted sheet, gaps, absent references ...) and every focus '
              'subset, before and after evaluation, the real extract() is '
              'run and the extracted model is evaluated side by side with '
              'the original along input-change histories, and extracted once '
              'more after its history; closure and non-interference are '
              'checked.')
LEVEL_NOTE = ('Every step runs the implementation; the only model is the '
              'generated graph used for the closure requirement.  Bounded: '
              'n <= 4 (5) cells, two alternative values per input.')

VARIANTS = ('direct', 'range', 'two-sheets', 'name', 'range-blank', 'mirror',
            'twin-coord', 'name-case', 'gap', 'range-za', 'range-name',
            'absent-ref', 'range-name-mid', 'range-name-hole',
            'range-name-quoted')
# absent-ref: every formula also reads a cell that is not stored, on a sheet
#   of which the original holds another cell (outside every focus) and the
#   extract therefore nothing: blank in both.
# range-za: the cells lie in one row across the Z / AA column boundary and
#   contiguous dependencies are written as a range (Y1:AB1);
# range-name: the last two cells have a range name (q1_rng) that formulas
#   depending on both use, while a formula OUTSIDE every focus names the same
#   rectangle literally.
ZA_COLS = ('Y', 'Z', 'AA', 'AB', 'AC')
RNAME = 'q1_rng'
# range-name-mid: the same with the second and third cell named, which may be
#   formulas over later cells: precedents reached only through the members of
#   a named range.


# range-name-hole: the name covers one more cell, below the last one, that the
#   file does not store and that gets its first value (in the original) before
#   the extraction;
# range-name-quoted: the same as range-name on a sheet whose name needs quotes
#   (the name's own spelling of the area has them, the literal mention on the
#   sheet itself has not).
RANGE_NAME_VARIANTS = ('range-name', 'range-name-mid', 'range-name-hole',
                       'range-name-quoted')
QSHEET = 'Q1 Data'
HOLE_VALUE = 1000


def named_pair(variant, n):
    return (1, 2) if variant == 'range-name-mid' else (n - 2, n - 1)


# twin-coord: cells 2k and 2k+1 have the same coordinate on two sheets (one
#   formula then names Sheet1!B1 and Sheet2!B1);
# name-case: the formulas spell the defined name in upper case (whatever the
#   full model makes of that, the extract makes the same);
# gap: one multi-row range with a run of more than 100 empty cells before its
#   last members is part of every formula.
GAP_RANGE = 'G1:G125'
GAP_CELLS = {'Sheet1!G1': 1, 'Sheet1!G2': 2, 'Sheet1!G124': 40,
             'Sheet1!G125': 25}
MULT = (2, 3, 5, 7, 11)
CHANGE_VALUES = (0, 7)
# the defined name (a lower-case letter directly followed by a digit, like
# fy21_rate) is bound to the second cell
NAME = 'q1_inp'
NAME_IDX = 1
_TMP = None


def tmpdir():
    global _TMP
    if _TMP is None:
        _TMP = tempfile.TemporaryDirectory(prefix='xlmc_c13_')
    return _TMP.name


def edges_of(code, n):
    """deps[i] = sorted list of j > i that cell i references."""
    deps = [[] for _ in range(n)]
    k = 0
    for i in range(n):
        for j in range(i + 1, n):
            if code >> k & 1:
                deps[i].append(j)
            k += 1
    return deps


def sheet_of(i, variant):
    if variant == 'mirror':
        return 'Sheet2'          # the judged copy; Sheet1 holds its twin
    if variant == 'range-name-quoted':
        return QSHEET
    return 'Sheet2' if variant in ('two-sheets', 'twin-coord') and i % 2 \
        else 'Sheet1'


def row_of(i, variant):
    return i // 2 + 1 if variant == 'twin-coord' else i + 1


def addr(i, variant):
    if variant == 'range-za':
        return 'Sheet1!%s1' % ZA_COLS[i]
    return '%s!B%d' % (sheet_of(i, variant), row_of(i, variant))


def ref_text(i, j, variant, n):
    """How cell i writes its reference to cell j."""
    if variant == 'name' and j == NAME_IDX:
        return NAME
    if variant == 'name-case' and j == NAME_IDX:
        return NAME.upper()
    if variant in ('two-sheets', 'twin-coord'):
        return '%s!B%d' % (sheet_of(j, variant), row_of(j, variant))
    if variant == 'range-za':
        return '%s1' % ZA_COLS[j]
    return 'B%d' % (j + 1)


def formula_of(i, deps_i, variant, n):
    if not deps_i:
        return None
    if variant in ('range', 'range-blank') and len(deps_i) >= 2 and \
            deps_i == list(range(deps_i[0], deps_i[-1] + 1)):
        return '=SUM(B%d:B%d)' % (deps_i[0] + 1, deps_i[-1] + 1)
    if variant == 'range-za' and len(deps_i) >= 2 and \
            deps_i == list(range(deps_i[0], deps_i[-1] + 1)):
        return '=SUM(%s1:%s1)' % (ZA_COLS[deps_i[0]], ZA_COLS[deps_i[-1]])
    if variant in RANGE_NAME_VARIANTS and \
            set(named_pair(variant, n)) <= set(deps_i):
        rest = ''.join('+B%d*%d' % (j + 1, MULT[j]) for j in deps_i
                       if j not in named_pair(variant, n))
        return '=SUM(%s)%s' % (RNAME, rest)
    if variant == 'range-blank':
        # a formula whose value is the empty text while the last cell (an
        # input) is > 3 - i.e. initially - and a number after a change
        body = '+'.join('B%d*%d' % (j + 1, MULT[j]) for j in deps_i)
        return '=IF(B%d>3,"",%s)' % (n, body)
    body = '+'.join('%s*%d' % (ref_text(i, j, variant, n), MULT[j])
                    for j in deps_i)
    if variant == 'gap':
        body += '+SUM(%s)' % GAP_RANGE
    if variant == 'absent-ref':
        body += '+Other!Z9+IF(Other!Y8="",0,1000)'
    return '=' + body


def variant_deps(code, n, variant):
    """Dependency lists as the formulas of this variant really have them."""
    deps = edges_of(code, n)
    if variant == 'range-blank':
        for i in range(n):
            f = formula_of(i, deps[i], variant, n)
            if f and f.startswith('=IF') and (n - 1) not in deps[i]:
                deps[i] = sorted(deps[i] + [n - 1])
    return deps


def build(code, n, variant):
    deps = edges_of(code, n)
    if variant == 'mirror':
        s1, s2 = {}, {}
        for i in range(n):
            f = formula_of(i, deps[i], 'direct', n)
            s1['B%d' % (i + 1)] = {'form': 'f', 'f': f[1:]} if f else \
                {'form': 'n', 'v': i + 1}
            s2['B%d' % (i + 1)] = {'form': 'f', 'f': f[1:]} if f else \
                {'form': 'n', 'v': i + 101}
        path = os.path.join(tmpdir(), 'm_%d_%d_%d.xlsx' % (os.getpid(), n,
                                                          code))
        with open(path, 'wb') as fp:
            fp.write(R.build([('Sheet1', s1), ('Sheet2', s2)]))
        import warnings
        with warnings.catch_warnings():
            warnings.simplefilter('ignore')
            model = lib.ModelCompiler().read_and_parse_archive(path)
        os.unlink(path)
        return model, deps
    if variant in RANGE_NAME_VARIANTS:
        lo, hi = named_pair(variant, n)
        title = sheet_of(0, variant)
        last = hi + 2 if variant == 'range-name-hole' else hi + 1
        target = '%s!$B$%d:$B$%d' % (
            "'%s'" % title if ' ' in title else title, lo + 1, last)
        cells = {}
        for i in range(n):
            f = formula_of(i, deps[i], variant, n)
            cells['B%d' % (i + 1)] = {'form': 'f', 'f': f[1:]} if f else \
                {'form': 'n', 'v': i + 1}
        # outside every focus: the same rectangle, written literally
        cells['K9'] = {'form': 'f', 'f': 'MAX(B%d:B%d)' % (lo + 1, hi + 1)}
        path = os.path.join(tmpdir(), 'r_%d_%d_%d.xlsx' % (os.getpid(), n,
                                                          code))
        with open(path, 'wb') as fp:
            fp.write(R.build([(title, cells)], {RNAME: target}))
        import warnings
        with warnings.catch_warnings():
            warnings.simplefilter('ignore')
            model = lib.ModelCompiler().read_and_parse_archive(path)
        os.unlink(path)
        if variant == 'range-name-hole':
            # the cell the file does not store gets its first value
            model.set_cell_value('%s!B%d' % (title, last), HOLE_VALUE)
        return model, deps
    if variant in ('name', 'name-case'):
        cells = {}
        for i in range(n):
            f = formula_of(i, deps[i], variant, n)
            cells['B%d' % (i + 1)] = {'form': 'f', 'f': f[1:]} if f else \
                {'form': 'n', 'v': i + 1}
        path = os.path.join(tmpdir(), 'g_%d_%d_%d.xlsx' % (os.getpid(), n,
                                                          code))
        with open(path, 'wb') as fp:
            fp.write(R.build([('Sheet1', cells)],
                             {NAME: 'Sheet1!$B$%d' % (NAME_IDX + 1)}))
        import warnings
        with warnings.catch_warnings():
            warnings.simplefilter('ignore')
            model = lib.ModelCompiler().read_and_parse_archive(path)
        os.unlink(path)
        return model, deps
    d = {}
    for i in range(n):
        f = formula_of(i, deps[i], variant, n)
        d[addr(i, variant)] = f if f else i + 1
    if variant == 'gap':
        d.update(GAP_CELLS)
    if variant == 'absent-ref':
        d['Other!A1'] = 5
    return lib.compile_dict(d), deps


def closure(deps, focus_idx):
    seen, stack = set(focus_idx), list(focus_idx)
    while stack:
        u = stack.pop()
        for v in deps[u]:
            if v not in seen:
                seen.add(v)
                stack.append(v)
    return seen


def change_path(ops):
    """A sequence over ``ops`` in which every ordered pair (a, b), a != b or
    a == b, occurs consecutively (greedy Eulerian walk on the complete
    digraph with loops)."""
    k = len(ops)
    if k == 0:
        return []
    unused = {(a, b) for a in range(k) for b in range(k)}
    seq = [0]
    while unused:
        a = seq[-1]
        nxt = None
        for b in range(k):
            if (a, b) in unused:
                nxt = b
                break
        if nxt is None:
            # jump: take any unused pair (costs one extra, uncounted step)
            a2, b2 = sorted(unused)[0]
            seq.append(a2)
            unused.discard((seq[-2], a2))
            nxt = b2
            unused.discard((a2, b2))
            seq.append(nxt)
            continue
        unused.discard((a, nxt))
        seq.append(nxt)
    return seq


def focus_items(mask, n, variant):
    items = [addr(i, variant) for i in range(n) if mask >> i & 1]
    idx = [i for i in range(n) if mask >> i & 1]
    if variant == 'name' and mask >> n & 1:
        items.append(NAME)
        idx.append(NAME_IDX)
    return items, sorted(set(idx))


def run_config(code, n, variant, mask, evaluated, ctx):
    deps_probe = variant_deps(code, n, variant)
    items, idx = focus_items(mask, n, variant)
    if not items:
        return
    inputs_idx = [i for i in range(n) if not deps_probe[i]]
    ops = [(i, v) for i in inputs_idx for v in CHANGE_VALUES]
    key0 = 'C13/%s/n=%d/g=%d/focus=%d/%s' % (
        variant, n, code, mask, 'evaluated' if evaluated else 'fresh')
    inputs = {'code': code, 'n': n, 'variant': variant, 'mask': mask,
              'evaluated': evaluated}
    clo = closure(deps_probe, idx)
    nontriv = len(clo) > len(set(idx))
    tags = ['variant:' + variant,
            'state:' + ('evaluated' if evaluated else 'fresh')]
    direct = {v for u in idx for v in deps_probe[u]}
    if clo == set(idx):
        tags.append('deps:none-outside-focus')
    elif clo <= set(idx) | direct:
        tags.append('deps:direct')
    else:
        tags.append('deps:transitive')
    raw = edges_of(code, n)
    if any(variant in ('range', 'range-blank') and
           formula_of(i, raw[i], variant, n).startswith('=SUM')
           for i in clo if raw[i]):
        tags.append('dep:range')
    if variant == 'name' and NAME_IDX in clo and any(
            NAME_IDX in deps_probe[i] for i in clo):
        tags.append('dep:name')

    def session(history, label):
        """fresh original + extraction, then the history on both."""
        model, deps = build(code, n, variant)
        ev = lib.Evaluator(model)
        if evaluated:
            for i in range(n):
                lib.observe(ev.evaluate, addr(i, variant))
        fp0 = explore.fingerprint(model)
        try:
            with lib.time_limit():
                ext = lib.ModelCompiler.extract(model, focus=list(items))
            got = 'extracted'
        except lib.CaseTimeout:
            got = 'timeout'
        except Exception as exc:  # noqa: BLE001
            got = lib.exc_obs(exc)
        ctx.count('transitions')
        if got != 'extracted':
            ctx.fail('%s/%s/extract' % (key0, label), tags + ['oracle:extract'],
                     inputs, 'extracted', got, nontriv)
            return
        if label == 'init':
            ctx.check(key0 + '/original-unchanged',
                      explore.fingerprint(model), fp0,
                      tags + ['oracle:original-unchanged'], inputs, False)
            missing = sorted(addr(i, variant) for i in clo
                             if addr(i, variant) not in ext.cells)
            if variant != 'name-case':
                # (name-case: whether the upper-case spelling denotes the
                # named cell is the full model's business; only the values
                # are compared)
                ctx.check(key0 + '/closure', 'missing:%s' % (missing[:3],),
                          'missing:[]', tags + ['oracle:closure'], inputs,
                          nontriv)
        eve = lib.Evaluator(ext)

        def compare(step):
            for f in items:
                a = lib.observe(ev.evaluate, f)
                b = lib.observe(eve.evaluate, f)
                ctx.check('%s/%s/%s/%s' % (key0, label, step, f), b, a,
                          tags + ['oracle:same-value'], inputs, nontriv)
        compare('0')
        for s, oi in enumerate(history, 1):
            i, v = ops[oi]
            # in the name variant the named input is changed THROUGH its name
            # (when the extracted model knows the name at all: a focus that
            # reaches the cell only by its address does not carry the name)
            # - at every other step; otherwise by its address
            target = NAME if (variant == 'name' and i == NAME_IDX and
                              NAME in ext.defined_names and s % 2) \
                else addr(i, variant)
            lib.observe(ev.set_cell_value, target, v)
            lib.observe(eve.set_cell_value, target, v)
            ctx.count('transitions')
            compare('%d:set(%d,%d)' % (s, i, v))
        if label in ('path', 'single0'):
            # the original, with its history, is extracted from once more:
            # the new extract is the extract of the model as it is NOW
            # (after one more change that only the original sees)
            if ops:
                lib.observe(ev.set_cell_value, addr(ops[0][0], variant), 13)
            try:
                with lib.time_limit():
                    again = lib.ModelCompiler.extract(model,
                                                      focus=list(items))
                eva = lib.Evaluator(again)
                for f in items:
                    ctx.check('%s/%s/re-extracted/%s' % (key0, label, f),
                              lib.observe(eva.evaluate, f),
                              lib.observe(ev.evaluate, f),
                              tags + ['oracle:same-value',
                                      'history:second-extraction'], inputs,
                              nontriv)
            except lib.CaseTimeout:
                ctx.fail('%s/%s/re-extracted' % (key0, label),
                         tags + ['oracle:extract'], inputs, 'extracted',
                         'timeout', nontriv)
            except Exception as exc:  # noqa: BLE001
                ctx.fail('%s/%s/re-extracted' % (key0, label),
                         tags + ['oracle:extract'], inputs, 'extracted',
                         lib.exc_obs(exc), nontriv)
            ctx.count('transitions')
            second_generation(ext, eve, history, items)
            if len(items) > 1:
                # a narrower focus reaches the other cells through formulas
                # (and names) instead of by their addresses
                second_generation(ext, eve, history, items[:1])
        lib.clear_caches()

    def second_generation(ext, eve, history, items):
        """"For any model": the extracted model, after its history, is the
        original of a further extraction with the same focus."""
        try:
            with lib.time_limit():
                sub = lib.ModelCompiler.extract(ext, focus=list(items))
            got = 'extracted'
        except lib.CaseTimeout:
            got = 'timeout'
        except Exception as exc:  # noqa: BLE001
            got = lib.exc_obs(exc)
        ctx.count('transitions')
        k2 = '%s/second-generation/%d/%d' % (key0, len(history), len(items))
        t2 = tags + ['history:extract-of-extract']
        if got != 'extracted':
            ctx.fail(k2 + '/extract', t2 + ['oracle:extract'], inputs,
                     'extracted', got, nontriv)
            return
        evs = lib.Evaluator(sub)

        def compare2(step):
            for f in items:
                a = lib.observe(eve.evaluate, f)
                b = lib.observe(evs.evaluate, f)
                ctx.check('%s/%s/%s' % (k2, step, f), b, a,
                          t2 + ['oracle:same-value'], inputs, nontriv)
        compare2('0')
        for i, v in ops[:2]:
            lib.observe(eve.set_cell_value, addr(i, variant), v)
            lib.observe(evs.set_cell_value, addr(i, variant), v)
            ctx.count('transitions')
            compare2('set(%d,%d)' % (i, v))

    session([], 'init')
    for oi in range(len(ops)):
        session([oi], 'single%d' % oi)
    path = change_path(ops)
    if len(path) > 1:
        session(path, 'path')
    ctx.count('states')


def plan(tier):
    shards = []
    for variant in VARIANTS:
        n = N[tier]
        if variant == 'gap':
            # every evaluation walks a 125-cell range: one cell less
            n -= 1
        total = 2 ** (n * (n - 1) // 2)
        step = 4 if n <= 4 else 8
        for lo in range(0, total, step):
            shards.append({'variant': variant, 'n': n, 'lo': lo,
                           'hi': min(total, lo + step)})
    return shards


def run_shard(shard, ctx):
    n, variant = shard['n'], shard['variant']
    nmask = n + 1 if variant == 'name' else n
    for code in range(shard['lo'], shard['hi']):
        if variant in RANGE_NAME_VARIANTS and ctx.tier == 'quick' and \
                code and not any(
                    set(named_pair(variant, n)) <= set(d)
                    for d in edges_of(code, n)):
            # no formula of this graph uses the name: the graph is the
            # 'direct' variant's (quick tier; the thorough tier runs it)
            ctx.skip('named-range-variant-without-use-of-the-name')
            continue
        for mask in range(1, 2 ** nmask):
            for evaluated in (False, True):
                run_config(code, n, variant, mask, evaluated, ctx)
    if shard['lo'] == 0:
        code = shard['hi'] - 1
        deps = edges_of(code, n)
        fv = 'direct' if variant == 'mirror' else variant
        ctx.sample({'variant': variant, 'cells': {
            addr(i, variant): formula_of(i, deps[i], fv, n) or i + 1
            for i in range(n)}})


def replay(inputs, ctx):
    run_config(inputs['code'], inputs['n'], inputs['variant'], inputs['mask'],
               inputs['evaluated'], ctx)


def selftest():
    assert edges_of(0b111111, 4) == [[1, 2, 3], [2, 3], [3], []]
    assert closure([[1], [2], [], []], [0]) == {0, 1, 2}
    p = change_path([0, 1, 2])
    pairs = {(p[i], p[i + 1]) for i in range(len(p) - 1)}
    assert pairs == {(a, b) for a in range(3) for b in range(3)}
