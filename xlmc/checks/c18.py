"""C18 - date serials and date functions follow the 1900 date system.

Oracle scope
  enforced : serial <-> calendar date on whole days (DateTime.cast /
             Number.cast, i.e. utils.number_to_datetime / datetime_to_number):
             exact for serials 61..2958465, the anchors 1, 59, 61 and strict
             monotonicity + round trip on 1..59; the fraction of a serial is
             the time of day (both directions); YEAR, MONTH, DAY, WEEKDAY
             (no type and the 10 return types), ISOWEEKNUM for 61..2958465;
             DATE(YEAR,MONTH,DAY) = n; DATE month/day carries; EDATE/EOMONTH
             with clipping; DAYS and date subtraction; DATEDIF D/M/Y;
             YEARFRAC bases 0-4 (2, 3 exact; 0, 4 where the 30/360
             conventions coincide; 1 to 1e-3).
  refused  : serial 60 (phantom 1900-02-29) and everything that depends on how
             it is counted: WEEKDAY/ISOWEEKNUM of serials <= 60, day counts
             and day carries across it, clipping to / end of February 1900;
             serials outside 1..2958465 and results outside that range;
             DATE years below 1900 (short-year rule is not in the statement)
             and above 9999; DATEDIF/YEARFRAC with start after end; 30/360 with a day of
             month 29-31 or the last day of February; DATEDIF units MD/YM/YD;
             text dates; NOW/TODAY.  Counted under skipped_out_of_scope.
"""
import datetime

from .. import lib
from ..ref import dates1900 as ref

PROPERTY = 'C18'
LEVEL = 'exploration'
WORKER_MEM_GB = 4

MAXS = ref.MAX_SERIAL
SER = ref.serial_of
D = datetime.date

WD_TYPES = ref.WEEKDAY_TYPES
FRACS = ((0, '0'), (3600, '1/24'), (21600, '1/4'), (43200, '1/2'),
         (64800, '3/4'), (86399, '86399/86400'))
FRAC_SERIALS = (1, 2, 31, 58, 59, 61, 62, 366, 367, 25569, 36526, 36585,
                43831, 45351, 73051, MAXS)

QUICK_WINDOWS = ((61, 1500),
                 (SER(D(1999, 12, 1)), SER(D(2001, 3, 31))),
                 (SER(D(2023, 12, 1)), SER(D(2025, 3, 31))),
                 (MAXS - 399, MAXS))

DATE_YEARS_JUDGED = (1900, 1901, 1999, 2000, 2020, 9999)
DATE_YEARS_SKIPPED = (0, 1, 10, 1899, 10000)
DATE_M = (-24, 36)
DATE_D = (-40, 70)

RULE = (
    'serial sweep: for every whole serial of the tier (thorough: all of '
    '1..2958465) the cases n->datetime, datetime->n, n->datetime->n, YEAR, '
    'MONTH, DAY, ISOWEEKNUM, WEEKDAY without type and with each of the 10 '
    'return types, DATE(y,m,d) of its calendar fields are executed by direct '
    'calls (a subset again through compiled formulas with cell and literal '
    'arguments); serials 1..61 additionally as a monotone chain; time '
    'fractions 16 serials x 6 fractions both directions; DATE over a year x '
    'month x day grid; EDATE/EOMONTH over start days x month offsets; DAYS, '
    'date subtraction, DATEDIF D/M/Y, YEARFRAC bases 0-4 over all ordered '
    'pairs of a date set.  Non-trivial: sweep cases on a serial >= 61 or on '
    'an anchor; DATE cases with a month or day carry; EDATE with offset != 0 '
    'and every EOMONTH; pair cases with two different dates; fraction cases '
    'with a non-zero fraction')

BOUNDS = {
    'quick': {
        'sweep_serials': 'every serial of 61..1500, 1999-12-01..2001-03-31, '
                         '2023-12-01..2025-03-31, the last 400 serials, the '
                         'first and last day of every month 1900..9999; 1..61 '
                         'as a chain; 0 and 2958466 counted as out of scope',
        'formula_sweep': '61..1500, every day of 2024, last 400 serials',
        'fractions': '16 serials x {0,1/24,1/4,1/2,3/4,86399/86400}',
        'DATE': 'y in {1900,1901,1999,2000,2020,9999} (0,1,10,1899,10000 '
                'generated, not judged) x m in -24..36 x d in -40..70; '
                'y=2020 also through formulas',
        'EDATE_EOMONTH': 'every day of 2019..2021 and serials 1..130 x '
                         'offsets -25..25; every day of 2020 also with '
                         'datetime arguments',
        'pairs': 'all ordered pairs of the 240-date set; DATEDIF D only for '
                 'spans <= 1500 days (the library enumerates every day of '
                 'the span), M/Y all',
    },
    'thorough': {
        'sweep_serials': 'every whole serial 1..2958465',
        'formula_sweep': 'quick set plus every 101st serial',
        'fractions': 'as quick',
        'DATE': 'y in {1900,1901,1904,1999,2000,2019,2020,2021,2100,2400,'
                '9998,9999} x m in -60..72 x d in -400..800',
        'EDATE_EOMONTH': 'every day of 2015..2025 and serials 1..500 x '
                         'offsets -60..60',
        'pairs': 'all ordered pairs of the 240-date set; DATEDIF D for spans '
                 '<= 50000 days (1900 <-> 2036), M/Y all; formula route with '
                 'the quick cap',
    },
}
ASSUMPTIONS = [
    "Excel's 1900 date system as in DESIGN.md A.4: serial s>=61 <-> "
    "1899-12-30+s, 1..59 <-> 1899-12-31+s, 60 has no date",
    'reference model xlmc/ref/dates1900.py on datetime.date ordinals '
    '(self-tested against toordinal, weekday, isocalendar, calendar and '
    'documented Excel examples)',
    'DATEDIF M = 12*dy+dm-[day2<day1], Y = M div 12; YEARFRAC basis 1 = '
    "Excel's actual/actual (days/365|366 within a year, days / mean length "
    'of the calendar years touched otherwise), tolerance 1e-3',
]
TECHNIQUE = ('bounded-exhaustive enumeration of date serials, (y,m,d) '
             'grids, month offsets and date pairs executed on the real '
             'library against a datetime.date-ordinal reference model')
LEVEL_TEXT = ('The thorough tier runs every whole serial 1..2958465 through '
              'number->datetime->number, YEAR, MONTH, DAY, WEEKDAY (no type + '
              '10 return types), ISOWEEKNUM and DATE(YEAR,MONTH,DAY) on the '
              'real library and compares each with an independent '
              'datetime.date-ordinal model - the calendar mapping is checked '
              'for each of its three million days; DATE carries, EDATE/'
              'EOMONTH, DAYS, DATEDIF and YEARFRAC are enumerated over grids '
              'and all ordered pairs of a 240-date set; the quick tier '
              'covers the 1900 leap-year region, two multi-year windows, all '
              'month boundaries 1900..9999 and the end of the range.')
LEVEL_NOTE = ('Trusted: xlmc/ref/dates1900.py (self-tested) and the 1900 '
              'system as quoted in the property.  Not judged: serial 60 and '
              'everything depending on the phantom 1900-02-29, DATE years '
              'below 1900, results outside 1..2958465, text dates, NOW/'
              'TODAY, 30/360 with day-of-month 29-31 '
              '(skipped_out_of_scope in the '
              'evidence).  Pair functions only over the sampled date set.')

_EPOCH_DT = datetime.datetime(1899, 12, 30)


# -- small helpers ----------------------------------------------------------
def num(n):
    return 'num:%s' % lib.fnum(n)


def as_date(obs):
    """Date-returning functions may hand back a datetime or the serial."""
    if obs.startswith('num:'):
        f = float(obs[4:])
        if f == int(f):
            return 'date:%d' % int(f)
    return obs


def dt_of(serial, secs=0):
    d = ref.date_of(serial)
    return datetime.datetime(d.year, d.month, d.day) + datetime.timedelta(
        seconds=secs)


def obs_datetime(v):
    """Observation of a datetime with its time of day rounded to the nearest
    second (lib.norm truncates, which would turn a microsecond of float noise
    into a second)."""
    if isinstance(v, lib.DateTime):
        v = v.value
    if not isinstance(v, datetime.datetime):
        return lib.norm(v)
    total = (v - _EPOCH_DT).total_seconds()
    whole = int(round(total))
    days, secs = divmod(whole, 86400)
    if abs(total - whole) > 1e-3:
        return 'date:%d+%.6fs' % (days, total - days * 86400)
    if days < 61:
        days -= 1
    return 'date:%d' % days if not secs else 'date:%d+%ds' % (days, secs)


def observe_dt(fn, *args):
    try:
        with lib.time_limit():
            return obs_datetime(fn(*args))
    except lib.CaseTimeout:
        return 'timeout'
    except Exception as exc:  # noqa: BLE001
        return lib.exc_obs(exc)


def n2d(x):
    return lib.DateTime.cast(x)


def d2n(dt):
    return lib.Number.cast(dt)


def n2d2n(x):
    return lib.Number.cast(lib.DateTime.cast(x))


def judge(ctx, key, want, got, tags, inputs, nontrivial=True):
    if got == want:
        ctx.ok(key, got, nontrivial)
        return True
    ctx.fail(key, sorted(tags() if callable(tags) else tags), inputs, want,
             got, nontrivial)
    return False


# -- per-serial cases (serial >= 61) ---------------------------------------
def serial_tags(s, fn, extra=()):
    t = {'fn:' + fn}
    y = ref.fields(s)[0]
    if y == 9999:
        t.add('year:9999')
    if s == 61:
        t.add('serial:61')
    t.update(extra)
    return t


def run_serial(s, ctx):
    """All direct-call cases of one whole serial s >= 61."""
    y, m, d = ref.fields(s)
    pre = 'C18/serial/s=%d/' % s
    inp = {'kind': 'serial', 's': s}

    def tg(fn, *extra):
        return lambda: serial_tags(s, fn, extra)
    judge(ctx, pre + 'n2d', 'date:%d' % s, lib.observe(n2d, s),
          tg('n2d', 'conv:n2d'), inp)
    judge(ctx, pre + 'd2n', num(s),
          lib.observe(d2n, datetime.datetime(y, m, d)), tg('d2n', 'conv:d2n'),
          inp)
    judge(ctx, pre + 'n2d2n', num(s), lib.observe(n2d2n, s),
          tg('n2d2n', 'conv:roundtrip'), inp)
    judge(ctx, pre + 'YEAR', num(y), lib.call('YEAR', s), tg('YEAR'), inp)
    judge(ctx, pre + 'MONTH', num(m), lib.call('MONTH', s), tg('MONTH'), inp)
    judge(ctx, pre + 'DAY', num(d), lib.call('DAY', s), tg('DAY'), inp)
    judge(ctx, pre + 'ISOWEEKNUM', num(ref.isoweeknum(s)),
          lib.call('ISOWEEKNUM', s), tg('ISOWEEKNUM'), inp)
    judge(ctx, pre + 'WEEKDAY', num(ref.weekday(s)), lib.call('WEEKDAY', s),
          tg('WEEKDAY', 'rtype:none'), inp)
    for t in WD_TYPES:
        judge(ctx, pre + 'WEEKDAY/t=%d' % t, num(ref.weekday(s, t)),
              lib.call('WEEKDAY', s, t), tg('WEEKDAY', 'rtype:%d' % t), inp)
    judge(ctx, pre + 'DATE', 'date:%d' % s,
          as_date(lib.call('DATE', y, m, d)), tg('DATE', 'date:fields-of-n'),
          inp)


def run_region1900(ctx):
    """Serials 1..61: the anchors 1, 59, 61, strict monotonicity and the
    round trip; serial 60 only weakly between its neighbours."""
    inp = {'kind': 'region1900'}
    prev = {}

    def tags_for(s, fn, *extra):
        t = {'fn:' + fn, 'region:le60' if s <= 60 else 'region:ge61',
             'serial:%d' % s}
        t.update(extra)
        return t

    def chain(name, s, value, obs, fn):
        """value: comparable decoded value or None when not comparable."""
        key = 'C18/region1900/s=%d/%s-monotone' % (s, name)
        p = prev.get(name)
        if s == 60:
            # no calendar date: only weak monotonicity is meaningful
            if p is None or value is None:
                judge(ctx, key, 'not-before-previous', 'not-before-previous',
                      (), inp, False)
                return
            judge(ctx, key, 'not-before-previous',
                  'not-before-previous' if value >= p[0] else
                  'before-previous:%s,%s' % (p[1], obs),
                  lambda: tags_for(s, fn, 'chain'), inp, False)
            return
        if s > 1:
            # (when no earlier serial gave a comparable value the anchors
            # and round trips have already failed; the link holds vacuously)
            good = p is None or (value is not None and value > p[0])
            judge(ctx, key, 'after-previous',
                  'after-previous' if good else
                  'not-after-previous:%s,%s' % (p[1], obs),
                  lambda: tags_for(s, fn, 'chain'), inp, p is not None)
        if value is not None:
            prev[name] = (value, obs)

    def val(obs, prefix):
        if obs.startswith(prefix):
            try:
                return float(obs[len(prefix):])
            except ValueError:
                return None
        return None

    for s in range(1, 62):
        pre = 'C18/region1900/s=%d/' % s
        anchor = s in (1, 59, 61)
        # number -> datetime
        o = lib.observe(n2d, s)
        if anchor:
            judge(ctx, pre + 'n2d', 'date:%d' % s, o,
                  lambda: tags_for(s, 'n2d', 'conv:n2d', 'anchor'), inp)
        chain('n2d', s, val(o, 'date:'), o, 'n2d')
        if s == 60:
            ctx.skip('phantom-day-60', 16)
            continue
        # round trip (bijection on whole days)
        judge(ctx, pre + 'n2d2n', num(s), lib.observe(n2d2n, s),
              lambda: tags_for(s, 'n2d2n', 'conv:roundtrip'), inp)
        # datetime -> number
        y, m, d = ref.fields(s)
        o = lib.observe(d2n, datetime.datetime(y, m, d))
        if anchor:
            judge(ctx, pre + 'd2n', num(s), o,
                  lambda: tags_for(s, 'd2n', 'conv:d2n', 'anchor'), inp)
        chain('d2n', s, val(o, 'num:'), o, 'd2n')
        # calendar fields
        oy, om, od = (lib.call('YEAR', s), lib.call('MONTH', s),
                      lib.call('DAY', s))
        if anchor:
            judge(ctx, pre + 'YEAR', num(y), oy,
                  lambda: tags_for(s, 'YEAR', 'anchor'), inp)
            judge(ctx, pre + 'MONTH', num(m), om,
                  lambda: tags_for(s, 'MONTH', 'anchor'), inp)
            judge(ctx, pre + 'DAY', num(d), od,
                  lambda: tags_for(s, 'DAY', 'anchor'), inp)
        vy, vm, vd = val(oy, 'num:'), val(om, 'num:'), val(od, 'num:')
        tup = None if None in (vy, vm, vd) else (vy, vm, vd)
        chain('ymd', s, tup, '%s/%s/%s' % (oy, om, od), 'YMD')
        # DATE of the fields
        o = as_date(lib.call('DATE', y, m, d))
        if anchor:
            judge(ctx, pre + 'DATE', 'date:%d' % s, o,
                  lambda: tags_for(s, 'DATE', 'anchor', 'date:fields-of-n'),
                  inp)
        chain('DATE', s, val(o, 'date:'), o, 'DATE')
        if s <= 60:
            ctx.skip('weekday-and-iso-week-before-1900-03-01', 12)


# -- time fractions ----------------------------------------------------------
def run_fractions(ctx):
    inp = {'kind': 'fractions'}
    for s in FRAC_SERIALS:
        base = observe_dt(n2d, s)
        for secs, fname in FRACS:
            x = s + secs / 86400.0 if secs else s
            tags = {'frac:nonzero' if secs else 'frac:zero',
                    'fracserial:%d' % s if s <= 61 else 'region:ge61'}
            pre = 'C18/frac/s=%d/f=%s/' % (s, fname)
            # number -> datetime: relative to the library's own whole day
            if base.startswith('date:') and '+' not in base:
                want = base if not secs else '%s+%ds' % (base, secs)
            else:
                want = 'date:%d' % s if not secs else 'date:%d+%ds' % (s,
                                                                       secs)
            judge(ctx, pre + 'n2d', want, observe_dt(n2d, x),
                  tags | {'conv:n2d', 'fn:n2d'}, inp, bool(secs))
            # datetime -> number, and through arithmetic
            dt = dt_of(s, secs)
            for route, fn, args in (
                    ('d2n', d2n, (dt,)),
                    ('OP_ADD', lib.FUNCTIONS.get('OP_ADD'), (dt, 0))):
                if fn is None:
                    got = 'unregistered:%s' % route
                else:
                    got = lib.observe(fn, *args)
                if secs and got.startswith('num:'):
                    r = (float(got[4:]) - s) / (secs / 86400.0)
                    got = 'tod-ratio:%s' % lib.fnum(round(r, 6))
                    want = 'tod-ratio:1.0'
                else:
                    want = num(s) if not secs else 'tod-ratio:1.0'
                judge(ctx, pre + route, want, got,
                      tags | {'conv:d2n', 'fn:' + route}, inp, bool(secs))


# -- DATE grid ------------------------------------------------------------------
def date_case(y, m, d, ctx, route='call'):
    key = 'C18/DATE/y=%d/m=%d/d=%d/route=%s' % (y, m, d, route)
    inp = {'kind': 'date', 'y': y, 'm': m, 'd': d, 'route': route}
    try:
        want = ref.date_serial(y, m, d)
    except ref.Beyond:
        want = None
    except ref.Unjudged as u:
        ctx.skip(u.args[0])
        return
    if route == 'call':
        got = lib.call('DATE', y, m, d)
    else:
        got = lib.eval_formula('=DATE(%d,%d,%d)' % (y, m, d))
    if want is None:
        # no date after 9999-12-31: an error value
        judge(ctx, key, 'err:*', 'err:*' if got.startswith('err:') else got,
              lambda: {'fn:DATE', 'route:' + route, 'result:after-9999'},
              inp, True)
        return
    wy, wm, _ = ref.fields(want)
    carry_m = not 1 <= m <= 12
    carry_d = not 1 <= d <= ref.days_in_month(wy, wm) or (
        (wy * 12 + wm) != (y * 12 + m))

    def tags():
        t = {'fn:DATE', 'route:' + route}
        if carry_m:
            t.add('carry:month')
        if carry_d:
            t.add('carry:day')
        if y == 9999:
            t.add('year:9999')
        if want == 1:
            t.add('result:serial-1')
        if want <= 59:
            t.add('result:le59')
        return t
    judge(ctx, key, 'date:%d' % want, as_date(got), tags, inp,
          carry_m or carry_d)


def date_grid(tier):
    if tier == 'thorough':
        years = (1900, 1901, 1904, 1999, 2000, 2019, 2020, 2021, 2100, 2400,
                 9998, 9999)
        return years, DATE_YEARS_SKIPPED, (-60, 72), (-400, 800)
    return DATE_YEARS_JUDGED, DATE_YEARS_SKIPPED, DATE_M, DATE_D


# -- EDATE / EOMONTH ----------------------------------------------------------
def month_case(fn, s, k, ctx, route='num'):
    key = 'C18/%s/s=%d/k=%d/route=%s' % (fn, s, k, route)
    inp = {'kind': 'month', 'fn': fn, 's': s, 'k': k, 'route': route}
    arg = s if route == 'num' else dt_of(s)
    try:
        want = (ref.edate if fn == 'EDATE' else ref.eomonth)(s, k)
        if want is None or not ref.in_range(want):
            raise ref.Unjudged('month-shift-result-out-of-range')
        shifted = ref.edate(s, k) if fn == 'EOMONTH' else want
    except ref.Beyond:
        got = lib.call(fn, arg, k)
        judge(ctx, key, 'err:*', 'err:*' if got.startswith('err:') else got,
              lambda: {'fn:' + fn, 'route:' + route, 'result:after-9999'},
              inp, True)
        return
    except ref.Unjudged as u:
        ctx.skip(u.args[0])
        return
    got = as_date(lib.call(fn, arg, k))

    def tags():
        t = {'fn:' + fn, 'route:' + route}
        if route == 'num':
            if s == 59:
                t.add('start:serial-59')
            if s <= 59:
                t.add('start:le59')
        if want == 59:
            t.add('result:serial-59')
        if want <= 59:
            t.add('result:le59')
        if shifted == 1:
            t.add('shifted:serial-1')
        if want == 1:
            t.add('result:serial-1')
        if ref.fields(want)[0] == 9999:
            t.add('result-year:9999')
        d = ref.fields(s)[2]
        if fn == 'EDATE' and ref.fields(want)[2] != d:
            t.add('clip:month-end')
        return t
    judge(ctx, key, 'date:%d' % want, got, tags, inp,
          fn == 'EOMONTH' or k != 0)


def month_starts(tier):
    if tier == 'thorough':
        return (list(range(1, 501)) +
                list(range(SER(D(2015, 1, 1)), SER(D(2025, 12, 31)) + 1)),
                (-60, 60))
    return (list(range(1, 131)) +
            list(range(SER(D(2019, 1, 1)), SER(D(2021, 12, 31)) + 1)),
            (-25, 25))


# -- pairs -------------------------------------------------------------------
def pair_dates():
    s = set()
    a, b = SER(D(2020, 1, 15)), SER(D(2020, 3, 15))
    s.update(range(a, b + 1))                                  # 61 dates
    for y in range(1999, 2005):                                # month ends
        for m in range(1, 13):
            s.add(SER(D(y, m, ref.days_in_month(y, m))))
    for y in (1904, 1996, 2000, 2004, 2024, 2096, 2400):       # leap days
        f = SER(D(y, 2, 29))
        s.update((f - 1, f, f + 1))
    for y in (1900, 2100, 2019, 2021):                         # no leap day
        f = SER(D(y, 2, 28))
        s.update((f, f + 1) if y != 1900 else (59, 61))
    s.update((1, 2, 15, 31, 32, 46, 58, 59, 61, 62, 75, 92, 366, 367, 426))
    for d in (D(2019, 1, 1), D(2019, 6, 15), D(2019, 12, 31), D(2021, 1, 1),
              D(2021, 1, 15), D(2021, 6, 30), D(2021, 12, 31), D(2012, 1, 1),
              D(2012, 7, 30), D(2008, 1, 1), D(2015, 4, 20), D(2001, 6, 1),
              D(2002, 8, 15), D(2011, 1, 1), D(2011, 12, 31), D(1999, 1, 1),
              D(1999, 1, 15), D(2000, 1, 1), D(2000, 7, 14), D(2001, 1, 1),
              D(2003, 3, 15), D(2004, 12, 15), D(2005, 1, 1), D(2010, 10, 10),
              D(2022, 2, 2), D(2025, 1, 1), D(2030, 5, 17), D(1950, 6, 15),
              D(1970, 1, 1), D(1985, 10, 26), D(9999, 12, 31), D(9999, 1, 1),
              D(2020, 5, 31), D(2020, 6, 30), D(2020, 7, 31), D(2020, 8, 31),
              D(2020, 12, 31), D(2020, 1, 1), D(2020, 4, 1), D(2020, 10, 15),
              D(2023, 3, 10), D(2023, 11, 27), D(1999, 6, 10), D(2002, 9, 5),
              D(2016, 2, 27)):
        s.add(SER(d))
    for m in range(1, 13):
        s.add(SER(D(2019, m, ref.days_in_month(2019, m))))      # month ends
        s.add(SER(D(2000, m, 15)))                              # mid-month
    out = sorted(s)
    return out


PAIR_DATES = pair_dates()
FORMULA_PAIR_DATES = [SER(d) for d in (
    D(2019, 12, 31), D(2020, 1, 1), D(2020, 1, 15), D(2020, 1, 30),
    D(2020, 1, 31), D(2020, 2, 1), D(2020, 2, 15), D(2020, 2, 28),
    D(2020, 2, 29), D(2020, 3, 1), D(2020, 3, 15), D(2020, 3, 31),
    D(2020, 12, 31), D(2021, 1, 1), D(2021, 2, 28), D(2021, 3, 1),
    D(2000, 2, 29), D(1999, 12, 31), D(2004, 2, 29), D(2024, 2, 29),
    D(2012, 1, 1), D(2012, 7, 30), D(1900, 3, 1), D(1950, 6, 15),
    D(1900, 2, 28), D(1900, 1, 1), D(2019, 2, 28), D(2019, 3, 28))]


def datedif_cap(tier, unit):
    # unit D: the library enumerates every day of the span (dateutil rrule,
    # ~2 us per day); M and Y are arithmetic and not capped
    if unit == 'D':
        return 50000 if tier == 'thorough' else 1500
    return MAXS


def call_slow(name, *args):
    """lib.call with a generous limit: DATEDIF enumerates the span with
    dateutil.rrule (~2 us per day), which on a loaded machine can exceed the
    3 s per-case limit without being a hang."""
    fn = lib.FUNCTIONS.get(name)
    if fn is None:
        return 'unregistered:%s' % name
    try:
        with lib.time_limit(30):
            return lib.norm(fn(*args))
    except lib.CaseTimeout:
        return 'timeout'
    except Exception as exc:  # noqa: BLE001
        return lib.exc_obs(exc)


def pair_tags(fn, s1, s2, route, extra=()):
    t = {'fn:' + fn, 'route:' + route}
    if route == 'num' and 59 in (s1, s2):
        t.add('arg:serial-59')
    if s1 <= 59 or s2 <= 59:
        t.add('arg:le59')
    for s in (s1, s2):
        y, m, d = ref.fields(s)
        if (m, d) == (2, 28) and ref.is_leap(y):
            t.add('arg:feb-28-leap-year')
    if s1 == s2:
        t.add('pair:same-day')
    t.update(extra)
    return t


def close_enough(want, tol, got):
    if not got.startswith('num:'):
        return False
    g = float(got[4:])
    if tol:
        return abs(g - want) <= tol
    return lib.close(g, want, rel=1e-12, abs_=1e-15)


def with_dev(want, got):
    """Failure observation of a tolerant numeric comparison: the number plus
    the size class of its deviation, so that a known finding about a
    different day-count convention does not hide an arbitrary wrong number."""
    if not got.startswith('num:'):
        return got
    dev = abs(float(got[4:]) - want)
    return '%s dev:%s' % (got, 'le-0.006' if dev <= 0.006 else 'gt-0.006')


def dexpr(s):
    return 'DATE(%d,%d,%d)' % ref.fields(s)


def pair_case(s1, s2, tier, ctx, route='num'):
    """s1 = first (start) date, s2 = second (end) date of an ordered pair."""
    pre = 'C18/pair/a=%d/b=%d/route=%s/' % (s1, s2, route)
    inp = {'kind': 'pair', 'a': s1, 'b': s2, 'route': route, 'tier': tier}
    nontriv = s1 != s2
    formula = route == 'formula'

    def arg(s):
        return s

    # DAYS(end, start) and subtraction: every ordered pair, both signs
    try:
        want = ref.serial_difference(s1, s2)
    except ref.Unjudged as u:
        ctx.skip(u.args[0], 2)
    else:
        if formula:
            g1 = lib.eval_formula('=DAYS(%s,%s)' % (dexpr(s2), dexpr(s1)))
            g2 = lib.eval_formula('=%s-%s' % (dexpr(s2), dexpr(s1)))
        else:
            g1 = lib.call('DAYS', arg(s2), arg(s1))
            g2 = lib.call('OP_SUB', dt_of(s2), dt_of(s1))
        judge(ctx, pre + 'DAYS', num(want), g1,
              lambda: pair_tags('DAYS', s1, s2, route), inp, nontriv)
        judge(ctx, pre + 'SUB', num(want), g2,
              lambda: pair_tags('SUB', s1, s2, 'dt' if not formula else
                                route), inp, nontriv)
    if formula:
        # a date keeps its calendar fields when a function has used it: the
        # same two cells are arguments of YEARFRAC and, in the same formula,
        # of DAYS / YEAR afterwards
        try:
            diff = ref.serial_difference(s1, s2)
        except ref.Unjudged:
            diff = None
        if diff is not None:
            cells = {'Sheet1!A1': '=' + dexpr(s1), 'Sheet1!B1': '=' + dexpr(s2)}
            for basis in (1, 3):
                g = lib.eval_formula(
                    '=YEARFRAC(A1,B1,%d)*0+DAYS(B1,A1)' % basis, cells)
                judge(ctx, pre + 'DAYS-after-YEARFRAC/b=%d' % basis,
                      num(diff), g,
                      lambda: pair_tags('DAYS', s1, s2, route,
                                        {'history:argument-used-before'}),
                      inp, nontriv)
            g = lib.eval_formula('=YEARFRAC(A1,B1,1)*0+YEAR(A1)*100+MONTH(B1)',
                                 cells)
            judge(ctx, pre + 'fields-after-YEARFRAC',
                  num(ref.fields(s1)[0] * 100 + ref.fields(s2)[1]), g,
                  lambda: pair_tags('YEAR', s1, s2, route,
                                    {'history:argument-used-before'}),
                  inp, nontriv)
    if s1 > s2:
        ctx.skip('datedif-start-after-end', 3)
        if not formula:
            # YEARFRAC with the later date first: the statement fixes no
            # sign, but the size is the size of the count the other way round
            for basis in (0, 1, 4):
                rev = lib.call('YEARFRAC', arg(s1), arg(s2), basis)
                fwd = lib.call('YEARFRAC', arg(s2), arg(s1), basis)
                key = pre + 'YEARFRAC-reversed/b=%d' % basis
                if not (rev.startswith('num:') and fwd.startswith('num:')):
                    ctx.skip('yearfrac-reversed-not-a-number')
                    continue
                if abs(float(rev[4:])) == float(fwd[4:]):
                    ctx.ok(key, rev, True)
                else:
                    ctx.fail(key, sorted(pair_tags(
                        'YEARFRAC', s1, s2, route,
                        {'basis:%d' % basis, 'order:later-date-first'})), inp,
                        '+-%s' % fwd, rev, True)
        return
    y1, m1, d1 = ref.fields(s1)
    # DATEDIF
    for unit in 'DMY':
        if s2 - s1 > datedif_cap('quick' if formula else tier, unit):
            ctx.skip('datedif-span-over-tier-cap')
            ctx.count('datedif_span_capped')
            continue
        try:
            want = ref.datedif(s1, s2, unit)
        except ref.Unjudged as u:
            ctx.skip(u.args[0])
            continue
        if formula:
            got = lib.eval_formula('=DATEDIF(%s,%s,"%s")' % (
                dexpr(s1), dexpr(s2), unit))
        else:
            got = call_slow('DATEDIF', arg(s1), arg(s2), unit)

        def tags(unit=unit):
            ex = {'unit:' + unit}
            if d1 >= 29:
                ex.add('startday:29-31')
            if (m1, d1) == (2, 29):
                ex.add('start:feb-29')
            return pair_tags('DATEDIF', s1, s2, route, ex)
        judge(ctx, pre + 'DATEDIF/' + unit, num(want), got, tags, inp,
              nontriv)
    # YEARFRAC
    for basis in (0, 1, 2, 3, 4):
        try:
            want, tol = ref.yearfrac(s1, s2, basis)
        except ref.Unjudged as u:
            ctx.skip(u.args[0])
            continue
        if formula:
            got = lib.eval_formula('=YEARFRAC(%s,%s,%d)' % (
                dexpr(s1), dexpr(s2), basis))
        else:
            got = lib.call('YEARFRAC', arg(s1), arg(s2), basis)
        key = pre + 'YEARFRAC/b=%d' % basis
        if close_enough(want, tol, got):
            ctx.ok(key, got, nontriv)
        else:
            ex = {'basis:%d' % basis}
            if basis == 1:
                ex.add('span:' + ref.basis1_kind(s1, s2))
            ctx.fail(key, sorted(pair_tags('YEARFRAC', s1, s2, route, ex)),
                     inp, num(want), with_dev(want, got), nontriv)
    if not formula:
        # basis omitted = basis 0
        try:
            want, tol = ref.yearfrac(s1, s2, 0)
        except ref.Unjudged as u:
            ctx.skip(u.args[0])
        else:
            got = lib.call('YEARFRAC', arg(s1), arg(s2))
            key = pre + 'YEARFRAC/b=omitted'
            if close_enough(want, tol, got):
                ctx.ok(key, got, nontriv)
            else:
                ctx.fail(key, sorted(pair_tags(
                    'YEARFRAC', s1, s2, route, {'basis:omitted'})), inp,
                    num(want), with_dev(want, got), nontriv)


# -- formula sweep -------------------------------------------------------------
FORMULA_COLS = (
    ('YEAR', 'B', '=YEAR(A{r})'),
    ('MONTH', 'C', '=MONTH(A{r})'),
    ('DAY', 'D', '=DAY(A{r})'),
    ('WEEKDAY', 'E', '=WEEKDAY(A{r})'),
    ('WEEKDAY/t=2', 'F', '=WEEKDAY(A{r},2)'),
    ('WEEKDAY/t=16', 'G', '=WEEKDAY(A{r},16)'),
    ('ISOWEEKNUM', 'H', '=ISOWEEKNUM(A{r})'),
    ('DATE', 'I', '=DATE(YEAR(A{r}),MONTH(A{r}),DAY(A{r}))'),
    ('YEAR/lit', 'J', '=YEAR({s})'),
    ('DATE/lit', 'K', '=DATE(YEAR({s}),MONTH({s}),DAY({s}))'),
    ('SUB/next', 'L', '=DATE(YEAR({s}),MONTH({s}),DAY({s})+1)-A{r}'),
)


def formula_want(name, s):
    y, m, d = ref.fields(s)
    if name.startswith('YEAR'):
        return num(y)
    if name == 'MONTH':
        return num(m)
    if name == 'DAY':
        return num(d)
    if name == 'WEEKDAY':
        return num(ref.weekday(s))
    if name.startswith('WEEKDAY/t='):
        return num(ref.weekday(s, int(name.split('=')[1])))
    if name == 'ISOWEEKNUM':
        return num(ref.isoweeknum(s))
    if name.startswith('DATE'):
        return 'date:%d' % s
    if name == 'SUB/next':
        return num(1)
    raise KeyError(name)


def run_formula_serials(serials, ctx):
    """One compiled model per batch: A<r> holds the serial, B..L formulas."""
    cells = {}
    for r, s in enumerate(serials, 1):
        cells['Sheet1!A%d' % r] = s
        for name, col, f in FORMULA_COLS:
            cells['Sheet1!%s%d' % (col, r)] = f.format(r=r, s=s)
    try:
        with lib.time_limit(60):
            model = lib.compile_dict(cells)
            ev = lib.Evaluator(model)
        err = None
    except Exception as exc:  # noqa: BLE001
        err = 'compile-raise:%s' % type(lib.innermost(exc)).__name__
    for r, s in enumerate(serials, 1):
        inp = {'kind': 'formula-serial', 's': s}
        for name, col, f in FORMULA_COLS:
            key = 'C18/formula/s=%d/%s' % (s, name)
            if name == 'SUB/next' and s == MAXS:
                ctx.skip('date-result-out-of-range')
                continue
            got = err or lib.eval_addr(model, 'Sheet1!%s%d' % (col, r), ev)
            if name.startswith('DATE'):
                got = as_date(got)
            judge(ctx, key, formula_want(name, s), got,
                  lambda name=name: serial_tags(
                      s, name.split('/')[0], ('route:formula',
                                              'form:' + name)), inp)


def formula_serials(tier):
    s = set(range(61, 1501))
    s.update(range(SER(D(2024, 1, 1)), SER(D(2024, 12, 31)) + 1))
    s.update(range(MAXS - 399, MAXS + 1))
    if tier == 'thorough':
        s.update(range(61, MAXS + 1, 101))
    return sorted(s)


# -- plan / run ------------------------------------------------------------------
def in_quick_window(s):
    return any(lo <= s <= hi for lo, hi in QUICK_WINDOWS)


def month_edges(y0, y1):
    out = []
    for y in range(y0, y1):
        for m in range(1, 13):
            for d in (1, ref.days_in_month(y, m)):
                s = SER(D(y, m, d))
                if s >= 61 and not in_quick_window(s):
                    out.append(s)
    return out


# -- arguments that are equal in Python and different in Excel -----------------
# A logical is not the serial that Python finds it equal to (True == 1 == 1.0,
# False == 0): what a date function answers for a serial must not depend on a
# logical having been given to it before (each sequence in a fresh process).
AFTER_CALLS = [
    ('YEAR', []), ('MONTH', []), ('DAY', []), ('WEEKDAY', []),
    ('ISOWEEKNUM', []), ('EDATE', [0]), ('EDATE', [1]), ('EOMONTH', [0]),
    ('DATEDIF', [40, 'D']), ('YEARFRAC', [367, 3]),
]
AFTER_OPENERS = (('logical-first', [True, False]),
                 ('float-first', [1.0, 0.0]))


def _fresh_calls(seq):
    import json
    import os
    import subprocess
    import sys
    root = os.path.dirname(os.path.dirname(os.path.dirname(
        os.path.abspath(__file__))))
    p = subprocess.run(
        [sys.executable, '-m', 'xlmc.checks.c18_proc', json.dumps(seq)],
        cwd=root, stdout=subprocess.PIPE, stderr=subprocess.DEVNULL,
        text=True, timeout=300)
    if p.returncode != 0 or not p.stdout.strip():
        return None
    return json.loads(p.stdout.strip().splitlines()[-1])


def run_after_logical(ctx):
    probes = [[fn, [v] + rest] for fn, rest in AFTER_CALLS for v in (1, 0, 2)]
    probes += [['DAYS', [32, 1]], ['DAYS', [1, 0]]]
    base = _fresh_calls(probes)
    inputs = {'kind': 'after-logical'}
    if base is None:
        from .. import runner
        raise runner.HarnessError('c18_proc failed')
    for oname, openers in AFTER_OPENERS:
        opening = [[fn, [v] + rest] for fn, rest in AFTER_CALLS
                   for v in openers]
        opening += [['DAYS', [32, openers[0]]], ['DAYS', [openers[0], 0]]]
        res = _fresh_calls(opening + probes)
        tags = ['family:after-python-equal-argument', 'opener:' + oname]
        if res is None:
            ctx.fail('C18/after/%s/process' % oname, tags, inputs,
                     'sequence runs', 'process failed')
            continue
        for (fn, args), got, want in zip(probes, res[len(opening):], base):
            ctx.check('C18/after/%s/%s%r' % (oname, fn, tuple(args)), got,
                      want, tags + ['fn:' + fn], inputs, True,
                      note='fresh process: the same call after %s(%r, ...)'
                      % (fn, openers[0]))


def plan(tier):
    shards = [{'kind': 'region1900'}, {'kind': 'fractions'},
              {'kind': 'outside'}, {'kind': 'after-logical'},
              {'kind': 'month-top'}]
    if tier == 'thorough':
        step = 4000
        for lo in range(61, MAXS + 1, step):
            shards.append({'kind': 'sweep', 'lo': lo,
                           'hi': min(MAXS + 1, lo + step)})
    else:
        step = 500
        for lo, hi in QUICK_WINDOWS:
            for a in range(lo, hi + 1, step):
                shards.append({'kind': 'sweep', 'lo': a,
                               'hi': min(hi + 1, a + step)})
        for y in range(1900, 10000, 25):
            shards.append({'kind': 'edges', 'y0': y, 'y1': min(10000, y + 25)})
    fs = formula_serials(tier)
    for i in range(0, len(fs), 60):
        shards.append({'kind': 'formula-serials', 'lo': i, 'hi': i + 60})
    judged, skipped, (m0, m1), (d0, d1) = date_grid(tier)
    for y in judged + skipped:
        for a in range(m0, m1 + 1, 16):
            shards.append({'kind': 'date', 'y': y, 'm0': a,
                           'm1': min(m1 + 1, a + 16)})
    shards.append({'kind': 'date-formula', 'y': 2020})
    starts, _ = month_starts(tier)
    for i in range(0, len(starts), 40):
        shards.append({'kind': 'month', 'lo': i, 'hi': i + 40})
    if tier == 'quick':
        a, b = SER(D(2020, 1, 1)), SER(D(2020, 12, 31))
    else:
        a, b = SER(D(2019, 1, 1)), SER(D(2021, 12, 31))
    for lo in range(a, b + 1, 40):
        shards.append({'kind': 'month-dt', 'lo': lo, 'hi': min(b + 1, lo + 40)})
    for i in range(0, len(PAIR_DATES), 2):
        shards.append({'kind': 'pairs', 'lo': i, 'hi': i + 2})
    for i in range(len(FORMULA_PAIR_DATES)):
        shards.append({'kind': 'pairs-formula', 'i': i})
    return shards


def run_shard(shard, ctx):
    kind = shard['kind']
    tier = ctx.tier
    if kind == 'after-logical':
        run_after_logical(ctx)
        return
    if kind == 'region1900':
        run_region1900(ctx)
        ctx.count('serials_swept', 60)
        ctx.sample({'serial': 59, 'cases': 'n2d anchor, chain, round trip'})
    elif kind == 'fractions':
        run_fractions(ctx)
    elif kind == 'outside':
        ctx.skip('serial-outside-1..2958465', 2 * 19)
    elif kind == 'sweep':
        for s in range(shard['lo'], shard['hi']):
            run_serial(s, ctx)
        ctx.count('serials_swept', shard['hi'] - shard['lo'])
        if shard['lo'] % 100000 < 4000:
            ctx.sample({'serial': shard['lo'],
                        'date': str(ref.date_of(shard['lo'])),
                        'cases': 19})
    elif kind == 'edges':
        ss = month_edges(shard['y0'], shard['y1'])
        for s in ss:
            run_serial(s, ctx)
        ctx.count('serials_swept', len(ss))
    elif kind == 'formula-serials':
        fs = formula_serials(tier)[shard['lo']:shard['hi']]
        run_formula_serials(fs, ctx)
        ctx.count('serials_through_formulas', len(fs))
    elif kind == 'date':
        judged, skipped, _, (d0, d1) = date_grid(tier)
        y = shard['y']
        for m in range(shard['m0'], shard['m1']):
            if y in skipped:
                ctx.skip('date-year-below-1900-short-year-rule' if y < 1900
                         else 'date-year-outside-1900..9999', d1 - d0 + 1)
                continue
            for d in range(d0, d1 + 1):
                date_case(y, m, d, ctx)
        if shard['m0'] == 0 or shard['m0'] == -8:
            ctx.sample({'DATE': [y, shard['m0'], d0]})
    elif kind == 'date-formula':
        for m in range(DATE_M[0], DATE_M[1] + 1):
            for d in range(DATE_D[0], DATE_D[1] + 1):
                date_case(shard['y'], m, d, ctx, 'formula')
    elif kind == 'month':
        starts, (k0, k1) = month_starts(tier)
        for s in starts[shard['lo']:shard['hi']]:
            for k in range(k0, k1 + 1):
                month_case('EDATE', s, k, ctx)
                month_case('EOMONTH', s, k, ctx)
    elif kind == 'month-top':
        # targets in the last months of year 9999 (the last one included),
        # reached from near and from far
        tops = [SER(D(9999, m, d)) for m, d in (
            (1, 31), (10, 31), (11, 1), (11, 30), (12, 1), (12, 30),
            (12, 31))] + [SER(D(9998, 12, 31)), SER(D(9998, 2, 28))]
        for s in tops:
            for k in range(-14, 15):
                month_case('EDATE', s, k, ctx)
                month_case('EOMONTH', s, k, ctx)
        for s, k in ((1, 97199), (1, 97198), (61, 97197), (36526, 95999),
                     (36526, 96000)):
            month_case('EDATE', s, k, ctx)
            month_case('EOMONTH', s, k, ctx)
    elif kind == 'month-dt':
        _, (k0, k1) = month_starts(tier)
        for s in range(shard['lo'], shard['hi']):
            for k in range(k0, k1 + 1):
                month_case('EDATE', s, k, ctx, 'dt')
                month_case('EOMONTH', s, k, ctx, 'dt')
    elif kind == 'pairs':
        for s1 in PAIR_DATES[shard['lo']:shard['hi']]:
            for s2 in PAIR_DATES:
                pair_case(s1, s2, tier, ctx)
        if shard['lo'] % 60 == 0:
            ctx.sample({'pair': [PAIR_DATES[shard['lo']], PAIR_DATES[-1]]})
    elif kind == 'pairs-formula':
        s1 = FORMULA_PAIR_DATES[shard['i']]
        for s2 in FORMULA_PAIR_DATES:
            pair_case(s1, s2, tier, ctx, 'formula')
    else:
        raise AssertionError(kind)


def replay(inputs, ctx):
    kind = inputs['kind']
    if kind == 'serial':
        run_serial(inputs['s'], ctx)
    elif kind == 'region1900':
        run_region1900(ctx)
    elif kind == 'after-logical':
        run_after_logical(ctx)
    elif kind == 'fractions':
        run_fractions(ctx)
    elif kind == 'date':
        date_case(inputs['y'], inputs['m'], inputs['d'], ctx, inputs['route'])
    elif kind == 'month':
        month_case(inputs['fn'], inputs['s'], inputs['k'], ctx,
                   inputs['route'])
    elif kind == 'pair':
        pair_case(inputs['a'], inputs['b'], inputs['tier'], ctx,
                  inputs['route'])
    elif kind == 'formula-serial':
        run_formula_serials([inputs['s']], ctx)
    else:
        raise AssertionError(kind)


def selftest():
    ref.selftest()
    assert len(PAIR_DATES) == 240, len(PAIR_DATES)
    assert PAIR_DATES == sorted(set(PAIR_DATES))
    assert all(ref.date_of(s) is not None for s in PAIR_DATES)
    assert as_date('num:59.0') == 'date:59' and as_date('err:#NUM!') == \
        'err:#NUM!' and as_date('num:1.5') == 'num:1.5'
    assert obs_datetime(datetime.datetime(1900, 2, 28)) == 'date:59'
    assert obs_datetime(datetime.datetime(1900, 3, 1, 12)) == 'date:61+43200s'
    assert obs_datetime(datetime.datetime(2020, 1, 1, 23, 59, 58, 999990)) \
        == 'date:43831+86399s'
    # the thorough sweep covers every serial exactly once
    tot = sum(s['hi'] - s['lo'] for s in plan('thorough')
              if s['kind'] == 'sweep')
    assert tot == MAXS - 60, tot
    # quick windows and month edges are disjoint
    e = month_edges(1999, 2002)
    assert not any(in_quick_window(s) for s in e) and len(set(e)) == len(e)
