"""C02 - every well-formed formula parses to the tree its text denotes.

Oracle scope
  enforced : FormulaParser().parse(text, {}) succeeds and its tree, walked as
             (func NAME args) / (op sym left right) / (neg x) / (pct x) /
             (ref sheet coords) / (num value) / (bool b) / (err code) /
             (text exact-content), equals the generator's tree; a leading '=',
             blanks / newlines at every legal gap (leading and trailing
             included), redundant parentheses and a leading '@' on a function
             name do not change it; XLFormula(text, sheet) constructs and its
             terms are exactly the written references.
  accepted : the implementation's desugarings - a percent literal folded into
             a number, x% as x * 0.01 (both trees are brought to that normal
             form, so a real postfix node is accepted too), '@' stripped, '_xlfn.'
             kept or stripped, any letter case of a function name, '$' kept
             or stripped in a reference.
  refused  : array constants, intersection / union operators, empty
             arguments, structured and 3-D references (not in the property's
             list of constructs) - never generated.
"""
import itertools

from .. import lib
from ..gen import formulas as F

PROPERTY = 'C02'
LEVEL = 'exploration'
RULE = ('grammar-driven enumeration of formula ASTs (all trees with <=1 '
        'internal node over the full leaf alphabet, all trees with 2 '
        '(thorough 3) internal nodes over reduced alphabets, every string '
        'literal up to length 2 (3) over 22 characters incl. all tokenizer '
        'delimiters in 6 placements, every single redundant parenthesis) x '
        'renderings (with/without "=", all 2^gaps blank placements for small '
        'trees, single / all gaps / newlines for larger ones); non-trivial = '
        'the tree has >=1 internal node or is a string/reference leaf whose '
        'text contains a tokenizer delimiter')
BOUNDS = {
    'quick': {'full_alphabet_internal_nodes': 1, 'reduced_alphabet_nodes': 2,
              'string_len': 2, 'exhaustive_ws_gaps_up_to': 9},
    'thorough': {'full_alphabet_internal_nodes': 1,
                 'reduced_alphabet_nodes': 3, 'string_len': 3,
                 'exhaustive_ws_gaps_up_to': 11},
}
ASSUMPTIONS = ['formula grammar of DESIGN.md A.1; formulas in the normalised '
               'form Excel stores (upper-case TRUE/FALSE/errors, scientific '
               'literals d.dddE+x)']
TECHNIQUE = ('bounded-exhaustive enumeration of formula ASTs x concrete '
             'renderings, parsed by the real tokenizer/parser and compared '
             'with the generating tree')
LEVEL_TEXT = ('Every abstract syntax tree of the formula grammar up to the '
              'size bound, in every whitespace placement / redundant '
              'parenthesisation of the bound, is parsed by the real '
              'FormulaParser and its node structure compared with the tree '
              'that generated the text; string literals range over every '
              'short string including the tokenizer\'s own delimiters.')
LEVEL_NOTE = ('Trusted: the generator\'s renderer (minimal parentheses from '
              'the Excel precedence table) and canonicaliser.  Not covered: '
              'larger trees, constructs outside the property\'s list.')


# ---- canonical walk of the implementation's AST ---------------------------
def walk(node):
    an = lib.ast_nodes
    if isinstance(node, an.FunctionNode):
        return ('func', str(node.tvalue).upper().replace('_XLFN.', ''),
                tuple(walk(a) for a in (node.args or [])))
    if isinstance(node, an.OperatorNode):
        tt = node.ttype
        if tt == 'operator-infix':
            left, right = walk(node.left), walk(node.right)
            # same normal form for x*0.01 as on the generator's side
            return F.fold_mul(('op', node.tvalue, left, right))
        if tt == 'operator-prefix':
            if node.tvalue == '-':
                return ('neg', walk(node.right))
            return ('prefix', node.tvalue, walk(node.right))
        if tt == 'operator-postfix':
            operand = node.left if node.left is not None else node.right
            return F.fold_pct(('pct', walk(operand)))
        return ('operator?', tt, node.tvalue)
    if isinstance(node, an.RangeNode):
        text = str(node.tvalue)
        if '!' in text:
            sheet, coords = text.rsplit('!', 1)
            if len(sheet) > 1 and sheet[0] == sheet[-1] == "'":
                sheet = sheet[1:-1].replace("''", "'")
        else:
            sheet, coords = None, text
        if node.tsubtype != 'range':
            return ('ref?', node.tsubtype, text)
        return ('ref', sheet, coords.replace('$', ''))
    if isinstance(node, an.OperandNode):
        st = node.tsubtype
        if st == 'number':
            try:
                return ('num', float(node.tvalue))
            except (TypeError, ValueError):
                return ('num?', repr(node.tvalue))
        if st == 'logical':
            return ('bool', str(node.tvalue).upper() == 'TRUE')
        if st == 'text':
            return ('text', node.tvalue)
        if st == 'error':
            return ('err', node.tvalue)
        return ('operand?', st, repr(node.tvalue))
    return ('node?', type(node).__name__)


def parse_obs(text, names=None, parser=None):
    try:
        with lib.time_limit():
            tree = (parser or lib.xlparser.FormulaParser()).parse(
                text, dict(names or {}))
            return repr(walk(tree))
    except lib.CaseTimeout:
        return 'timeout'
    except RecursionError:
        return 'raise:RecursionError'
    except Exception as exc:  # noqa: BLE001
        return 'raise:%s' % type(exc).__name__


def terms_obs(text, sheet='Sheet1'):
    try:
        f = lib.xltypes.XLFormula(text, sheet)
        return repr(sorted(set(f.terms)))
    except Exception as exc:  # noqa: BLE001
        return 'raise:%s' % type(exc).__name__


def expected_terms(tree, sheet='Sheet1'):
    out = set()

    def rec(t):
        k = t[0]
        if k == 'ref':
            sh, coords = F.unquote_sheet(t[1])
            out.add('%s!%s' % (sh if sh is not None else sheet, coords))
        elif k == 'call':
            for a in t[2]:
                rec(a)
        elif k == 'bin':
            rec(t[2])
            rec(t[3])
        elif k in ('neg', 'pct', 'paren'):
            rec(t[1])
    rec(tree)
    return repr(sorted(out))


# ---- renderings -------------------------------------------------------------
def ws_variants(toks, mode, max_exh):
    """yield (name, text)."""
    gs = F.gaps(toks)
    yield 'plain', F.render(toks)
    yield 'noeq', F.render(toks, eq=False)
    if mode == 'exhaustive' and len(gs) <= max_exh:
        for r in range(1, len(gs) + 1):
            for sub in itertools.combinations(gs, r):
                yield 'ws:' + ','.join(map(str, sub)), F.render(toks, sub)
        yield 'nl:all', F.render(toks, gs, ws='\n')
    else:
        yield 'ws:all', F.render(toks, gs)
        yield 'nl:all', F.render(toks, gs, ws='\n')
        yield 'ws:trailing', F.render(toks, [len(toks)])
        yield 'ws:leading', F.render(toks, [0])
        if mode == 'single':
            for g in gs[1:-1]:
                yield 'ws:%d' % g, F.render(toks, [g])


def tree_key(tree):
    return repr(tree).replace(' ', '')


def judge_tree(family, tree, mode, ctx, max_exh=9, with_terms=True):
    want = repr(F.canon(tree))
    toks = F.tokens(tree)
    feats = sorted(F.features(tree))
    nontriv = F.size(tree) >= 1 or bool(
        {'str:delimiter', 'str:quote', 'ref:quoted-sheet',
         'ref:range'} & set(feats))
    tk = tree_key(tree)
    names = F.NAMES if family == 'names' else None
    for vname, text in ws_variants(toks, mode, max_exh):
        got = parse_obs(text, names)
        key = 'C02/%s/%s/%s' % (family, tk, vname)
        tags = list(feats)
        if vname.startswith('ws') or vname.startswith('nl'):
            tags.append('ws:' + ('newline' if vname.startswith('nl')
                                 else 'blank'))
            if str(len(toks)) in vname.split(':')[1].split(',') or \
                    vname.endswith('all') or vname == 'ws:trailing':
                tags.append('ws:trailing')
        verdict(ctx, key, got, want, tags,
                {'tree': tree, 'variant': vname, 'text': text,
                 'family': family, 'mode': mode}, nontriv, 'tree')
    if with_terms:
        text = F.render(toks)
        verdict(ctx, 'C02/%s/%s/terms' % (family, tk), terms_obs(text),
                expected_terms(tree), feats + ['oracle:terms'],
                {'tree': tree, 'variant': 'terms', 'text': text,
                 'family': family, 'mode': mode}, nontriv, 'terms')


def verdict(ctx, key, got, want, tags, inputs, nontriv, what):
    """Failure signatures carry the class of the wrong observation only (the
    full trees go into the replay file's note)."""
    if got == want:
        ctx.ok(key, got, nontriv)
        return
    cls = got if got.startswith('raise:') or got == 'timeout' \
        else 'other-' + what
    ctx.fail(key, tags, inputs, 'generated-' + what, cls, nontriv,
             'want=%s got=%s' % (want, got))


STRING_PLACEMENTS = ('alone', 'arg-first', 'arg-middle', 'arg-last',
                     'concat-left', 'concat-right')


def string_tree(s, placement):
    lit = ('str', s)
    a, b = ('ref', 'A1'), ('num', '2')
    return {
        'alone': lit,
        'arg-first': ('call', 'IF', [lit, a, b]),
        'arg-middle': ('call', 'IF', [a, lit, b]),
        'arg-last': ('call', 'IF', [a, b, lit]),
        'concat-left': ('bin', '&', lit, ('ref', 'B1')),
        'concat-right': ('bin', '&', ('ref', 'A1'), lit),
    }[placement]


def paren_variants(tree):
    """The tree with one redundant parenthesis around each sub-expression."""
    k = tree[0]
    yield ('paren', tree)
    if k == 'call':
        for i, a in enumerate(tree[2]):
            for v in paren_variants(a):
                args = list(tree[2])
                args[i] = v
                yield ('call', tree[1], args)
    elif k == 'bin':
        for v in paren_variants(tree[2]):
            yield ('bin', tree[1], v, tree[3])
        for v in paren_variants(tree[3]):
            yield ('bin', tree[1], tree[2], v)
    elif k in ('neg', 'pct'):
        for v in paren_variants(tree[1]):
            yield (k, v)


# ---- plan -------------------------------------------------------------------
def family_items(name, tier):
    if name == 'twins':
        return twin_items()
    if name == 'leaf':
        return list(F.FULL_LEAVES)
    if name == 'one-full':
        return list(F.trees_one(F.FULL_LEAVES))
    if name == 'calls-full':
        return list(F.calls(F.FUNCS, F.FULL_LEAVES, 2)) + \
            [('call', 'PI', [])]
    if name == 'calls-3':
        return list(F.calls(['SUM', 'IF'], F.REDUCED_LEAVES, 3))
    if name == 'small-exh':
        return (list(F.trees_one(F.TINY_LEAVES)) +
                list(F.calls(['SUM', '@SUM'], F.TINY_LEAVES, 2)) +
                list(F.compose(2, F.TINY_LEAVES[:3], ops=['^', '+', '&'],
                               funcs=('SUM',))))
    if name == 'two-reduced':
        return list(F.compose(2, F.REDUCED_LEAVES))
    if name == 'three-tiny':
        return list(F.compose(3, F.TINY_LEAVES, ops=['^', '+', '&', '='],
                              funcs=('SUM',)))
    if name == 'shared-parser':
        leaves = [('ref', 'A1'), ('num', '2'), ('ref', 'B1'),
                  ('ref', '$C$3'), ('num', '1.5')]
        return list(F.chains(3, leaves)) + list(
            F.calls(['SUM', 'IF'], F.TINY_LEAVES, 2)) + [
            ('neg', ('bin', '^', ('ref', 'A1'), ('num', '2'))),
            ('pct', ('ref', 'A1'))]
    if name == 'after-tokenize':
        return [('ref', 'A1:B2'), ('ref', '$A$1:$B$2'),
                ('call', 'SUM', [('ref', 'A1:B2'), ('ref', 'Sheet2!A1:B2')]),
                ('bin', '+', ('ref', "'My Sheet'!A1:B2"), ('num', '1')),
                ('ref', 'A:A'), ('neg', ('ref', '1:1')),
                ('call', 'IF', [('ref', 'A1'), ('ref', 'B1:C2'),
                                ('str', 'A1:B2')])]
    if name == 'chains':
        leaves = [('ref', 'A1'), ('num', '2'), ('ref', 'B1'),
                  ('ref', '$C$3'), ('num', '1.5')]
        out = list(F.chains(3, leaves))
        if tier == 'thorough':
            out += list(F.chains(4, leaves))
        return out
    if name == 'names':
        return (list(F.NAME_LEAVES) + list(F.trees_one(F.NAME_LEAVES)) +
                list(F.calls(['IF', 'SUM'], F.NAME_LEAVES, 3)))
    if name == 'paren':
        out = []
        for t in itertools.chain(F.compose(1, F.TINY_LEAVES),
                                 F.compose(2, F.TINY_LEAVES)):
            out.extend(paren_variants(t))
        return out
    if name == 'strings':
        n = 2 if tier == 'quick' else 3
        return [(s, p) for s in F.all_strings(n) for p in STRING_PLACEMENTS]
    raise KeyError(name)


# formulas that differ only in white space INSIDE a text literal or a quoted
# sheet name, parsed one after the other in every order: each keeps its own
# characters whatever was parsed before
TWIN_GROUPS = [
    [('str', 'a b'), ('str', 'a  b'), ('str', 'a\nb')],
    [('str', ' '), ('str', '  '), ('str', '\t')],
    [('ref', "'P L'!C3"), ('ref', "'P  L'!C3")],
    [('call', 'SUM', [('str', 'x y'), ('ref', 'A1')]),
     ('call', 'SUM', [('str', 'x  y'), ('ref', 'A1')])],
    [('bin', '&', ('ref', "'P L'!A1:B2"), ('str', ' ')),
     ('bin', '&', ('ref', "'P  L'!A1:B2"), ('str', ' ')),
     ('bin', '&', ('ref', "'P L'!A1:B2"), ('str', '  '))],
]


def twin_items():
    out = []
    for gi, group in enumerate(TWIN_GROUPS):
        for oi, order in enumerate(itertools.permutations(range(len(group)))):
            out.append((gi, oi, [group[k] for k in order]))
    return out


FAMILIES = {
    'leaf': 'exhaustive', 'one-full': 'few', 'calls-full': 'few',
    'calls-3': 'few', 'small-exh': 'exhaustive', 'two-reduced': 'few',
    'paren': 'few', 'strings': 'single', 'names': 'few', 'twins': 'single',
    'chains': 'few', 'after-tokenize': 'few', 'shared-parser': 'single',
}
_ITEMS = {}


def items(name, tier):
    if (name, tier) not in _ITEMS:
        _ITEMS[(name, tier)] = family_items(name, tier)
    return _ITEMS[(name, tier)]


def plan(tier):
    shards = []
    fams = dict(FAMILIES)
    if tier == 'thorough':
        fams['three-tiny'] = 'few'
    for name, mode in fams.items():
        n = len(items(name, tier))
        step = 150 if mode == 'exhaustive' else 600
        for lo in range(0, n, step):
            shards.append({'family': name, 'mode': mode, 'lo': lo,
                           'hi': min(n, lo + step)})
    return shards


def run_shard(shard, ctx):
    name, mode = shard['family'], shard['mode']
    tier = ctx.tier
    max_exh = BOUNDS[tier]['exhaustive_ws_gaps_up_to']
    its = items(name, tier)[shard['lo']:shard['hi']]
    if name == 'after-tokenize':
        # the tokenizer's public switches used on OTHER formulas first: what
        # they set up is theirs
        for text in ('=SUM(A1:B2)', '=A1:B2', "='My Sheet'!A1:B2+1"):
            lib.observe(lib.xlparser.FormulaParser().tokenize, text, True)
            lib.observe(lib.xlparser.FormulaParser().parse, text, {}, True)
    if name == 'shared-parser':
        # ONE parser object for all the formulas of the shard, every tree
        # dropped before the next formula is parsed, three rounds: the tree
        # depends on the formula's text, not on what the parser parsed before
        parser = lib.xlparser.FormulaParser()
        for rnd in range(3):
            for it in (its if rnd != 1 else its[::-1]):
                text = F.render(F.tokens(it))
                got = parse_obs(text, None, parser)
                verdict(ctx, 'C02/shared-parser/%s/round=%d' % (
                    tree_key(it), rnd), got, repr(F.canon(it)),
                    sorted(F.features(it)) + ['history:parser-reused'],
                    {'tree': it, 'variant': 'plain', 'text': text,
                     'family': name, 'mode': mode}, True, 'tree')
        return
    for it in its:
        if name == 'twins':
            gi, oi, trees = it
            for t in trees:
                judge_tree('twins-g%d-o%d' % (gi, oi), t, 'single', ctx,
                           max_exh, with_terms=False)
        elif name == 'strings':
            s, placement = it
            tree = string_tree(s, placement)
            judge_tree('strings/' + placement, tree,
                       'single' if placement != 'alone' else 'few', ctx,
                       max_exh, with_terms=(placement == 'alone'))
        else:
            judge_tree(name, it, mode, ctx, max_exh,
                       with_terms=(name != 'names'))
    if shard['lo'] == 0 and its:
        t = its[0] if name not in ('strings', 'twins') else (
            string_tree(*its[-1]) if name == 'strings' else its[0][2][0])
        ctx.sample({'family': name, 'text': F.render(F.tokens(t)),
                    'tree': repr(F.canon(t))})


def _tuplify(t):
    if isinstance(t, list):
        # argument lists stay lists: position 2 of a 'call' node
        return tuple(_tuplify(x) for x in t)
    return t


def _retree(t):
    t = list(t)
    k = t[0]
    if k == 'call':
        return ('call', t[1], [_retree(a) for a in t[2]])
    if k == 'bin':
        return ('bin', t[1], _retree(t[2]), _retree(t[3]))
    if k in ('neg', 'pct', 'paren'):
        return (k, _retree(t[1]))
    return tuple(t)


def replay(inputs, ctx):
    tree = _retree(inputs['tree'])
    want = repr(F.canon(tree))
    text = inputs['text']
    feats = sorted(F.features(tree))
    tk = tree_key(tree)
    if inputs['variant'] == 'terms':
        verdict(ctx, 'C02/%s/%s/terms' % (inputs['family'], tk),
                terms_obs(text), expected_terms(tree),
                feats + ['oracle:terms'], inputs, True, 'terms')
    else:
        verdict(ctx, 'C02/%s/%s/%s' % (inputs['family'], tk,
                                       inputs['variant']),
                parse_obs(text, F.NAMES if inputs['family'] == 'names'
                          else None), want, feats, inputs, True, 'tree')


def selftest():
    t = ('bin', '^', ('num', '2'), ('pct', ('ref', 'A1')))
    assert F.render(F.tokens(t)) == '=2^A1%'
    t = ('pct', ('neg', ('ref', 'A1')))
    assert F.render(F.tokens(t)) == '=-A1%'
    t = ('neg', ('pct', ('ref', 'A1')))
    assert F.render(F.tokens(t)) == '=-(A1%)'
    t = ('call', 'IF', [('str', 'a"b'), ('ref', "'It''s'!B2")])
    assert F.render(F.tokens(t)) == '=IF("a""b",\'It\'\'s\'!B2)'
    assert F.canon(t) == ('func', 'IF', (('text', 'a"b'),
                                        ('ref', "It's", 'B2')))
    assert F.canon(('pct', ('num', '50'))) == ('num', 0.5)
    toks = F.tokens(('bin', '+', ('ref', 'A1'), ('num', '1')))
    assert F.gaps(toks) == [0, 1, 2, 3]
    assert F.render(toks, [3]) == '=A1+1 '
    # distinct trees have distinct minimal renderings (no paren nodes)
    seen = {}
    for t in itertools.chain(F.compose(1, F.TINY_LEAVES),
                             F.compose(2, F.TINY_LEAVES[:3])):
        text = F.render(F.tokens(t))
        c = F.canon(t)
        assert seen.setdefault(text, c) == c, (text, c, seen[text])
