"""Helper of C05: evaluate the given cells of a model, in the given order, in
THIS (fresh) process and print the observations as JSON.  Process-wide caches
of the library start empty here, whatever the calling worker has evaluated.

usage: python -m xlmc.checks.c05_proc <model name> <cell>,<cell>,...
"""
import json
import sys


def main():
    from .. import lib
    from ..gen import models
    spec = models.by_name(sys.argv[1])
    cells = sys.argv[2].split(',')
    model = models.build(spec, lib)
    ev = lib.Evaluator(model)
    out = []
    for c in cells:
        out.append([c, lib.observe(ev.evaluate, c)])
    print(json.dumps(out))


if __name__ == '__main__':
    main()
