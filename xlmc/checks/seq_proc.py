"""Helper: compile the given dict model in THIS (fresh) process, evaluate the
given cells in the given order with one evaluator and print the observations
as JSON.  Whatever the library keeps process-wide starts empty here.

usage: python -m xlmc.checks.seq_proc '<json {"cells": {addr: content}, "order": [addr, ...]}>'
"""
import json
import sys


def main():
    from .. import lib
    job = json.loads(sys.argv[1])
    model = lib.compile_dict(job['cells'])
    ev = lib.Evaluator(model)
    print(json.dumps([lib.observe(ev.evaluate, a) for a in job['order']]))


if __name__ == '__main__':
    main()
