"""C10 - IF/AND/OR/NOT select lazily and follow Excel's truth rules.

Oracle scope
  enforced : IF(c,a[,b]) yields the value of the branch selected by the truth
             of c (TRUE / non-zero number -> a; FALSE / zero / blank -> b, or
             FALSE when b is omitted); no spy placed in the unselected branch
             runs and an error value, an unknown function or a reference into
             a circular pair there has no effect; the spies around the
             condition and the selected branch do run.  Top-level AND / OR:
             conditional on the observed spy log E (set of evaluated
             arguments) - if an evaluated argument holds an error the result
             is one of the evaluated errors, otherwise it is the conjunction /
             disjunction of the non-blank evaluated elements, and an argument
             may only be left out when an evaluated element already decides
             the result.  Without spies the result must be one that some
             legal E allows.  NOT negates the truth value (blank -> TRUE).
  refused  : error / text / array as IF condition or NOT argument (errors:
             C07), text operands of AND/OR, AND/OR whose evaluated elements
             are all blank, A1>1 with a blank A1 (C09), a raising construct
             (unknown function, cycle) on the SELECTED path or inside an
             AND/OR argument - skipped, never judged.
"""
import functools
import itertools

from .. import lib
from ..ref import lazy

PROPERTY = 'C10'
LEVEL = 'exploration'
RULE = ('families: IFS = 30 simple conditions (literals, a cell over 9 '
        'values, SPY-wrapped cell, A1>1) x 19 x 20 branch forms (constants, '
        'cell, SPY, error value, unknown function, circular reference, SPY '
        'around each, unknown function around a SPY, nested IF, AND/OR of '
        'spies; b may be '
        'omitted); IFN = every condition shape of depth <= 2 (thorough <= 3) '
        'over NOT/AND/OR/IF/A1>1 with <= 3 leaf cells x all assignments of '
        '{TRUE,FALSE,0,2,blank} (no blank under >) x 1 of 8 (selected, '
        'poisoned unselected) branch pairs in rotation, the poison placed in '
        'the branch the reference does not select (thorough: all 8 for depth '
        '<= 2), alternately plain and with SPY-wrapped leaves; '
        'TOP = each depth <= 1 shape as the whole formula and under NOT; '
        'ANDOR = AND/OR with 1-3 (thorough 4) arguments over 13 scalar kinds '
        '(cell holding TRUE/FALSE/0/2/blank/#DIV/0!/#N/A, literals, 1/0, '
        'NA()), 1x2 and 2x2 ranges over 6 cell values, scalar+range, two '
        'ranges, an inner IF, each with every argument wrapped in SPY(i,.) '
        'and unwrapped; CALL = direct xl.FUNCTIONS calls with logging Expr '
        'thunks.  A case is non-trivial when laziness or a truth rule is '
        'observable: IF with a spy or poison in the unselected branch or an '
        'omitted selected branch; AND/OR with >= 2 elements; NOT/TOP over a '
        'number or blank')
BOUNDS = {
    'quick': {'condition_depth': 2, 'leaf_cells': 3, 'andor_args': 3,
              'branch_pairs_nested': '1 of 8 in rotation'},
    'thorough': {'condition_depth': 3, 'leaf_cells': 3, 'andor_args': 4,
                 'branch_pairs_nested': 'all 8 (depth<=2), 1 of 8 (depth 3)'},
}
ASSUMPTIONS = [
    'truth rules and laziness as stated in the property (reference '
    'xlmc/ref/lazy.py, self-tested against documented Excel facts)',
    'SPY is an eager function in the evaluator\'s private namespace '
    '(evaluator.namespace["SPY"]), registered without validate_args; it logs '
    'its first argument and returns its second',
    'comparisons inside conditions follow the C09 order (xlmc/ref/order.py)',
]

AT = 'Sheet1!Z1'
SHEET = 'Sheet1!'

# cell value tokens
ABSENT = object()
CONTENT = {'T': True, 'F': False, '0': 0, '2': 2, '-1': -1, '.5': 0.5,
           'B': ABSENT, 'E': '=1/0', 'N': '=NA()',
           # a cell whose value is IF's default branch (FALSE)
           'D': '=IF(FALSE,5)',
           # non-zero numbers far below 1e-15: TRUE like any non-zero number
           'S': 1e-16, 'M': -2.5e-300,
           # a zero that is a float
           'Z': 0.0}
REFVAL = {'T': True, 'F': False, '0': 0.0, '2': 2.0, '-1': -1.0, '.5': 0.5,
          'B': None, 'E': lazy.Err('#DIV/0!'), 'N': lazy.Err('#N/A'),
          'D': False, 'S': 1e-16, 'M': -2.5e-300, 'Z': 0.0}
T5 = ('T', 'F', '0', '2', 'B')
T6 = ('T', 'F', '0', '2', 'B', 'E', 'D', '.5', 'Z')

FIVE = ('lit', '5', 5.0)
ONE = ('lit', '1', 1.0)
XTXT = ('lit', '"x"', 'x')
VREF = ('ref', 'V1')
# a harmless precedent whose own formula holds a guarded reference back to
# the evaluated cell: =IF(FALSE, <evaluated cell>, 5)
WREF = ('ref', 'W1')
DIV0 = ('err', '1/0', '#DIV/0!')
NAERR = ('err', 'NA()', '#N/A')
NOSUCH = ('raise', 'NOSUCH()')
CYCLE = ('raise', 'Y1')
LTRUE = ('lit', 'TRUE', True)
LFALSE = ('lit', 'FALSE', False)


def S(k, x):
    return ('spy', k, x)


def decode(env):
    out = {c: REFVAL[t] for c, t in env.items()}
    out['V1'] = 7.0
    out['W1'] = 5.0
    return out


# -- execution -------------------------------------------------------------
def execute(text, env):
    """(observation, sorted list of distinct spy ids that ran, raw log).
    A per-case time-out (wall clock, lib.CASE_TIMEOUT) is retried once: on a
    machine that is heavily loaded by other checks a 1 ms case can exceed
    it; a genuine hang times out again and is reported."""
    res = _execute(text, env)
    if res[0] in ('timeout', 'compile-timeout'):
        res = _execute(text, env)
    return res


def _execute(text, env):
    cells = {AT: '=' + text, SHEET + 'V1': 7}
    for cell, tok in env.items():
        if CONTENT[tok] is not ABSENT:
            cells[SHEET + cell] = CONTENT[tok]
    if 'Y1' in text:
        cells[SHEET + 'Y1'] = '=Y2+1'
        cells[SHEET + 'Y2'] = '=Y1+1'
    if 'W1' in text:
        cells[SHEET + 'W1'] = '=IF(FALSE,%s,5)' % AT.split('!')[1]
    log = []

    def SPY(k, v):
        log.append(int(k))
        return v
    try:
        with lib.time_limit():
            model = lib.compile_dict(cells)
            ev = lib.Evaluator(model)
            ev.namespace['SPY'] = SPY
    except lib.CaseTimeout:
        return 'compile-timeout', [], []
    except Exception as exc:  # noqa: BLE001
        return ('compile-raise:%s' % type(lib.innermost(exc)).__name__,
                [], [])
    obs = lib.eval_addr(model, AT, ev)
    return obs, sorted(set(log)), log


def show(v):
    if isinstance(v, bool):
        return 'bool:%s' % v
    if isinstance(v, (int, float)):
        return 'num:%s' % lib.fnum(float(v))
    if isinstance(v, str):
        return 'text:%s' % v
    if v is None:
        return 'blank'
    if isinstance(v, lazy.Err):
        return 'err:%s' % v.code
    raise AssertionError(v)


def value_ok(v, obs):
    return obs == show(v) or (v is None and obs == 'num:0.0')


def how_many(evaluated, n):
    return 'all' if len(evaluated) == n else ('some' if evaluated else
                                               'none')


def ids(s):
    return ','.join(str(i) for i in sorted(s)) or '-'


def envstr(env):
    return ','.join('%s=%s' % kv for kv in sorted(env.items())) or '-'


# -- judging ---------------------------------------------------------------
def judge_tree(fam, tree, env, tags, nontrivial, ctx):
    """IF / NOT / nested expression: value, must-run and must-not-run."""
    text = lazy.render(tree)
    key = 'C10/%s/%s/%s' % (fam, text, envstr(env))
    try:
        r = lazy.evaluate(tree, decode(env))
    except lazy.Unjudged as u:
        ctx.skip('unjudged:' + u.args[0])
        return
    except lazy.Raises:
        ctx.skip('selected-path-raises(unspecified)')
        return
    obs, ran, _ = execute(text, env)
    want = '%s lazy' % show(r.value)
    forbidden = set(ran) & r.norun
    missing = r.run - set(ran)
    got = obs + (' lazy' if not forbidden and not missing else '') + \
        (' unselected-evaluated' if forbidden else '') + \
        (' required-spy-missing' if missing else '')
    good = value_ok(r.value, obs) and not forbidden and not missing
    if good:
        ctx.ok(key, '%s ran=%s' % (obs, ids(ran)), nontrivial)
    else:
        ctx.fail(key, tags, {'kind': 'tree', 'fam': fam, 'tree': tree,
                             'env': env, 'tags': list(tags),
                             'nontrivial': nontrivial},
                 want, got, nontrivial,
                 note='must run %s, must not run %s, ran %s' % (
                     ids(r.run), ids(r.norun), ids(ran)))


def judge_andor(fam, kind, args, env, spied, tags, ctx):
    """Top-level AND/OR; ``args`` are argument trees."""
    n = len(args)
    if spied:
        tree = (kind, [S(i, a) for i, a in enumerate(args)])
    else:
        tree = (kind, list(args))
    text = lazy.render(tree)
    key = 'C10/%s/%s/%s' % (fam, text, envstr(env))
    denv = decode(env)
    parts = []
    for a in args:
        try:
            parts.append(lazy.evaluate(a, denv))
        except lazy.Unjudged as u:
            ctx.skip('unjudged:' + u.args[0])
            return
        except lazy.Raises:
            ctx.skip('raising-argument-of-and-or(unspecified)')
            return
    arg_elems = [lazy.elements(p.value) for p in parts]
    nelem = sum(len(e) for e in arg_elems)
    nontrivial = nelem >= 2
    inputs = {'kind': 'andor', 'fam': fam, 'fn': kind, 'args': list(args),
              'env': env, 'spied': spied, 'tags': list(tags)}
    if not spied:
        try:
            acc = lazy.andor_any(kind, arg_elems)
        except lazy.Unjudged as u:
            ctx.skip('unjudged:' + u.args[0])
            return
        obs, ran, _ = execute(text, env)
        want = 'one-of:{%s}' % '|'.join(sorted(show(v) for v in acc))
        if any(value_ok(v, obs) for v in acc):
            ctx.ok(key, obs, nontrivial)
        else:
            ctx.fail(key, tags, inputs, want, obs, nontrivial)
        return
    obs, ran, _ = execute(text, env)
    evaluated = set(i for i in ran if i < n)
    got = '%s evaluated=%s' % (obs, how_many(evaluated, n))
    note = 'evaluated arguments: %s' % ids(evaluated)
    try:
        acc = lazy.andor_given(kind, arg_elems, evaluated)
    except lazy.Unjudged as u:
        ctx.skip('unjudged:' + u.args[0])
        return
    if acc is lazy.UNJUSTIFIED:
        ctx.fail(key, tags, inputs,
                 'all arguments evaluated or a deciding one among them',
                 got, nontrivial, note=note)
        return
    norun = set()
    for i in evaluated:
        norun |= parts[i].norun
    want = 'one-of:{%s} evaluated=%s' % (
        '|'.join(sorted(show(v) for v in acc)), how_many(evaluated, n))
    forbidden = set(ran) & norun
    if forbidden:
        got += ' unselected-evaluated'
    if any(value_ok(v, obs) for v in acc) and not forbidden:
        ctx.ok(key, '%s evaluated=%s' % (obs, ids(evaluated)), nontrivial)
    else:
        ctx.fail(key, tags, inputs, want, got, nontrivial, note=note)


# -- direct calls with thunk spies ------------------------------------------
CALLVAL = {
    'T': lambda: True, 'F': lambda: False, '0': lambda: 0, '2': lambda: 2,
    'B': lambda: None, 'E': lambda: lib.xlerrors.DivZeroExcelError(),
    'TT': lambda: lib.Boolean(True), 'TF': lambda: lib.Boolean(False),
    'T0': lambda: lib.Number(0), 'T2': lambda: lib.Number(2.5),
    'TB': lambda: lib.BLANK,
}
CALLREF = {'T': True, 'F': False, '0': 0.0, '2': 2.0, 'B': None,
           'E': lazy.Err('#DIV/0!'), 'TT': True, 'TF': False, 'T0': 0.0,
           'T2': 2.5, 'TB': None}
CALL_TOKENS = ('T', 'F', '0', '2', 'B', 'E', 'TT', 'TF', 'T0', 'T2', 'TB')


class Boom(Exception):
    """Raised by a poisoned thunk."""


def judge_call(fn, toks, mode, ctx):
    """fn in IF/AND/OR/NOT; toks: value tokens, 'X' = thunk that raises;
    mode 'thunk' (Expr arguments that log) or 'plain' (values)."""
    key = 'C10/CALL/%s/%s/%s' % (fn, mode, ','.join(toks))
    tags = ['fn:' + fn, 'route:call-' + mode]
    inputs = {'kind': 'call', 'fn': fn, 'toks': list(toks), 'mode': mode}
    log = []

    def thunk(i, tok):
        def run():
            log.append(i)
            if tok == 'X':
                raise Boom()
            return CALLVAL[tok]()
        return lib.func_xltypes.Expr(run)
    if mode == 'thunk':
        argv = [thunk(i, t) for i, t in enumerate(toks)]
    else:
        argv = [CALLVAL[t]() for t in toks]
    obs = lib.call(fn, *argv)
    ran = set(log)
    vals = [CALLREF.get(t) for t in toks]
    if fn == 'IF':
        try:
            t = lazy.condition_truth(vals[0])
        except lazy.Unjudged as u:
            ctx.skip('unjudged:' + u.args[0])
            return
        idx = 1 if t else 2
        if idx < len(toks) and toks[idx] == 'X':
            ctx.skip('selected-path-raises(unspecified)')
            return
        wantv = vals[idx] if idx < len(toks) else False
        other = 2 if t else 1
        if 'X' in toks or 'E' in toks[1:]:
            tags.append('unselected:poison')
        if mode == 'thunk':
            need = {0, idx} & set(range(len(toks)))
            want = '%s lazy' % show(wantv)
            got = obs + (' unselected-evaluated' if other in ran else '') + \
                (' required-spy-missing' if need - ran else '')
            good = value_ok(wantv, obs) and other not in ran and need <= ran
            if good:
                got += ' lazy'
        else:
            want, got = show(wantv), obs
            good = value_ok(wantv, obs)
        if good:
            ctx.ok(key, '%s ran=%s' % (obs, ids(ran)), True)
        else:
            ctx.fail(key, tags, inputs, want, got, True,
                     note='ran %s' % ids(ran))
        return
    if fn == 'NOT':
        try:
            wantv = not lazy.condition_truth(vals[0])
        except lazy.Unjudged as u:
            ctx.skip('unjudged:' + u.args[0])
            return
        ctx.check(key, obs, show(wantv), tags, inputs)
        return
    kind = fn.lower()
    arg_elems = [[v] for v in vals]
    if 'E' in toks:
        tags.append('has:error')
    nontrivial = len(toks) >= 2
    try:
        if mode == 'thunk':
            acc = lazy.andor_given(kind, arg_elems, ran)
        else:
            acc = lazy.andor_any(kind, arg_elems)
    except lazy.Unjudged as u:
        ctx.skip('unjudged:' + u.args[0])
        return
    got = '%s evaluated=%s' % (obs, how_many(ran, len(toks))) \
        if mode == 'thunk' else obs
    note = 'evaluated arguments: %s' % ids(ran)
    if acc is lazy.UNJUSTIFIED:
        ctx.fail(key, tags, inputs,
                 'all arguments evaluated or a deciding one among them',
                 got, nontrivial, note=note)
        return
    want = 'one-of:{%s}' % '|'.join(sorted(show(v) for v in acc))
    if mode == 'thunk':
        want += ' evaluated=%s' % how_many(ran, len(toks))
    if any(value_ok(v, obs) for v in acc):
        ctx.ok(key, '%s evaluated=%s' % (obs, ids(ran)), nontrivial)
    else:
        ctx.fail(key, tags, inputs, want, got, nontrivial, note=note)


# -- generators --------------------------------------------------------------
def branch_forms(k):
    """name -> tree; spy ids k, k+1."""
    return [
        ('c5', FIVE), ('cx', XTXT), ('refV', VREF), ('refW', WREF),
        ('spyW', S(k, WREF)),
        ('spy5', S(k, FIVE)), ('spyV', S(k, VREF)),
        ('div0', DIV0), ('nosuch', NOSUCH), ('cycle', CYCLE),
        # an error value written as a literal
        ('errlit', ('err', '#N/A', '#N/A')),
        ('spy-div0', S(k, DIV0)), ('spy-nosuch', S(k, NOSUCH)),
        ('spy-cycle', S(k, CYCLE)),
        ('nosuch-of-spy', ('wrapraise', 'NOSUCH', S(k, FIVE))),
        ('nested-if-T', ('if', LTRUE, S(k, ONE), S(k + 1, NOSUCH))),
        ('nested-if-F', ('if', LFALSE, S(k, CYCLE), S(k + 1, ONE))),
        ('and-of-spies', ('and', [S(k, LTRUE), S(k + 1, VREF)])),
        ('or-with-poison', ('or', [S(k, LFALSE), S(k + 1, NOSUCH)])),
    ]


POISON_FORMS = ('div0', 'errlit', 'nosuch', 'cycle', 'spy-div0', 'spy-nosuch',
                'spy-cycle', 'nosuch-of-spy', 'nested-if-T', 'nested-if-F')
SPY_FORMS = ('spy5', 'spyV', 'spyW', 'spy-div0', 'spy-nosuch', 'spy-cycle',
             'nosuch-of-spy', 'nested-if-T', 'nested-if-F')
# (form of the selected branch, form of the unselected branch); which of
# them is a and which is b follows from the reference truth of the condition
ORIENTED_PAIRS = (
    ('spy5', 'spy-nosuch'), ('spyV', 'spy-cycle'),
    ('spy-div0', 'nosuch-of-spy'), ('omitted', 'spy-div0'),
    ('nested-if-T', 'nosuch'), ('c5', 'cycle'), ('spy5', 'nested-if-F'),
    ('nested-if-F', 'spy-nosuch'),
)


def oriented(truth, selected, unselected):
    """(a name, b name) with the poison in the unselected position."""
    if selected == 'omitted':
        # IF(c, poison) for a false c; IF(c, harmless) for a true one
        return ('spy5', 'omitted') if truth else (unselected, 'omitted')
    return (selected, unselected) if truth else (unselected, selected)


def branch_pair(aname, bname):
    a = dict(branch_forms(10))[aname]
    b = None if bname == 'omitted' else dict(branch_forms(20))[bname]
    return a, b


def all_pairs():
    names = [n for n, _ in branch_forms(0)]
    return [(a, b) for a in names for b in names + ['omitted']]


def simple_conditions():
    """(name, tree, env) triples."""
    out = []
    for text, v in (('TRUE', True), ('FALSE', False), ('0', 0.0),
                    ('2', 2.0), ('-1', -1.0), ('0.5', 0.5)):
        out.append(('lit', ('lit', text, v), {}))
    out.append(('lit', ('lit', '1E-16', 1e-16), {}))
    for tok in ('T', 'F', '0', '2', '-1', '.5', 'B', 'S', 'M'):
        out.append(('ref', ('ref', 'A1'), {'A1': tok}))
        out.append(('spyref', S(0, ('ref', 'A1')), {'A1': tok}))
    for tok in ('T', 'F', '0', '2', 'B'):
        out.append(('cmp', ('gt', ('ref', 'A1'), ONE), {'A1': tok}))
    return out


LEAF_CELLS = ('A1', 'B1', 'C1')
OPS = (('A', 2), ('O', 2), ('I2', 2), ('I3', 3), ('A3', 3), ('O3', 3))


@functools.lru_cache(None)
def shapes(depth, maxleaves):
    """Condition shapes with at most ``maxleaves`` leaves: 'L' (cell), 'G'
    (cell>1), ('N', x), ('A'|'O'|'I2', x, y), ('I3'|'A3'|'O3', x, y, z)."""
    out = [('L', 1), ('G', 1)] if maxleaves >= 1 else []
    if depth == 0:
        return tuple(out)
    res = list(out)
    for s, n in shapes(depth - 1, maxleaves):
        res.append((('N', s), n))

    def rec(k, left):
        if k == 0:
            yield (), 0
            return
        for s, n in shapes(depth - 1, left - (k - 1)):
            for rest, m in rec(k - 1, left - n):
                yield (s,) + rest, n + m
    for op, ar in OPS:
        for args, n in rec(ar, maxleaves):
            res.append(((op,) + args, n))
    seen, uniq = set(), []
    for s, n in res:
        if s not in seen:
            seen.add(s)
            uniq.append((s, n))
    return tuple(uniq)


def shape_depth(s):
    return 0 if isinstance(s, str) else 1 + max(shape_depth(x) for x in s[1:])


def build(shape, spy_leaves=False):
    """Shape -> tree, leaves numbered left to right A1, B1, C1."""
    counter = [0]

    def go(s):
        if isinstance(s, str):
            i = counter[0]
            counter[0] += 1
            leaf = ('ref', LEAF_CELLS[i])
            if spy_leaves:
                leaf = S(100 + i, leaf)
            return ('gt', leaf, ONE) if s == 'G' else leaf
        op = s[0]
        subs = [go(x) for x in s[1:]]
        if op == 'N':
            return ('not', subs[0])
        if op in ('A', 'A3'):
            return ('and', subs)
        if op in ('O', 'O3'):
            return ('or', subs)
        return ('if',) + tuple(subs)
    return go(shape)


@functools.lru_cache(None)
def nested_shapes(depth_lo, depth_hi):
    return tuple((s, n) for s, n in shapes(depth_hi, 3)
                 if depth_lo <= shape_depth(s) <= depth_hi)


def andor_scalar_kinds():
    """Argument kinds for position i (own cell): (name, tree-maker, token)."""
    kinds = []
    for tok in ('T', 'F', '0', '2', 'B', 'E', 'N', 'D', 'S'):
        kinds.append(('ref' + tok, None, tok))
    for name, tree in (('TRUE', LTRUE), ('FALSE', LFALSE),
                       ('0', ('lit', '0', 0.0)), ('2', ('lit', '2', 2.0)),
                       ('1/0', DIV0), ('NA()', NAERR)):
        kinds.append(('lit' + name, tree, None))
    return kinds


ARG_CELLS = ('A1', 'B1', 'C1', 'D1')
RNG12 = ('rng', 'A1:B1', ['A1', 'B1'])
RNG12B = ('rng', 'A2:B2', ['A2', 'B2'])
RNG22 = ('rng', 'A1:B2', ['A1', 'B1', 'A2', 'B2'])


def andor_forms(tier):
    """Deterministic list of (form name, args, env)."""
    out = []
    kinds = andor_scalar_kinds()
    nmax = 4 if tier == 'thorough' else 3
    for n in range(1, nmax + 1):
        for combo in itertools.product(range(len(kinds)), repeat=n):
            args, env = [], {}
            for pos, ki in enumerate(combo):
                name, tree, tok = kinds[ki]
                if tree is None:
                    args.append(('ref', ARG_CELLS[pos]))
                    env[ARG_CELLS[pos]] = tok
                else:
                    args.append(tree)
            out.append(('scalars%d' % n, args, env))
    if tier == 'quick':
        # four arguments over cells only
        for combo in itertools.product(('T', 'F', '0', 'B', 'E'), repeat=4):
            out.append(('cells4', [('ref', c) for c in ARG_CELLS],
                        dict(zip(ARG_CELLS, combo))))
    for combo in itertools.product(T6, repeat=2):
        out.append(('rng12', [RNG12], dict(zip(RNG12[2], combo))))
    for combo in itertools.product(T6, repeat=4):
        env = dict(zip(RNG22[2], combo))
        out.append(('rng22', [RNG22], env))
        out.append(('rng12+rng12', [RNG12, RNG12B], env))
    for combo in itertools.product(T6, repeat=3):
        env = dict(zip(('A1', 'B1', 'C1'), combo))
        out.append(('cell+rng12', [('ref', 'C1'), RNG12], env))
        out.append(('rng12+cell', [RNG12, ('ref', 'C1')], env))
        inner = ('if', ('ref', 'A1'), S(10, ('ref', 'B1')), S(11, DIV0))
        out.append(('if+cell', [inner, ('ref', 'C1')], env))
        out.append(('cell+if', [('ref', 'C1'), inner], env))
    if tier == 'thorough':
        for combo in itertools.product(T6, repeat=5):
            env = dict(zip(('A1', 'B1', 'A2', 'B2', 'C1'), combo))
            out.append(('cell+rng22', [('ref', 'C1'), RNG22], env))
            out.append(('rng22+cell', [RNG22, ('ref', 'C1')], env))
    return out


def call_cases(tier):
    out = []
    conds = CALL_TOKENS
    branches = ('2', 'T2', 'E', 'X', 'TB')
    for c in conds:
        for a in branches:
            out.append(('IF', (c, a), 'thunk'))
            for b in branches:
                out.append(('IF', (c, a, b), 'thunk'))
                # plain values are evaluated by the caller: no poison there
                if 'X' not in (a, b) and 'E' not in (a, b):
                    out.append(('IF', (c, a, b), 'plain'))
    for c in conds:
        out.append(('NOT', (c,), 'thunk'))
        out.append(('NOT', (c,), 'plain'))
    toks = ('T', 'F', '0', '2', 'B', 'E') if tier == 'quick' else \
        CALL_TOKENS
    for fn in ('AND', 'OR'):
        for n in (1, 2, 3):
            for combo in itertools.product(toks, repeat=n):
                out.append((fn, combo, 'thunk'))
                out.append((fn, combo, 'plain'))
    return out


# -- the same evaluator across truth assignments ----------------------------
# "all truth assignments to the referenced cells": also an assignment that is
# made on an evaluator which has already evaluated the formula under another
# one - in particular one under which the poisoned branch was selected and the
# evaluation failed, as it must.
FLIP_POISON = {
    'nosuch': ('=IF(A1,NOSUCH(1),7)', None, 'raise'),
    'nosuch-else': ('=IF(A1,7,NOSUCH(1))', None, 'raise-else'),
    'cycle': ('=IF(A1,D1,7)', '=C1*2', 'raise'),
    'cycle2': ('=IF(A1,Y1,7)', None, 'raise'),
    'div0': ('=IF(A1,1/0,7)', None, 'err'),
    'guarded-and': ('=IF(AND(A1:A2,B1),NOSUCH(),7)', None, 'raise'),
}
FLIP_TARGET = {
    'plus': ('=C1+1', lambda a, c: c + 1),
    'if-same-guard': ('=IF(A1,C1,C1+1)', lambda a, c: c if a else c + 1),
    'two-uses': ('=IF(NOT(A1),C1*10,C1)+C1',
                 lambda a, c: (c * 10 if not a else c) + c),
}
FLIP_TOKENS = ('T', 'F', '0', '2')
FLIP_LEN = {'quick': 3, 'thorough': 4}


def flip_cases(tier):
    out = []
    for pname in sorted(FLIP_POISON):
        for tname in sorted(FLIP_TARGET):
            for seq in itertools.product(FLIP_TOKENS, repeat=FLIP_LEN[tier]):
                out.append((pname, tname, seq))
    return out


def flip_want(pname, tname, tok):
    truth = bool(REFVAL[tok])
    mode = FLIP_POISON[pname][2]
    poisoned = truth if mode != 'raise-else' else not truth
    if poisoned:
        return 'err:#DIV/0!' if mode == 'err' else 'raise'
    return 'num:%s' % lib.fnum(float(FLIP_TARGET[tname][1](truth, 7.0)))


def flip_model(pname, tname):
    c1, d1, _ = FLIP_POISON[pname]
    cells = {SHEET + 'A1': True, SHEET + 'A2': True, SHEET + 'B1': True,
             SHEET + 'C1': c1, AT: FLIP_TARGET[tname][0],
             SHEET + 'Y1': '=Y2+1', SHEET + 'Y2': '=Y1+1'}
    if d1:
        cells[SHEET + 'D1'] = d1
    model = lib.compile_dict(cells)
    return model, lib.Evaluator(model)


def judge_flip(pname, tname, seq, ctx):
    key = 'C10/FLIP/%s/%s/%s' % (pname, tname, ''.join(seq))
    tags = ['fn:IF', 'family:flip', 'poison:' + pname, 'target:' + tname]
    inputs = {'kind': 'flip', 'poison': pname, 'target': tname,
              'seq': list(seq), 'tags': tags}
    try:
        with lib.time_limit():
            model, ev = flip_model(pname, tname)
    except Exception as exc:  # noqa: BLE001
        ctx.fail(key, tags, inputs, 'a compiled model',
                 'compile-raise:%s' % type(lib.innermost(exc)).__name__, True)
        return
    wants, gots = [], []
    for tok in seq:
        try:
            ev.set_cell_value(SHEET + 'A1', CONTENT[tok])
        except Exception as exc:  # noqa: BLE001
            gots.append('set-raise:%s' % type(exc).__name__)
            wants.append('-')
            break
        obs = lib.eval_addr(model, AT, ev)
        want = flip_want(pname, tname, tok)
        wants.append(want)
        gots.append('raise' if want == 'raise' and obs.startswith('raise:')
                    and 'Timeout' not in obs and obs != 'raise:RecursionError'
                    else obs)
    nontrivial = len(set(wants)) > 1
    if wants == gots:
        ctx.ok(key, '|'.join(gots), nontrivial)
    else:
        ctx.fail(key, tags, inputs, ' ; '.join(wants), ' ; '.join(gots),
                 nontrivial, note='A1 := %s in turn, %s evaluated after each '
                 'on the same evaluator' % ('/'.join(seq), AT))


# -- truth assignments to cells that did not exist when the model was compiled
ABSENT_TREES = (
    ('and', [('ref', 'A1'), ('ref', 'B1')]),
    ('or', [('ref', 'A1'), ('ref', 'B1')]),
    ('if', ('ref', 'A1'), ('lit', '1', 1.0), ('lit', '2', 2.0)),
    ('if', ('and', [('ref', 'A1'), ('ref', 'B1')]), ('lit', '1', 1.0),
     ('lit', '2', 2.0)),
    ('not', ('ref', 'A1')),
)


def run_absent(ctx):
    """The model holds only the formula; A1 and B1 get their first values -
    FALSE and 0 among them - through set_cell_value."""
    for ti, tree in enumerate(ABSENT_TREES):
        text = lazy.render(tree)
        for ta in ('T', 'F', '0', '2'):
            for tb in ('T', 'F', '0', '2'):
                for how in ('evaluator', 'model'):
                    env = {'A1': ta, 'B1': tb}
                    key = 'C10/ABSENT/%s/%s/%s' % (text, envstr(env), how)
                    inputs = {'kind': 'absent', 'tree': ti}
                    tags = ['family:absent-cells', 'set:' + how]
                    try:
                        want = lazy.evaluate(tree, decode(env))
                    except (lazy.Unjudged, lazy.Raises):
                        ctx.skip('unjudged')
                        continue
                    model = lib.compile_dict({AT: '=' + text})
                    ev = lib.Evaluator(model)
                    setter = ev.set_cell_value if how == 'evaluator' \
                        else model.set_cell_value
                    for c, t in sorted(env.items()):
                        lib.observe(setter, SHEET + c, CONTENT[t])
                    got = lib.eval_addr(model, AT, ev)
                    if value_ok(want.value, got):
                        ctx.ok(key, got, True)
                    else:
                        ctx.fail(key, tags, inputs, show(want.value), got,
                                 True)


# -- truth assignments applied one after the other to one model ------------------
# "For all truth assignments to the referenced cells": the referenced cell may
# be a formula two cells away from the input that a history changes, and the
# model and evaluator the same for the whole history.
SEQ_FORMS = (
    ('if', '=IF(B1,"then","else")', lambda t: 'text:then' if t
     else 'text:else'),
    ('if-poison', '=IF(B1,1,1/0)', lambda t: 'num:1.0' if t
     else 'err:#DIV/0!'),
    ('and', '=AND(B1,E1)', lambda t: 'bool:%s' % t),
    ('or', '=OR(B1,F1)', lambda t: 'bool:%s' % t),
    ('not', '=NOT(B1)', lambda t: 'bool:%s' % (not t)),
    ('if-nested', '=IF(NOT(B1),IF(B1,1,2),IF(B1,3,4))', lambda t: 'num:3.0'
     if t else 'num:2.0'),
)
SEQ_VALUES = (5, -5, 0)


def run_seq(ctx):
    import itertools as it
    for fname, text, want in SEQ_FORMS:
        for seq in it.product(SEQ_VALUES, repeat=3):
            for how in ('evaluator', 'model'):
                model = lib.compile_dict({
                    AT: text, SHEET + 'D1': 1, SHEET + 'C1': '=D1>0',
                    SHEET + 'B1': '=C1', SHEET + 'E1': True,
                    SHEET + 'F1': False})
                ev = lib.Evaluator(model)
                setter = ev.set_cell_value if how == 'evaluator' \
                    else model.set_cell_value
                lib.observe(ev.evaluate, AT)
                for k, v in enumerate(seq):
                    lib.observe(setter, SHEET + 'D1', v)
                    got = lib.observe(ev.evaluate, AT)
                    key = 'C10/SEQ/%s/D1=%s/step=%d/%s' % (
                        fname, ','.join(map(str, seq)), k, how)
                    ctx.check(key, got, want(v > 0),
                              ['family:assignments-in-sequence',
                               'fn:' + fname, 'set:' + how],
                              {'kind': 'seq'}, True,
                              note='one model and evaluator; %s with B1 = C1 '
                              '= D1>0' % text)
                lib.clear_caches()


# -- ranges on another sheet next to unqualified references ---------------------
# The cells of the formula's own sheet are meant by B1, C1, D1 - also after a
# range on another sheet was read, where cells of the same coordinates hold
# the opposite.
def run_xsheet(ctx):
    import itertools as it
    forms = (
        ('and-range-first', '=AND(Data!A1:A2,B1)',
         lambda a1, a2, b: a1 and a2 and b),
        ('or-range-first', '=OR(Data!A1:A2,B1)',
         lambda a1, a2, b: a1 or a2 or b),
        ('and-ref-first', '=AND(B1,Data!A1:A2)',
         lambda a1, a2, b: a1 and a2 and b),
        ('if-or', '=IF(OR(Data!A1:A2),C1,D1)',
         lambda a1, a2, b: 'c' if (a1 or a2) else 'd'),
        ('if-and-b', '=IF(AND(Data!A2:A2,B1),C1,D1)',
         lambda a1, a2, b: 'c' if (a2 and b) else 'd'),
        ('not-or', '=NOT(OR(Data!A1:A1,B1))',
         lambda a1, a2, b: not (a1 or b)),
        ('nested', '=IF(B1,IF(AND(Data!A1:A2),C1,D1),IF(OR(Data!A1:A2,B1),'
         'D1,C1))',
         lambda a1, a2, b: ('c' if (a1 and a2) else 'd') if b
         else ('d' if (a1 or a2 or b) else 'c')),
    )
    for fname, text, want in forms:
        for a1, a2, b in it.product((True, False), repeat=3):
            cells = {AT: text, SHEET + 'B1': b, SHEET + 'C1': 'own-c',
                     SHEET + 'D1': 'own-d', 'Data!A1': a1, 'Data!A2': a2,
                     'Data!B1': not b, 'Data!C1': 'other-c',
                     'Data!D1': 'other-d'}
            got = lib.eval_formula(text, {k: v for k, v in cells.items()
                                          if k != AT}, AT)
            w = want(a1, a2, b)
            w = {'c': 'text:own-c', 'd': 'text:own-d'}.get(
                w, 'bool:%s' % bool(w))
            ctx.check('C10/XSHEET/%s/A1=%s,A2=%s,B1=%s' % (
                fname, 'TF'[not a1], 'TF'[not a2], 'TF'[not b]), got, w,
                ['family:range-on-another-sheet', 'form:' + fname],
                {'kind': 'xsheet'}, True, note=text)


# -- every argument count up to the 255 that Excel accepts --------------------------
COUNTS = (1, 2, 3, 29, 30, 31, 100, 253, 254, 255)


def run_counts(ctx):
    for fn, neutral, deciding in (('AND', 'TRUE', 'FALSE'),
                                  ('OR', 'FALSE', 'TRUE')):
        for n in COUNTS:
            for where in ('none', 'first', 'last', 'cell-last'):
                args = [neutral] * n
                cells = {SHEET + 'A1': deciding == 'TRUE'}
                if where == 'first':
                    args[0] = deciding
                elif where == 'last':
                    args[-1] = deciding
                elif where == 'cell-last':
                    args[-1] = 'A1'
                decided = where != 'none'
                value = (deciding == 'TRUE') if decided else \
                    (neutral == 'TRUE')
                text = '=%s(%s)' % (fn, ','.join(args))
                for wrap, want in (('%s', 'bool:%s' % value),
                                   ('IF(%s,"y","n")',
                                    'text:%s' % ('y' if value else 'n'))):
                    got = lib.eval_formula('=' + wrap % text[1:], cells, AT)
                    ctx.check('C10/COUNTS/%s/n=%d/%s/%s' % (
                        fn, n, where, 'if' if 'IF' in wrap else 'plain'),
                        got, want, ['family:argument-counts', 'fn:' + fn,
                                    'spell:n=%d' % n], {'kind': 'counts'},
                        True, note='%s(...) with %d arguments' % (fn, n))


# -- the first call of a function in a process --------------------------------
# Laziness must not depend on how many arguments the FIRST call of IF / AND /
# OR in the process happened to have.  Each sequence runs in a fresh
# interpreter: (formula, cells, expected observation, spies that may not run).
FIRST_OPENERS = (
    ('IF-2', '=IF(A1,5)', {'A1': True}, 'num:5.0'),
    ('IF-1', '=IF(A1)', {'A1': True}, 'bool:True'),
    ('AND-1', '=AND(A1)', {'A1': True}, 'bool:True'),
    ('OR-1', '=OR(A1)', {'A1': False}, 'bool:False'),
    ('IF-3', '=IF(A1,5,7)', {'A1': False}, 'num:7.0'),
)
FIRST_PROBES = (
    ('if-else-poison', '=IF(A1,SPY(1,5),SPY(2,NOSUCH()))', {'A1': True},
     'num:5.0', [2]),
    ('if-then-poison', '=IF(A1,SPY(1,1/0),SPY(2,7))', {'A1': False},
     'num:7.0', [1]),
    ('if-else-cycle', '=IF(A1,5,Z1+1)', {'A1': 2}, 'num:5.0', []),
    ('and-short', '=AND(A1,SPY(3,NOSUCH()))', {'A1': False}, 'bool:False',
     [3]),
    ('or-short', '=OR(A1,SPY(4,NOSUCH()))', {'A1': True}, 'bool:True', [4]),
    ('and-3', '=AND(A1,A2,SPY(5,NOSUCH()))', {'A1': True, 'A2': 0},
     'bool:False', [5]),
)


def run_firstcall(ctx):
    import json
    import os
    import subprocess
    import sys
    root = os.path.dirname(os.path.dirname(os.path.dirname(
        os.path.abspath(__file__))))
    for oname, oform, ocells, owant in FIRST_OPENERS:
        seq = [[oform, ocells]] + [[f, c] for _, f, c, _, _ in FIRST_PROBES]
        p = subprocess.run(
            [sys.executable, '-m', 'xlmc.checks.c10_proc', json.dumps(seq)],
            cwd=root, stdout=subprocess.PIPE, stderr=subprocess.DEVNULL,
            text=True, timeout=300)
        inputs = {'kind': 'firstcall'}
        tags = ['family:first-call-in-process', 'opener:' + oname]
        if p.returncode != 0 or not p.stdout.strip():
            ctx.fail('C10/FIRST/%s/process' % oname, tags, inputs,
                     'sequence runs', 'exit %s' % p.returncode)
            continue
        res = json.loads(p.stdout.strip().splitlines()[-1])
        ctx.check('C10/FIRST/%s/opener' % oname, res[0][0], owant, tags,
                  inputs, False)
        for (pname, f, c, want, forbidden), (obs, ran) in zip(FIRST_PROBES,
                                                            res[1:]):
            got = obs + (' ran-unselected:%s' % sorted(set(ran) & set(
                forbidden)) if set(ran) & set(forbidden) else '')
            ctx.check('C10/FIRST/%s/%s' % (oname, pname), got, want,
                      tags + ['probe:' + pname], inputs, True,
                      note='fresh process: %s then %s' % (oform, f))


# -- plan / shards -----------------------------------------------------------
def plan(tier):
    shards = []
    conds = simple_conditions()
    for i in range(len(conds)):
        shards.append({'fam': 'IFS', 'i': i})
    d2 = nested_shapes(1, 2)
    step = 6
    for lo in range(0, len(d2), step):
        shards.append({'fam': 'IFN', 'lo': lo, 'hi': min(len(d2), lo + step),
                       'dlo': 1, 'dhi': 2,
                       'pairs': 'all' if tier == 'thorough' else 'rot1'})
    if tier == 'thorough':
        d3 = nested_shapes(3, 3)
        for lo in range(0, len(d3), 12):
            shards.append({'fam': 'IFN', 'lo': lo,
                           'hi': min(len(d3), lo + 12), 'dlo': 3, 'dhi': 3,
                           'pairs': 'rot1'})
    d1 = nested_shapes(0, 1)
    for lo in range(0, len(d1), 10):
        shards.append({'fam': 'TOP', 'lo': lo, 'hi': min(len(d1), lo + 10)})
    nforms = len(andor_forms(tier))
    chunk = 400
    for lo in range(0, nforms, chunk):
        shards.append({'fam': 'ANDOR', 'tier': tier, 'lo': lo,
                       'hi': min(nforms, lo + chunk)})
    for pname in sorted(FLIP_POISON):
        shards.append({'fam': 'FLIP', 'tier': tier, 'poison': pname})
    shards.append({'fam': 'FIRST', 'weight': 5})
    shards.append({'fam': 'ABSENT'})
    shards.append({'fam': 'SEQ'})
    shards.append({'fam': 'XSHEET'})
    shards.append({'fam': 'COUNTS'})
    ncall = len(call_cases(tier))
    for lo in range(0, ncall, 500):
        shards.append({'fam': 'CALL', 'tier': tier, 'lo': lo,
                       'hi': min(ncall, lo + 500)})
    return shards


def if_tags(cname, aname, bname, tree, env):
    return ['fn:IF', 'spell:cond=' + cname, 'spell:a=' + aname,
            'spell:b=' + bname]


def if_nontrivial(tree, env):
    """Laziness observable: the unselected branch holds a spy or a poison,
    or the selected branch is the omitted one."""
    try:
        r = lazy.evaluate(tree, decode(env))
    except (lazy.Unjudged, lazy.Raises):
        return False
    if r.norun:
        return True
    c = lazy.evaluate(tree[1], decode(env))
    t = lazy.condition_truth(c.value)
    branches = tree[2:]
    idx = 0 if t else 1
    if idx >= len(branches):
        return True
    other = branches[1 - idx] if len(branches) > 1 else None
    return other is not None and other[0] in ('err', 'raise', 'wrapraise')


def run_if(cname, cond, env, aname, bname, fam, ctx):
    a, b = branch_pair(aname, bname)
    tree = ('if', cond, a) if b is None else ('if', cond, a, b)
    judge_tree(fam, tree, env, if_tags(cname, aname, bname, tree, env),
               if_nontrivial(tree, env), ctx)


G4 = ('T', 'F', '0', '2')


def leaf_kinds(shape):
    if isinstance(shape, str):
        return [shape]
    out = []
    for x in shape[1:]:
        out += leaf_kinds(x)
    return out


def leaf_envs(shape):
    """All assignments; a cell compared with '>' takes no blank (C09 does
    not fix the order of a blank)."""
    doms = [G4 if k == 'G' else T5 for k in leaf_kinds(shape)]
    for combo in itertools.product(*doms):
        yield dict(zip(LEAF_CELLS, combo))


def top_nontrivial(env):
    return any(t in ('0', '2', 'B', '-1', '.5') for t in env.values())


def run_shard(shard, ctx):
    fam = shard['fam']
    if fam == 'IFS':
        cname, cond, env = simple_conditions()[shard['i']]
        for aname, bname in all_pairs():
            run_if(cname, cond, env, aname, bname, 'IFS', ctx)
        ctx.sample({'family': 'IFS', 'formula': '=' + lazy.render(
            ('if', cond) + tuple(x for x in branch_pair('spy5', 'spy-nosuch')
                                 )), 'cells': env})
    elif fam == 'IFN':
        sh = nested_shapes(shard['dlo'], shard['dhi'])
        for idx in range(shard['lo'], shard['hi']):
            shape, n = sh[idx]
            plain = build(shape)
            spied = build(shape, spy_leaves=True)
            for j, env in enumerate(leaf_envs(shape)):
                try:
                    truth = lazy.condition_truth(
                        lazy.evaluate(plain, decode(env)).value)
                except lazy.Unjudged as u:
                    ctx.skip('unjudged:' + u.args[0])
                    continue
                if shard['pairs'] == 'all':
                    pairs = ORIENTED_PAIRS
                else:
                    pairs = (ORIENTED_PAIRS[(idx + j) % 8],)
                for pi, (sel, unsel) in enumerate(pairs):
                    cond = spied if (pi + j + idx) % 2 else plain
                    aname, bname = oriented(truth, sel, unsel)
                    run_if('nested', cond, env, aname, bname, 'IFN', ctx)
        shape, n = sh[shard['lo']]
        ctx.sample({'family': 'IFN', 'formula': '=' + lazy.render(
            ('if', build(shape)) + tuple(branch_pair('spy5', 'spy-nosuch'))),
            'cells': 'all assignments of TRUE/FALSE/0/2/blank; the poisoned '
                     'branch is the one the reference does not select'})
    elif fam == 'TOP':
        sh = nested_shapes(0, 1)
        for idx in range(shard['lo'], shard['hi']):
            shape, n = sh[idx]
            for env in leaf_envs(shape):
                for wrap in ('plain', 'not', 'spied'):
                    tree = build(shape, spy_leaves=(wrap == 'spied'))
                    if wrap == 'not':
                        tree = ('not', tree)
                    judge_tree('TOP', tree, env, ['fn:' + (
                        'NOT' if wrap == 'not' else 'TOP')],
                        top_nontrivial(env), ctx)
    elif fam == 'ANDOR':
        forms = andor_forms(shard['tier'])
        for idx in range(shard['lo'], shard['hi']):
            name, args, env = forms[idx]
            for kind in ('and', 'or'):
                tags = andor_tags(kind, name, args, env)
                for spied in (True, False):
                    route = 'route:spied' if spied else 'route:unspied'
                    judge_andor('ANDOR', kind, args, env, spied,
                                tags + [route], ctx)
        name, args, env = forms[shard['lo']]
        ctx.sample({'family': 'ANDOR', 'formula': '=' + lazy.render(
            ('and', [S(i, a) for i, a in enumerate(args)])), 'cells': env})
    elif fam == 'COUNTS':
        run_counts(ctx)
    elif fam == 'XSHEET':
        run_xsheet(ctx)
        ctx.sample({'family': 'XSHEET', 'formula': '=AND(Data!A1:A2,B1)',
                    'cells': {'Sheet1!B1': True, 'Data!B1': False}})
    elif fam == 'SEQ':
        run_seq(ctx)
        ctx.sample({'family': 'SEQ', 'cells': {
            'Z1': '=IF(B1,"then","else")', 'B1': '=C1', 'C1': '=D1>0'},
            'history': 'D1 := 5, evaluate; D1 := -5, evaluate; ...'})
    elif fam == 'ABSENT':
        run_absent(ctx)
        ctx.sample({'family': 'ABSENT', 'cells': {'Z1': '=AND(A1,B1)'},
                    'history': 'set A1 := FALSE; set B1 := TRUE; evaluate'})
    elif fam == 'FIRST':
        run_firstcall(ctx)
        ctx.sample({'family': 'FIRST', 'fresh process': [
            FIRST_OPENERS[0][1], FIRST_PROBES[0][1]]})
    elif fam == 'FLIP':
        for pname, tname, seq in flip_cases(shard['tier']):
            if pname == shard['poison']:
                judge_flip(pname, tname, seq, ctx)
        ctx.sample({'family': 'FLIP', 'cells': {
            'C1': FLIP_POISON[shard['poison']][0], 'Z1': '=C1+1'},
            'history': 'A1 := TRUE, evaluate Z1 (fails); A1 := FALSE, '
                       'evaluate Z1 on the same evaluator (8)'})
    elif fam == 'CALL':
        cases = call_cases(shard['tier'])
        for fn, toks, mode in cases[shard['lo']:shard['hi']]:
            judge_call(fn, toks, mode, ctx)
    else:
        raise AssertionError(shard)


def andor_tags(kind, name, args, env):
    tags = ['fn:' + kind.upper(), 'spell:form=' + name,
            'spell:n=%d' % len(args)]
    denv = decode(env)
    has_err = False
    for a in args:
        try:
            r = lazy.evaluate(a, denv)
        except (lazy.Unjudged, lazy.Raises):
            continue
        if any(isinstance(e, lazy.Err) for e in lazy.elements(r.value)):
            has_err = True
    if has_err:
        tags.append('has:error')
    if any(a[0] == 'rng' for a in args):
        tags.append('has:range')
    return tags


def _tup(x):
    """JSON lists back to the tuple trees the generators produce (argument
    lists of and/or stay lists)."""
    if isinstance(x, list):
        if x and x[0] in ('and', 'or'):
            return (x[0], [_tup(a) for a in x[1]])
        if x and x[0] == 'rng':
            return ('rng', x[1], list(x[2]))
        return tuple(_tup(a) for a in x)
    return x


def replay(inputs, ctx):
    kind = inputs['kind']
    if kind == 'tree':
        judge_tree(inputs['fam'], _tup(inputs['tree']), inputs['env'],
                   inputs['tags'], inputs['nontrivial'], ctx)
    elif kind == 'andor':
        judge_andor(inputs['fam'], inputs['fn'],
                    [_tup(a) for a in inputs['args']], inputs['env'],
                    inputs['spied'], inputs['tags'], ctx)
    elif kind == 'absent':
        run_absent(ctx)
    elif kind == 'seq':
        run_seq(ctx)
    elif kind == 'xsheet':
        run_xsheet(ctx)
    elif kind == 'counts':
        run_counts(ctx)
    elif kind == 'firstcall':
        run_firstcall(ctx)
    elif kind == 'flip':
        judge_flip(inputs['poison'], inputs['target'], tuple(inputs['seq']),
                   ctx)
    else:
        judge_call(inputs['fn'], tuple(inputs['toks']), inputs['mode'], ctx)


def selftest():
    lazy.selftest()
    assert len(branch_forms(0)) == 19 and len(all_pairs()) == 19 * 20
    assert len(simple_conditions()) == 30
    assert len(shapes(1, 3)) == 40
    assert lazy.render(build(('I3', 'L', ('N', 'G'), 'L'))) == \
        'IF(A1,NOT(B1>1),C1)'
    assert lazy.render(build(('A', 'L', 'L'), True)) == \
        'AND(SPY(100,A1),SPY(101,B1))'
    a, b = branch_pair('nested-if-T', 'nosuch-of-spy')
    assert lazy.render(('if', LTRUE, a, b)) == \
        'IF(TRUE,IF(TRUE,SPY(10,1),SPY(11,NOSUCH())),NOSUCH(SPY(20,5)))'
    # the spy harness itself: a spy that runs is logged, the value passes
    obs, ran, log = execute('SPY(3,5)+SPY(4,V1)', {})
    assert (obs, ran) == ('num:12.0', [3, 4]), (obs, ran)
    import json
    for tree in (build(('I3', 'L', ('A', 'G', 'L')), True),
                 ('and', [RNG12, S(0, DIV0)])):
        assert _tup(json.loads(json.dumps(tree))) == tree


TECHNIQUE = ('bounded-exhaustive enumeration of condition shapes x branch '
             'forms x truth assignments, evaluated by the real Evaluator with '
             'spy functions in its private namespace, against a reference '
             'lazy evaluator; AND/OR judged conditionally on the observed '
             'spy log')
LEVEL_TEXT = ('Every IF over 30 simple conditions x 342 branch pairs and '
              'over every NOT/AND/OR/IF/comparison condition shape of depth '
              '<= 2 (thorough 3) on <= 3 cells x all assignments of '
              'TRUE/FALSE/0/2/blank, with poisoned unselected branches (error '
              'value, unknown function, circular reference, each also inside '
              'a spy); every AND/OR with 1-3 (4) arguments over 13 scalar '
              'kinds and over 1x2 / 2x2 ranges with blanks and errors, spied '
              'and unspied; NOT and nested shapes as whole formulas; direct '
              'calls with logging thunks.  Value, spies that must run and '
              'spies that must not run are compared with a reference lazy '
              'evaluator.')
LEVEL_NOTE = ('Trusted: the reference evaluator (xlmc/ref/lazy.py, '
              'self-tested), the spy mechanism (self-tested at start-up).  '
              'Not covered: text operands, error/array conditions of IF and '
              'NOT (C07), depth > 3, more than 3 leaf cells, raising '
              'constructs on the selected path.')
