"""C20 - financial functions satisfy their defining equations.

Oracle scope
  enforced : NPV, PMT (payments at period end), PV (either timing), SLN and
             XNPV against their closed forms (relative 1e-9 of the magnitude
             of the terms), NPV/PMT/PV at rate 0, PV(r,n,PMT(r,n,pv,fv),fv)=pv
             and PMT(r,n,PV(r,n,pmt,fv),fv)=pmt, linearity of NPV and XNPV in
             the cash flows; IRR / XIRR for an initial outlay followed by
             non-negative returns that exceed it: the returned rate is within
             1e-6 of the unique (bisection) root AND the discounted sum of the
             flows at the returned rate is <= 1e-6 * sum|flows|.
             Rates in (-0.9, 10]; direct calls, all-Number carriers, literal
             formulas, formulas over ranges and cell references; for SLN (whose
             body is plain arithmetic on whatever carriers arrive) also every
             mix of native and Number arguments.
  refused  : VDB (excluded by the property); PMT with type 1 (the statement
             covers period-end payments only); rates <= -0.9 or > 10 (so NPV at
             rate -1 is not asked); flows with several sign changes or without
             a positive undiscounted sum; roots beyond 10; (rate, nper) whose
             annuity factor (1+r)^n is not a double (rate 10, 360 periods);
             guesses other than the default - never executed or counted under
             skipped_out_of_scope.
"""
import itertools

from .. import lib
from ..ref import finance as fin

PROPERTY = 'C20'
LEVEL = 'exploration'

RATES = (-0.89, -0.5, -0.1, -5e-7, 0, 5e-7, 0.0001, 0.001, 0.01, 0.05, 0.1, 0.25, 0.5, 1,
         2.5, 10)
RATES_FEW = (-0.5, 0, 0.05, 1)
F6 = (-100, -10, 0, 10, 50, 100)
F3 = (-100, 0, 50)
NPER = (1, 2, 3, 12, 30, 120, 360, 0.5, 10.5)     # nper need not be whole
AMOUNTS = (-1000, 0, 1000, 250000)
PAYMENTS = (-100, 0, 100, 2500)
FVS = (None, 0, 100, -100)
RETURNS = (0, 30, 60, 120, 1100)
OUTLAYS = (100, 1000)
GAPS = (1, 30, 365, 400)
GAPS_FEW = (30, 365)
DATE0 = 39448                      # 2008-01-01
LONG_LENGTHS = tuple(range(5, 31))
# (first date, gaps) of three-date schedules given as plain day numbers
DAY_NUMBER_SCHEDULES = ((30, (30, 30)), (1, (59, 1)), (59, (2, 305)),
                        (60, (1, 365)))
COEFFS = ((1, 1), (2, -3), (0.5, 0.25))

RULE = ('NPV: every vector of length <=4 (thorough 5) over {-100,-10,0,10,50,'
        '100} and constant / geometric / balloon / bond families of every '
        'length 5..30, x 14 rates in (-0.9,10]; linearity over all pairs of '
        'equal-length vectors of length <=3 x 3 coefficient pairs (quick: '
        'one pair and 4 rates at length 3); PMT/PV: '
        '14 rates x nper {1,2,3,12,30,120,360} x 4 amounts x fv {omitted,0,'
        '100,-100} x type {omitted,0,1} (PMT: period end only), both '
        'inversions; SLN: 5 costs x 5 salvages x 5 lives x all 8 '
        'native/Number carrier mixes; XNPV: vectors of length <=3 (thorough '
        '4) x every strictly increasing date vector from gaps {1,30,365,400} '
        'x rates, families of length 5..30, linearity; IRR: every (-c, '
        'r1..rk), k<=4 (thorough 5), c in {100,1000}, ri in {0,30,60,120,'
        '1100} with sum r > c, families of length 5..30, six routes; XIRR: '
        'the same flows x every date vector (quick: k<=3 all gaps, k=4 gaps '
        '{30,365}).  A case is non-trivial unless all its amounts are zero')
BOUNDS = {
    'quick': {'npv_vector_len': 4, 'xnpv_vector_len': 3, 'irr_returns': 4,
              'xirr_returns': '3 with all gaps, 4 with gaps {30,365}',
              'long_lengths': '5..30', 'rates': len(RATES)},
    'thorough': {'npv_vector_len': 5, 'xnpv_vector_len': 4, 'irr_returns': 5,
                 'xirr_returns': '4 with all gaps, 5 with gaps {30,365}',
                 'long_lengths': '5..30', 'rates': len(RATES)},
}
ASSUMPTIONS = [
    'closed forms as quoted in the property (xlmc/ref/finance.py: exact '
    'rational arithmetic for integer exponents, fsum/pow for XNPV, bisection '
    'roots; self-tested against the examples of the Excel documentation)',
    'a decimal literal rate (0.1) denotes that decimal; the double nearest '
    'to it differs by far less than the tolerance',
    'dates are 1900-system serial numbers >= 39448 (date arithmetic itself '
    'is property C18)',
]
TECHNIQUE = ('bounded-exhaustive enumeration of argument tuples (rates x '
             'cash-flow vectors x date vectors x annuity parameters x routes) '
             'executed on the real library, against closed-form reference '
             'values, residual/bisection root checks and metamorphic '
             'relations (inversion, linearity)')
LEVEL_TEXT = ('Every cash-flow vector up to the stated length over a small '
              'alphabet, parametrised families of every length 5..30, every '
              'strictly increasing date vector over four gap sizes and the '
              'full annuity parameter grid are evaluated by the real '
              'functions (direct, Number carriers, formulas over literals, '
              'cells and ranges) and compared with independent closed forms; '
              'IRR/XIRR answers are judged by residual and by distance to a '
              'bisection root.')
LEVEL_NOTE = ('Trusted: xlmc/ref/finance.py (self-tested).  Not covered: '
              'VDB, PMT with type 1, flows with several sign changes, rates '
              'outside (-0.9, 10], amounts outside the alphabets, guesses '
              'other than the default.')


# -- helpers ---------------------------------------------------------------------
def lit(x):
    if x is None:
        return ''
    return repr(x)


def cells_col(values, col='A', row0=1):
    return {'Sheet1!%s%d' % (col, row0 + i): v for i, v in enumerate(values)}


def cells_row(values):
    return {'Sheet1!%s1' % chr(ord('A') + i) if i < 26 else
            'Sheet1!A%s1' % chr(ord('A') + i - 26): v
            for i, v in enumerate(values)}


def row_range(n):
    last = chr(ord('A') + n - 1) if n <= 26 else 'A' + chr(ord('A') + n - 27)
    return 'A1:%s1' % last


def fl(vals):
    return ','.join(repr(v) for v in vals)


def N(x):
    return lib.Number(x)


def A(rows):
    return lib.Array(rows)


def dates_of(gaps, date0=None):
    out = [DATE0 if date0 is None else date0]
    for g in gaps:
        out.append(out[-1] + g)
    return out


def judge(ctx, key, tags, case, got, want, scale, nontrivial=True,
          rel=fin.REL):
    if got.startswith('num:') and fin.close(lib.num_of(got), want, scale,
                                            rel):
        ctx.ok(key, got, nontrivial)
    else:
        ctx.fail(key, sorted(tags), case, 'num:%r' % want, got, nontrivial)


def rate_tags(rate):
    if rate == 0:
        return {'rate:zero'}
    return {'rate:neg' if rate < 0 else 'rate:pos'}


def flow_tags(flows):
    t = set()
    if any(v == 0 for v in flows):
        t.add('flow:has-zero')
    if all(v == 0 for v in flows):
        t.add('flow:all-zero')
    return t


# -- NPV ---------------------------------------------------------------------------
def exec_npv(rate, flows, route):
    if route == 'call':
        return lib.call('NPV', rate, *flows)
    if route == 'call-list':
        return lib.call('NPV', rate, list(flows))
    if route == 'numbers':
        return lib.call('NPV', N(rate), *[N(v) for v in flows])
    if route == 'call-list-then-scalars':
        # the flows keep their order however they are grouped into arguments
        k = max(1, len(flows) // 2)
        return lib.call('NPV', rate, list(flows[:k]), *flows[k:])
    if route == 'call-scalar-list-scalar':
        return lib.call('NPV', rate, flows[0], list(flows[1:-1]),
                        *flows[-1:]) if len(flows) >= 3 else \
            lib.call('NPV', rate, flows[0], list(flows[1:]))
    if route == 'call-nested':
        k = max(1, len(flows) // 2)
        return lib.call('NPV', rate, [list(flows[:k]), list(flows[k:])]
                        if len(flows[:k]) == len(flows[k:])
                        else [list(flows[:k])] + [list(flows[k:])])
    if route == 'f-lit':
        return lib.eval_formula('=NPV(%s,%s)' % (repr(rate), fl(flows)))
    if route == 'f-range':
        return lib.eval_formula('=NPV(%s,A1:A%d)' % (repr(rate), len(flows)),
                                cells_col(flows))
    if route == 'f-block':
        # the flows row by row in a block of two rows (a range is read the
        # way it is written: along the rows)
        assert len(flows) % 2 == 0
        w = len(flows) // 2
        cells = {'Sheet1!%s%d' % (chr(ord('A') + i % w), 3 + i // w): v
                 for i, v in enumerate(flows)}
        return lib.eval_formula('=NPV(%s,A3:%s4)' % (
            repr(rate), chr(ord('A') + w - 1)), cells)
    if route == 'f-args':
        return lib.eval_formula(
            '=NPV(C1,%s)' % ','.join('A%d' % (i + 1)
                                     for i in range(len(flows))),
            dict(cells_col(flows), **{'Sheet1!C1': rate}))
    raise AssertionError(route)


def case_npv(c, ctx):
    rate, flows, route = c['rate'], c['flows'], c['route']
    want, scale = fin.npv(rate, flows)
    tags = {'fn:NPV', 'route:' + route} | rate_tags(rate) | flow_tags(flows)
    got = exec_npv(rate, flows, route)
    key = 'C20/NPV/r=%r/v=%s/r=%s' % (rate, c.get('name') or fl(flows), route)
    judge(ctx, key, tags, c, got, want, scale, any(flows))


_MEMO = {}


def memo(kind, rate, flows, extra, fn):
    k = (kind, rate, tuple(flows), tuple(extra))
    if k not in _MEMO:
        if len(_MEMO) > 20000:
            _MEMO.clear()
        _MEMO[k] = fn()
    return _MEMO[k]


def case_npvlin(c, ctx):
    rate, x, y, a, b = c['rate'], c['x'], c['y'], c['a'], c['b']
    z = [a * p + b * q for p, q in zip(x, y)]
    sx, ox = memo('npv', rate, x, (), lambda: (
        fin.npv(rate, x)[1], exec_npv(rate, x, 'call')))
    sy, oy = memo('npv', rate, y, (), lambda: (
        fin.npv(rate, y)[1], exec_npv(rate, y, 'call')))
    oz = exec_npv(rate, z, 'call')
    key = 'C20/NPVLIN/r=%r/x=%s/y=%s/a=%r/b=%r' % (rate, fl(x), fl(y), a, b)
    tags = {'fn:NPV', 'linearity'} | rate_tags(rate) | flow_tags(z)
    if not (ox.startswith('num:') and oy.startswith('num:')):
        ctx.skip('linearity-operand-not-a-number')     # judged by case_npv
        return
    want = a * lib.num_of(ox) + b * lib.num_of(oy)
    judge(ctx, key, tags, c, oz, want, abs(a) * sx + abs(b) * sy,
          any(x) and any(y))


# -- PMT / PV ------------------------------------------------------------------------
def annuity_args(c, third):
    args = [c['rate'], c['nper'], third]
    if c['fv'] is not None or c.get('typ') is not None:
        args.append(0 if c['fv'] is None else c['fv'])
    if c.get('typ') is not None:
        args.append(c['typ'])
    return args


def exec_fn(fn, args, route):
    if route == 'call':
        return lib.call(fn, *args)
    if route == 'numbers':
        return lib.call(fn, *[N(a) for a in args])
    if route == 'f-lit':
        return lib.eval_formula('=%s(%s)' % (fn, fl(args)))
    if route == 'f-cells':
        names = ['A%d' % (i + 1) for i in range(len(args))]
        return lib.eval_formula('=%s(%s)' % (fn, ','.join(names)),
                                cells_col(args))
    raise AssertionError(route)


def annuity_key(fn, c, third):
    return 'C20/%s/r=%r/n=%r/x=%r/fv=%s/t=%s/r=%s' % (
        fn, c['rate'], c['nper'], third, lit(c['fv']) or '-',
        lit(c.get('typ')) or '-', c['route'])


def annuity_tags(fn, c):
    t = {'fn:' + fn, 'route:' + c['route']} | rate_tags(c['rate'])
    t.add('fv:omitted' if c['fv'] is None else
          ('fv:zero' if c['fv'] == 0 else 'fv:nonzero'))
    typ = c.get('typ')
    t.add('type:omitted' if typ is None else 'type:%d' % typ)
    return t


def case_pmt(c, ctx):
    if not fin.representable(c['rate'], c['nper']):
        ctx.skip('annuity-factor-not-a-double')
        return
    want, scale = fin.pmt(c['rate'], c['nper'], c['pv'], c['fv'] or 0)
    got = exec_fn('PMT', annuity_args(c, c['pv']), c['route'])
    judge(ctx, annuity_key('PMT', c, c['pv']), annuity_tags('PMT', c), c,
          got, want, scale, bool(c['pv'] or c['fv']))


def case_pv(c, ctx):
    if not fin.representable(c['rate'], c['nper']):
        ctx.skip('annuity-factor-not-a-double')
        return
    want, scale = fin.pv(c['rate'], c['nper'], c['pmt'], c['fv'] or 0,
                         c.get('typ') or 0)
    got = exec_fn('PV', annuity_args(c, c['pmt']), c['route'])
    judge(ctx, annuity_key('PV', c, c['pmt']), annuity_tags('PV', c), c,
          got, want, scale, bool(c['pmt'] or c['fv']))


def case_inv(c, ctx):
    """PV(r,n,PMT(r,n,pv,fv),fv) = pv   and   PMT(r,n,PV(r,n,pmt,fv),fv) = pmt."""
    rate, nper, x, fv, route = (c['rate'], c['nper'], c['x'], c['fv'],
                                c['route'])
    outer, inner = ('PV', 'PMT') if c['op'] == 'INV-PV-PMT' else ('PMT', 'PV')
    if not fin.representable(rate, nper):
        ctx.skip('annuity-factor-not-a-double')
        return
    # conditioning: the outer function amplifies the rounding error of the
    # inner result by the magnitude of its own terms
    if inner == 'PMT':
        mid, _ = fin.pmt(rate, nper, x, fv or 0)
        _, scale = fin.pv(rate, nper, mid, fv or 0)
    else:
        mid, _ = fin.pv(rate, nper, x, fv or 0)
        _, scale = fin.pmt(rate, nper, mid, fv or 0)
    if scale > 1e3 * max(abs(x), 1.0):
        ctx.skip('inversion-ill-conditioned-in-double')
        return
    tail = [] if fv is None else [fv]
    if route == 'call':
        try:
            fo, fi = lib.FUNCTIONS[outer], lib.FUNCTIONS[inner]
        except KeyError as exc:
            got = 'unregistered:%s' % exc.args[0]
        else:
            got = lib.observe(lambda: fo(rate, nper,
                                         fi(rate, nper, x, *tail), *tail))
    else:
        t = ''.join(',%r' % v for v in tail)
        got = lib.eval_formula('=%s(%r,%r,%s(%r,%r,%r%s)%s)' % (
            outer, rate, nper, inner, rate, nper, x, t, t))
    key = 'C20/%s/r=%r/n=%r/x=%r/fv=%s/r=%s' % (c['op'], rate, nper, x,
                                                lit(fv) or '-', route)
    tags = {'fn:' + outer, 'fn:' + inner, 'inversion', 'route:' + route}
    tags |= rate_tags(rate)
    judge(ctx, key, tags, c, got, float(x), scale, bool(x or fv))


# -- SLN -------------------------------------------------------------------------------
CARRIERS = tuple(''.join(p) for p in itertools.product('nN', repeat=3))


def case_sln(c, ctx):
    args = [c['cost'], c['salvage'], c['life']]
    route = c['route']
    want, scale = fin.sln(*args)
    tags = {'fn:SLN', 'route:' + route.split('=')[0]}
    if route.startswith('carriers='):
        pat = route.split('=')[1]
        tags.add('carriers:' + pat)
        if len(set(pat)) > 1:
            tags.add('carriers:mixed')
        got = lib.call('SLN', *[N(a) if p == 'N' else a
                                for a, p in zip(args, pat)])
    else:
        got = exec_fn('SLN', args, route)
    key = 'C20/SLN/c=%r/s=%r/l=%r/r=%s' % (args[0], args[1], args[2], route)
    judge(ctx, key, tags, c, got, want, scale, args[0] != args[1])


# -- XNPV --------------------------------------------------------------------------------
def exec_xnpv(rate, flows, dates, route):
    if route == 'call':
        return lib.call('XNPV', rate, A([list(flows)]), A([list(dates)]))
    if route == 'call-col':
        return lib.call('XNPV', rate, A([[v] for v in flows]),
                        A([[d] for d in dates]))
    if route == 'f-range':
        n = len(flows)
        cells = cells_col(flows)
        cells.update(cells_col(dates, 'B'))
        return lib.eval_formula('=XNPV(%r,A1:A%d,B1:B%d)' % (rate, n, n),
                                cells)
    if route in ('f-row-col', 'f-col-row'):
        # the flows in a row and the dates in a column, or the other way
        # round: n values, n dates
        n = len(flows)
        a, b = (flows, dates) if route == 'f-row-col' else (dates, flows)
        cells = {'Sheet1!%s1' % chr(ord('A') + i): v for i, v in enumerate(a)}
        cells.update(cells_col(b, 'A', 3))
        rr = 'A1:%s1' % chr(ord('A') + n - 1)
        cc = 'A3:A%d' % (n + 2)
        return lib.eval_formula('=XNPV(%r,%s,%s)' % (
            (rate, rr, cc) if route == 'f-row-col' else (rate, cc, rr)),
            cells)
    raise AssertionError(route)


def gaps_name(gaps):
    return '+'.join(str(g) for g in gaps) if len(gaps) <= 6 else (
        '%dx(%s..)' % (len(gaps), '+'.join(str(g) for g in gaps[:2])))


def case_xnpv(c, ctx):
    rate, flows, gaps, route = c['rate'], c['flows'], c['gaps'], c['route']
    dates = dates_of(gaps, c.get('date0'))
    want, scale = fin.xnpv(rate, flows, dates)
    tags = {'fn:XNPV', 'route:' + route} | rate_tags(rate) | flow_tags(flows)
    if c.get('date0'):
        tags.add('dates:day-numbers')
    got = exec_xnpv(rate, flows, dates, route)
    key = 'C20/XNPV/r=%r/v=%s/g=%s%s/r=%s' % (
        rate, c.get('name') or fl(flows), gaps_name(gaps),
        '@%d' % c['date0'] if c.get('date0') else '', route)
    judge(ctx, key, tags, c, got, want, scale, any(flows))


def case_xnpvlin(c, ctx):
    rate, x, y, a, b, gaps = (c['rate'], c['x'], c['y'], c['a'], c['b'],
                              c['gaps'])
    dates = dates_of(gaps)
    z = [a * p + b * q for p, q in zip(x, y)]
    sx, ox = memo('xnpv', rate, x, gaps, lambda: (
        fin.xnpv(rate, x, dates)[1], exec_xnpv(rate, x, dates, 'call')))
    sy, oy = memo('xnpv', rate, y, gaps, lambda: (
        fin.xnpv(rate, y, dates)[1], exec_xnpv(rate, y, dates, 'call')))
    oz = exec_xnpv(rate, z, dates, 'call')
    key = 'C20/XNPVLIN/r=%r/x=%s/y=%s/a=%r/b=%r/g=%s' % (
        rate, fl(x), fl(y), a, b, gaps_name(gaps))
    tags = {'fn:XNPV', 'linearity'} | rate_tags(rate) | flow_tags(z)
    if not (ox.startswith('num:') and oy.startswith('num:')):
        ctx.skip('linearity-operand-not-a-number')    # judged by case_xnpv
        return
    want = a * lib.num_of(ox) + b * lib.num_of(oy)
    judge(ctx, key, tags, c, oz, want, abs(a) * sx + abs(b) * sy,
          any(x) and any(y))


# -- IRR / XIRR ----------------------------------------------------------------------------
def judge_root(ctx, key, tags, c, got, root, residual_of, total):
    ok = False
    if got.startswith('num:'):
        g = lib.num_of(got)
        ok = (abs(g - root) <= fin.ROOT_TOL and g > -1 and
              abs(residual_of(g)) <= fin.ROOT_TOL * total)
    if ok:
        ctx.ok(key, got, True)
    else:
        ctx.fail(key, sorted(tags), c, 'num:%r' % root, got, True)


def root_tags(root):
    return {'root:above-1' if root > 1 else 'root:upto-1'}


SCALES = (1e6, 1e9, 1e12, 1e-6)     # the root does not depend on the unit


def scaled(c):
    k = c.get('scale')
    return [v * k for v in c['flows']] if k else c['flows']


def case_irr(c, ctx):
    flows, route = scaled(c), c['route']
    assert fin.one_root_flows(flows)
    root = fin.irr(flows)
    if root is None:
        ctx.skip('root-beyond-rate-range')
        return
    if route == 'call-list':
        got = lib.call('IRR', list(flows))
    elif route == 'call-row':
        got = lib.call('IRR', A([list(flows)]))
    elif route == 'call-col':
        got = lib.call('IRR', A([[v] for v in flows]))
    elif route == 'call-guess':
        got = lib.call('IRR', A([list(flows)]), 0.1)
    elif route == 'f-col':
        got = lib.eval_formula('=IRR(A1:A%d)' % len(flows), cells_col(flows))
    elif route == 'f-row':
        got = lib.eval_formula('=IRR(%s)' % row_range(len(flows)),
                               cells_row(flows))
    else:
        raise AssertionError(route)
    tags = ({'fn:IRR', 'route:' + route} | flow_tags(flows) |
            root_tags(root))
    if c.get('scale'):
        tags.add('scale:%g' % c['scale'])
    key = 'C20/IRR/v=%s/r=%s' % (c.get('name') or fl(flows), route)
    judge_root(ctx, key, tags, c, got, root,
               lambda r: fin.irr_f(r, flows), sum(abs(v) for v in flows))


def case_xirr(c, ctx):
    flows, gaps, route = scaled(c), c['gaps'], c['route']
    assert fin.one_root_flows(flows)
    dates = dates_of(gaps, c.get('date0'))
    root = fin.xirr(flows, dates)
    if root is None:
        ctx.skip('root-beyond-rate-range')
        return
    va, da = A([list(flows)]), A([list(dates)])
    if route == 'call':
        got = lib.call('XIRR', va, da)
    elif route == 'call-guess':
        got = lib.call('XIRR', va, da, 0.1)
    elif route == 'f-range':
        n = len(flows)
        cells = cells_col(flows)
        cells.update(cells_col(dates, 'B'))
        got = lib.eval_formula('=XIRR(A1:A%d,B1:B%d)' % (n, n), cells)
    elif route == 'f-row-col':
        n = len(flows)
        cells = {'Sheet1!%s1' % chr(ord('A') + i): v
                 for i, v in enumerate(flows)}
        cells.update(cells_col(dates, 'A', 3))
        got = lib.eval_formula('=XIRR(A1:%s1,A3:A%d)' % (
            chr(ord('A') + n - 1), n + 2), cells)
    else:
        raise AssertionError(route)
    tags = ({'fn:XIRR', 'route:' + route} | flow_tags(flows) |
            root_tags(root))
    if c.get('date0'):
        tags.add('dates:day-numbers')
    if 1 in gaps:
        tags.add('gap:one-day')
    if c.get('scale'):
        tags.add('scale:%g' % c['scale'])
    key = 'C20/XIRR/v=%s/g=%s%s/r=%s' % (
        c.get('name') or fl(flows), gaps_name(gaps),
        '@%d' % c['date0'] if c.get('date0') else '', route)
    judge_root(ctx, key, tags, c, got, root,
               lambda r: fin.xnpv(r, flows, dates)[0],
               sum(abs(v) for v in flows))


CASES = {'NPV': case_npv, 'NPVLIN': case_npvlin, 'PMT': case_pmt,
         'PV': case_pv, 'INV-PV-PMT': case_inv, 'INV-PMT-PV': case_inv,
         'SLN': case_sln, 'XNPV': case_xnpv, 'XNPVLIN': case_xnpvlin,
         'IRR': case_irr, 'XIRR': case_xirr}


def run_case(c, ctx):
    CASES[c['op']](c, ctx)


# -- generators ------------------------------------------------------------------------------
def long_families(n):
    """Named cash-flow vectors of length n (n >= 5)."""
    out = []
    for a in (-100, 10, 50):
        out.append(('const%d' % a, [a] * n))
    for a, g in ((100, 1.1), (100, 0.5), (-50, 2)):
        out.append(('geom%dx%r' % (a, g), [a * g ** i for i in range(n)]))
    for b in (1000, -1000):
        out.append(('balloon%d' % b, [0] * (n - 1) + [b]))
    out.append(('bond', [50] * (n - 1) + [1050]))
    out.append(('alt', [100 if i % 2 else -60 for i in range(n)]))
    return [(name + '#%d' % n, v) for name, v in out]


def long_outlay_families(n):
    """(-c, returns...) of total length n with one sign change and positive
    undiscounted sum."""
    k = n - 1
    out = []
    for a in (50, 100, 400):
        if a * k > 1000:
            out.append(('annuity%d' % a, [-1000] + [a] * k))
    out.append(('growing', [-1000] + [100 * 1.1 ** i for i in range(k)]))
    out.append(('decaying', [-1000] + [600 * 0.8 ** i for i in range(k)]))
    for b in (1100, 2000, 50000):
        out.append(('balloon%d' % b, [-1000] + [0] * (k - 1) + [b]))
    out.append(('bond', [-1000] + [50] * (k - 1) + [1050]))
    return [(name + '#%d' % n, v) for name, v in out
            if fin.one_root_flows(v)]


def spread_families(n):
    """Outlay followed by returns whose sizes differ by many orders of
    magnitude (IRR only): the amounts grow like (1+g)^(i*w_i) with the
    weights w_i running through 0, .7, .4, .1, .8, ..."""
    out = []
    for g in (0.5, 1.5, 4, 8):
        flows = [-100.0]
        for i in range(1, n):
            w = ((i * 7) % 10) / 10.0
            flows.append(round((50 + (37 * i) % 250) * (1 + g) ** (i * w), 2))
        out.append(('spread%g#%d' % (g, n), flows))
    return [(name, v) for name, v in out if fin.one_root_flows(v)]


def gap_patterns(k):
    """Date-gap vectors for the long families (k gaps)."""
    return [[30] * k, [365] * k, [(1, 400)[i % 2] for i in range(k)],
            [(400, 30, 1, 365)[i % 4] for i in range(k)]]


def outlay_vectors(kmax):
    for c in OUTLAYS:
        for k in range(1, kmax + 1):
            for rs in itertools.product(RETURNS, repeat=k):
                if sum(rs) > c:
                    yield [-c] + list(rs)


def plan(tier):
    th = tier == 'thorough'
    shards = []
    nlen = 5 if th else 4
    for n in range(1, nlen + 1):
        for first in F6:
            if n >= 4:
                for second in F6:
                    shards.append({'s': 'npv', 'n': n, 'first': first,
                                   'second': second})
            else:
                shards.append({'s': 'npv', 'n': n, 'first': first})
    for n in LONG_LENGTHS:
        shards.append({'s': 'long', 'n': n})
    for n in (1, 2, 3):
        for first in F6:
            shards.append({'s': 'npvlin', 'n': n, 'first': first})
    for rate in RATES:
        for nper in NPER:
            shards.append({'s': 'annuity', 'rate': rate, 'nper': nper})
    shards.append({'s': 'sln'})
    xlen = 4 if th else 3
    for n in range(1, xlen + 1):
        for first in F6:
            if n >= 3:
                for second in F6:
                    shards.append({'s': 'xnpv', 'n': n, 'first': first,
                                   'second': second})
            else:
                shards.append({'s': 'xnpv', 'n': n, 'first': first})
    for first in F6:
        shards.append({'s': 'xnpvlin', 'first': first})
    kirr = 5 if th else 4
    for c in OUTLAYS:
        for k in range(1, kirr + 1):
            for r1 in RETURNS:
                shards.append({'s': 'irr', 'c': c, 'k': k, 'r1': r1})
    for c in OUTLAYS:
        for k in range(1, kirr + 1):
            full = k <= (4 if th else 3)
            for r1 in RETURNS:
                if k >= 3:
                    for r2 in RETURNS:
                        shards.append({'s': 'xirr', 'c': c, 'k': k, 'r1': r1,
                                       'r2': r2, 'full': full})
                else:
                    shards.append({'s': 'xirr', 'c': c, 'k': k, 'r1': r1,
                                   'full': full})
    return shards


def run_shard(sh, ctx):
    s = sh['s']
    th = ctx.tier == 'thorough'
    if s == 'npv':
        n = sh['n']
        fixed = [sh['first']] + ([sh['second']] if 'second' in sh else [])
        for rest in itertools.product(F6, repeat=n - len(fixed)):
            flows = fixed + list(rest)
            for rate in RATES:
                run_case({'op': 'NPV', 'rate': rate, 'flows': flows,
                          'route': 'call'}, ctx)
                if n <= 3:
                    for route in ('call-list', 'numbers', 'f-range', 'f-args',
                                  'f-lit', 'call-list-then-scalars',
                                  'call-scalar-list-scalar'):
                        run_case({'op': 'NPV', 'rate': rate, 'flows': flows,
                                  'route': route}, ctx)
                elif n == 4 and rate in RATES_FEW:
                    for route in ('f-range', 'f-block'):
                        run_case({'op': 'NPV', 'rate': rate, 'flows': flows,
                                  'route': route}, ctx)
        ctx.sample({'op': 'NPV', 'flows': fixed, 'rates': list(RATES)})
    elif s == 'long':
        n = sh['n']
        for name, flows in long_families(n):
            for rate in RATES:
                for route in ('call', 'f-range'):
                    run_case({'op': 'NPV', 'rate': rate, 'flows': flows,
                              'name': name, 'route': route}, ctx)
                for gi, gaps in enumerate(gap_patterns(n - 1)):
                    run_case({'op': 'XNPV', 'rate': rate, 'flows': flows,
                              'gaps': gaps, 'name': name, 'route': 'call'},
                             ctx)
                    if gi == 0:
                        run_case({'op': 'XNPV', 'rate': rate, 'flows': flows,
                                  'gaps': gaps, 'name': name,
                                  'route': 'f-range'}, ctx)
        for name, flows in long_outlay_families(n):
            for route in ('call-list', 'call-row', 'call-col', 'call-guess',
                          'f-col', 'f-row'):
                run_case({'op': 'IRR', 'flows': flows, 'name': name,
                          'route': route}, ctx)
            for gaps in gap_patterns(n - 1):
                for route in ('call', 'call-guess', 'f-range'):
                    run_case({'op': 'XIRR', 'flows': flows, 'gaps': gaps,
                              'name': name, 'route': route}, ctx)
        for name, flows in spread_families(n):
            for route in ('call-list', 'call-col', 'f-col'):
                run_case({'op': 'IRR', 'flows': flows, 'name': name,
                          'route': route}, ctx)
    elif s == 'npvlin':
        n = sh['n']
        for rest in itertools.product(F6, repeat=n - 1):
            x = [sh['first']] + list(rest)
            for y in itertools.product(F6, repeat=n):
                for a, b in (COEFFS if n <= 2 or th else COEFFS[1:2]):
                    for rate in (RATES if n <= 2 or th else RATES_FEW):
                        run_case({'op': 'NPVLIN', 'rate': rate, 'x': x,
                                  'y': list(y), 'a': a, 'b': b}, ctx)
    elif s == 'annuity':
        rate, nper = sh['rate'], sh['nper']
        for fv in FVS:
            for route in ('call', 'numbers', 'f-lit', 'f-cells'):
                for pv in AMOUNTS:
                    for typ in (None, 0):
                        if typ is not None and fv is None:
                            continue
                        run_case({'op': 'PMT', 'rate': rate, 'nper': nper,
                                  'pv': pv, 'fv': fv, 'typ': typ,
                                  'route': route}, ctx)
                for pmt in PAYMENTS:
                    for typ in (None, 0, 1):
                        if typ is not None and fv is None:
                            continue
                        run_case({'op': 'PV', 'rate': rate, 'nper': nper,
                                  'pmt': pmt, 'fv': fv, 'typ': typ,
                                  'route': route}, ctx)
            for route in ('call', 'f-lit'):
                for x in AMOUNTS:
                    run_case({'op': 'INV-PV-PMT', 'rate': rate, 'nper': nper,
                              'x': x, 'fv': fv, 'route': route}, ctx)
                for x in PAYMENTS:
                    run_case({'op': 'INV-PMT-PV', 'rate': rate, 'nper': nper,
                              'x': x, 'fv': fv, 'route': route}, ctx)
        ctx.sample({'op': 'PV', 'rate': rate, 'nper': nper})
    elif s == 'sln':
        for cost in (0, 0.5, 1000, 30000, 1000000):
            for salvage in (0, 100, 7500, 30000, 2000000):
                for life in (0.5, 1, 3, 10, 360):
                    for route in ('call', 'f-lit', 'f-cells') + tuple(
                            'carriers=' + p for p in CARRIERS if p != 'nnn'):
                        run_case({'op': 'SLN', 'cost': cost,
                                  'salvage': salvage, 'life': life,
                                  'route': route}, ctx)
    elif s == 'xnpv':
        n = sh['n']
        rates = RATES if n <= 3 or th else RATES_FEW
        fixed = [sh['first']] + ([sh['second']] if 'second' in sh else [])
        for rest in itertools.product(F6, repeat=n - len(fixed)):
            flows = fixed + list(rest)
            for gaps in itertools.product(GAPS, repeat=n - 1):
                for rate in rates:
                    run_case({'op': 'XNPV', 'rate': rate, 'flows': flows,
                              'gaps': list(gaps), 'route': 'call'}, ctx)
                    if n <= 2:
                        for route in ('call-col', 'f-range', 'f-row-col',
                                      'f-col-row'):
                            run_case({'op': 'XNPV', 'rate': rate,
                                      'flows': flows, 'gaps': list(gaps),
                                      'route': route}, ctx)
            if n == 3 and 'second' in sh:
                # schedules written as day numbers (30, 60, 90: the serials
                # around the day that 1900 did not have are serials like any
                # other)
                for date0, gaps in DAY_NUMBER_SCHEDULES:
                    for rate in RATES_FEW:
                        for route in ('call', 'f-range'):
                            run_case({'op': 'XNPV', 'rate': rate,
                                      'flows': flows, 'gaps': list(gaps),
                                      'date0': date0, 'route': route}, ctx)
    elif s == 'xnpvlin':
        for n in (1, 2, 3):
            alpha = F6 if n <= 2 else F3
            if sh['first'] not in alpha:
                continue
            for rest in itertools.product(alpha, repeat=n - 1):
                x = [sh['first']] + list(rest)
                for y in itertools.product(alpha, repeat=n):
                    for gaps in ([[]] if n == 1 else
                                 [[30] * (n - 1), [400, 1][:n - 1]]):
                        for a, b in COEFFS[1:]:
                            for rate in RATES_FEW:
                                run_case({'op': 'XNPVLIN', 'rate': rate,
                                          'x': x, 'y': list(y), 'a': a,
                                          'b': b, 'gaps': gaps}, ctx)
    elif s == 'irr':
        c, k, r1 = sh['c'], sh['k'], sh['r1']
        for rest in itertools.product(RETURNS, repeat=k - 1):
            flows = [-c, r1] + list(rest)
            if not fin.one_root_flows(flows):
                continue
            for route in ('call-list', 'call-row', 'call-col', 'call-guess',
                          'f-col', 'f-row'):
                run_case({'op': 'IRR', 'flows': flows, 'route': route}, ctx)
            if k <= 3:
                for sc in SCALES:
                    run_case({'op': 'IRR', 'flows': flows, 'scale': sc,
                              'route': 'call-list'}, ctx)
        ctx.sample({'op': 'IRR', 'outlay': c, 'returns': k})
    elif s == 'xirr':
        c, k, r1 = sh['c'], sh['k'], sh['r1']
        fixed = [-c, r1] + ([sh['r2']] if 'r2' in sh else [])
        gapset = GAPS if sh['full'] else GAPS_FEW
        for rest in itertools.product(RETURNS, repeat=k + 1 - len(fixed)):
            flows = fixed + list(rest)
            if not fin.one_root_flows(flows):
                continue
            if k == 2:
                for date0, gaps in DAY_NUMBER_SCHEDULES:
                    run_case({'op': 'XIRR', 'flows': flows,
                              'gaps': list(gaps), 'date0': date0,
                              'route': 'call'}, ctx)
            for gaps in itertools.product(gapset, repeat=k):
                run_case({'op': 'XIRR', 'flows': flows, 'gaps': list(gaps),
                          'route': 'call'}, ctx)
                if k <= 2:
                    for route in ('call-guess', 'f-range', 'f-row-col'):
                        run_case({'op': 'XIRR', 'flows': flows,
                                  'gaps': list(gaps), 'route': route}, ctx)
                    for sc in SCALES:
                        run_case({'op': 'XIRR', 'flows': flows, 'scale': sc,
                                  'gaps': list(gaps), 'route': 'call'}, ctx)
    else:
        raise AssertionError(s)


def init_worker(tier):
    # numpy-financial evaluates both branches of its rate == 0 selection and
    # warns about 0/0 on stderr; the observed values are unaffected
    import warnings
    warnings.simplefilter('ignore', RuntimeWarning)


def replay(inputs, ctx):
    _MEMO.clear()
    run_case(inputs, ctx)


def selftest():
    fin.selftest()
    assert all(fin.rate_in_scope(r) for r in RATES)
    assert dates_of([1, 30]) == [DATE0, DATE0 + 1, DATE0 + 31]
    assert row_range(5) == 'A1:E1' and row_range(30) == 'A1:AD1'
    assert sorted(cells_row([1] * 30))[-1] == 'Sheet1!Z1'
    assert 'Sheet1!AD1' in cells_row([1] * 30)
    assert annuity_args({'rate': 0.1, 'nper': 2, 'fv': None, 'typ': None},
                        5) == [0.1, 2, 5]
    assert annuity_args({'rate': 0.1, 'nper': 2, 'fv': None, 'typ': 1},
                        5) == [0.1, 2, 5, 0, 1]
    assert all(fin.one_root_flows(v) for v in outlay_vectors(3))
    for n in LONG_LENGTHS:
        assert len(long_outlay_families(n)) >= 5
