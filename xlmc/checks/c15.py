"""C15 - criteria counting and lookups agree with a linear scan of the range.

Oracle scope
  enforced : COUNTIF / COUNTIFS (SUMIF / SUMIFS when the installed pandas
             still has DataFrame.applymap, which the library needs for them)
             = number (sum) of the positions at which every criterion holds,
             with the criterion semantics quoted in the statement (plain
             value or text with optional prefix = <> < <= > >=, numeric -
             also negative - or text operand, case-insensitive text,
             ordering criteria only match cells of the operand's type, = and
             <> compare across types); exact MATCH = position of the first
             equal cell or #N/A; approximate MATCH (type 1 and omitted) over
             ascending numbers = last position whose value <= key; VLOOKUP
             (range_lookup FALSE) = value in the requested column of the
             first row whose key equals the lookup value, #N/A when absent,
             any error value for a column index outside 1..width;
             CHOOSE(i, v1..vn) = v_i, #VALUE! for an integer i outside 1..n.
  refused  : blanks / numeric text / booleans / dates in criteria columns,
             wildcards, criteria with blanks or without operand, lookup keys
             that equal a table entry only after case folding, range_lookup
             TRUE or omitted, match_type -1, fractional indices, approximate
             MATCH with no qualifying position is only required to be an
             error value (the statement names no code) - none of these is
             generated except the last.
"""
import itertools

from .. import lib
from ..ref import scan as ref

PROPERTY = 'C15'
LEVEL = 'exploration'

ALPHA6 = (0, 5, -3, 'apple', 'Banana', 'b')
ALPHA4 = (1, 5, 'apple', 'b')
OPS = ('=', '<>', '<', '<=', '>', '>=')
OPERANDS = ('5', '-3', '0', 'apple', 'b', 'BANANA')
CRITERIA = (5, -3, 0, 'apple', 'APPLE', 'b', 'banana', '5', '-3') + tuple(
    op + o for op in OPS for o in OPERANDS)
MATCH_KEYS = ALPHA6 + (7, 'zz', 'APPLE', 'banana', 'B')
# COUNTIFS / SUMIFS criteria
C8 = (5, '>1', '<>5', '<=1', 'apple', '<>APPLE', '>=b', '<5')
C3 = ('>1', '<>apple', 'B')
C4 = ('<>1', '>=5', 'b', '<b')
APPROX_VALUES = (1, 3, 5, 7)
APPROX_KEYS = tuple(range(0, 9))
VL_KEYS = (1, 3, 'a', 'B')
VL_SEARCH = VL_KEYS + (7, 'zz', 'A', 'b')
CHOOSE_VALUES = (10, 't2', 30.5, 't4')
POWERS = (1, 2, 4, 8, 16, 32)

RULE = ('every column of the tier\'s length bound over {0,5,-3,"apple",'
        '"Banana","b"} is compiled into one model together with a COUNTIF '
        'probe per criterion (45: plain numbers/texts, each prefix x numeric '
        '/negative/text operand) and an exact MATCH probe per key (each '
        'alphabet value, one absent number, one absent text); every pair of '
        'equally long columns over {1,5,"apple","b"} with COUNTIFS probes '
        'for criteria pairs, the one- and the three-criteria form; every '
        'ascending column over {1,3,5,7} x keys 0..8 for approximate MATCH '
        '(type 1 and omitted); every key column over {1,3,"a","B"} x table '
        'width 2,3 x search key x column index 0..width+1 for VLOOKUP; every '
        'CHOOSE index -1..n+1 for n<=4 in literal and reference spelling; '
        'each probe cell is evaluated and compared with the linear scan.  A '
        'case is non-trivial when it was judged and the scanned range holds '
        'at least two cells')
BOUNDS = {
    'quick': {'COUNTIF/MATCH exact columns': 'length <= 4 (1554 columns)',
              'COUNTIFS': 'all pairs of length-2 columns x 8x8 criteria and '
                          'x 4x4x4 three-criteria forms; all pairs of '
                          'length-3 columns x 3x3 criteria',
              'MATCH approximate': 'ascending columns of length <= 5',
              'VLOOKUP': 'tables of <= 4 rows, 2 and 3 columns',
              'CHOOSE': 'n <= 4'},
    'thorough': {'COUNTIF/MATCH exact columns': 'length <= 5 (9330 columns)',
                 'COUNTIFS': 'all pairs of length-3 columns x 8x8 criteria '
                             'and x 4x4x4 three-criteria forms; all pairs of '
                             'length-2 columns likewise; all pairs of '
                             'length-4 columns x 3x3 criteria',
                 'MATCH approximate': 'ascending columns of length <= 6',
                 'VLOOKUP': 'tables of <= 5 rows, 2 and 3 columns',
                 'CHOOSE': 'n <= 4'},
}
ASSUMPTIONS = [
    'criterion and lookup semantics as quoted in the property statement '
    '(xlmc/ref/scan.py, self-tested against hand-derived facts and bisect)',
    'text order for < <= > >= criteria: case-folded code point order (the '
    'alphabet holds ASCII letters only)',
    'approximate MATCH with no qualifying position must be an error value '
    '(any code)',
]

PROBE_COL = 'M'


def sumif_supported():
    """SUMIF/SUMIFS call DataFrame.applymap, which newer pandas removed."""
    import os
    import pandas
    if os.environ.get('XLMC_C15_FORCE_SUMIF') == '1':
        return True
    return hasattr(pandas.DataFrame, 'applymap')


# ---------------------------------------------------------------- helpers
def lit(v):
    """Formula spelling of a value."""
    if isinstance(v, str):
        assert '"' not in v
        return '"%s"' % v
    return repr(v)


def vkey(v):
    return ('t:%s' % v) if isinstance(v, str) else ('n:%r' % (v,))


def obs_value(v):
    if isinstance(v, str):
        return 'text:%s' % v
    return 'num:%s' % lib.fnum(v)


def want_obs(w):
    if w == ref.ANY_ERROR:
        return 'err:*'
    if w in (ref.NA, ref.VALUE):
        return 'err:%s' % w
    return obs_value(w)


def accepts(w, got):
    if w == ref.ANY_ERROR:
        return got.startswith('err:')
    return got == want_obs(w)


class Rec:
    """Filters recording to one key when replaying."""

    def __init__(self, ctx, only=None):
        self.ctx = ctx
        self.only = only

    def want(self, key):
        return self.only is None or key == self.only

    def judge(self, key, tags, inputs, want, got, nontrivial):
        if not self.want(key):
            return
        if accepts(want, got):
            self.ctx.ok(key, got, nontrivial)
        else:
            self.ctx.fail(key, sorted(tags), inputs, want_obs(want), got,
                          nontrivial)

    def skip(self, key, reason):
        if self.want(key):
            self.ctx.skip(reason)


def run_model(cells, probes):
    d = dict(cells)
    addrs = []
    for i, f in enumerate(probes):
        a = 'Sheet1!%s%d' % (PROBE_COL, i + 1)
        d[a] = f
        addrs.append(a)
    try:
        with lib.time_limit(20):
            model = lib.compile_dict(d)
    except lib.CaseTimeout:
        return ['compile-timeout'] * len(probes)
    except Exception as exc:  # noqa: BLE001
        return ['compile-raise:%s' % type(lib.innermost(exc)).__name__] * \
            len(probes)
    ev = lib.Evaluator(model)
    return [lib.eval_addr(model, a, ev) for a in addrs]


def column_cells(values, col='A'):
    return {'Sheet1!%s%d' % (col, i + 1): v for i, v in enumerate(values)}


def rng(col, n, col2=None):
    return '%s1:%s%d' % (col, col2 or col, n)


def word(alpha, n, idx):
    out = []
    for _ in range(n):
        idx, r = divmod(idx, len(alpha))
        out.append(alpha[r])
    return tuple(reversed(out))


def colkey(values):
    return ','.join(vkey(v) for v in values)


class Batch:
    """Collects the probes of one model, evaluates them, then judges."""

    def __init__(self, cells):
        self.cells = cells
        self.items = []

    def add(self, key, formula, tags, want, nontrivial, skip=None):
        self.items.append((key, formula, tags, want, nontrivial, skip))

    def run(self, rec, base_inputs):
        live = [it for it in self.items if it[5] is None]
        obs = run_model(self.cells, [it[1] for it in live])
        for (key, formula, tags, want, nontriv, _), got in zip(live, obs):
            inputs = dict(base_inputs, key=key, formula=formula,
                          cells=self.cells)
            rec.judge(key, tags, inputs, want, got, nontriv)
        for it in self.items:
            if it[5] is not None:
                rec.skip(it[0], it[5])


# ---------------------------------------------------------------- family A
def run_column(values, ctx, only=None):
    """COUNTIF, SUMIF and exact MATCH over one column."""
    rec = Rec(ctx, only)
    n = len(values)
    cells = column_cells(values, 'A')
    sums = POWERS[:n]
    cells.update(column_cells(sums, 'B'))
    base = 'C15/column/%s' % colkey(values)
    batch = Batch(cells)
    nontriv = n >= 2
    sumif_ok = sumif_supported()
    all_numbers = all(ref.is_number(v) for v in values)
    for crit in CRITERIA:
        ctags = ref.criterion_tags(crit, values)
        batch.add('%s/COUNTIF/crit=%s' % (base, vkey(crit)),
                  '=COUNTIF(%s,%s)' % (rng('A', n), lit(crit)),
                  ctags | {'fn:COUNTIF'}, ref.countif(values, crit), nontriv)
        skip = None if sumif_ok else 'unsupported_by_installed_pandas'
        batch.add('%s/SUMIF3/crit=%s' % (base, vkey(crit)),
                  '=SUMIF(%s,%s,%s)' % (rng('A', n), lit(crit), rng('B', n)),
                  ctags | {'fn:SUMIF', 'sumif:3-args'},
                  ref.sumif(values, crit, sums), nontriv, skip)
        if all_numbers:
            batch.add('%s/SUMIF2/crit=%s' % (base, vkey(crit)),
                      '=SUMIF(%s,%s)' % (rng('A', n), lit(crit)),
                      ctags | {'fn:SUMIF', 'sumif:2-args'},
                      ref.sumif(values, crit), nontriv, skip)
    for k in MATCH_KEYS:
        tags = {'fn:MATCH', 'match:exact',
                'key:number' if ref.is_number(k) else 'key:text'}
        cnt = sum(1 for v in values if v == k)
        tags.add('key:present' if cnt else 'key:absent')
        if cnt > 1:
            tags.add('key:duplicated')
        batch.add('%s/MATCH0/key=%s' % (base, vkey(k)),
                  '=MATCH(%s,%s,0)' % (lit(k), rng('A', n)), tags,
                  ref.match_exact(values, k), nontriv)
    batch.run(rec, {'family': 'column', 'values': list(values)})


# ---------------------------------------------------------------- family A2
# fractional operands and cells, the operands 59/60, and columns that hold a
# number next to the text spelling it (judged for ordering criteria with a
# numeric operand only: a text cell is not of the operand's type)
FRAC_ALPHA = (2.5, 0.1, 59, 60, 59.5, 'apple')
FRAC_CRITERIA = tuple(op + o for op in OPS
                      for o in ('2.5', '0.25', '59', '60', '59.5', '-0.5')) \
    + (2.5, 59.5, 60, '2.5', '60')
DIGIT_ALPHA = (5, '5', 0, '0', 'apple')
DIGIT_CRITERIA = tuple(op + o for op in ('<', '<=', '>', '>=')
                       for o in ('3', '5', '0', '-1', '4.5'))


# words that a lenient number or date parser takes for values
WORD_ALPHA = ('may', 'Sat', 'inf', 5)
WORD_CRITERIA = tuple(op + o for op in OPS
                      for o in ('may', 'sat', 'inf', 'nan', 'MON')) + (
    'may', 'SAT', 'inf', 'nan')


# texts with a line break: the operand of a criterion is everything after the
# operator
LINE_ALPHA = ('a', 'a\nb', 'a\nc', 5)
LINE_CRITERIA = tuple(op + o for op in OPS
                      for o in ('a', 'a\nb', 'A\nB', 'a\n')) + (
    'a', 'a\nb', 'a\nC')


def run_column2(name, values, ctx, only=None):
    rec = Rec(ctx, only)
    n = len(values)
    cells = column_cells(values, 'A')
    # a column of ones: the judged column is also used as the SECOND range of
    # a COUNTIFS whose first pair holds for every row
    cells.update(column_cells([1] * n, 'B'))
    base = 'C15/%s/%s' % (name, colkey(values))
    batch = Batch(cells)
    crits = {'column-frac': FRAC_CRITERIA, 'column-digit': DIGIT_CRITERIA,
             'column-words': WORD_CRITERIA,
             'column-lines': LINE_CRITERIA}[name]
    for crit in crits:
        try:
            want = ref.countif(values, crit)
        except ref.Unjudged as u:
            rec.skip('%s/COUNTIF/crit=%s' % (base, vkey(crit)), u.args[0])
            continue
        tags = {'family:' + name}
        if isinstance(crit, str) and crit.startswith(ref.PREFIXES):
            tags.add('crit:prefixed')
        for fn, form in (('COUNTIF', '=COUNTIF(%s,%s)'),
                         ('COUNTIFS', '=COUNTIFS(%s,%s)')):
            batch.add('%s/%s/crit=%s' % (base, fn, vkey(crit)),
                      form % (rng('A', n), lit(crit)), tags | {'fn:' + fn},
                      want, n >= 2)
        batch.add('%s/COUNTIFS-2nd/crit=%s' % (base, vkey(crit)),
                  '=COUNTIFS(%s,">0",%s,%s)' % (rng('B', n), rng('A', n),
                                                lit(crit)),
                  tags | {'fn:COUNTIFS', 'range:second'}, want, n >= 2)
    batch.run(rec, {'family': name, 'values': list(values)})


# ---------------------------------------------------------------- family B
def run_pair(a, b, mode, ctx, only=None):
    """COUNTIFS / SUMIFS over two equally long columns A and B.
    mode 'full': 8x8 pairs + 4x4x4 triples; mode 'core': 3x3 pairs."""
    rec = Rec(ctx, only)
    n = len(a)
    cells = column_cells(a, 'A')
    cells.update(column_cells(b, 'B'))
    sums = POWERS[:n]
    cells.update(column_cells(sums, 'C'))
    base = 'C15/pair/%s/%s' % (colkey(a), colkey(b))
    batch = Batch(cells)
    sumif_ok = sumif_supported()
    skip = None if sumif_ok else 'unsupported_by_installed_pandas'
    rc = rng('C', n)
    nontriv = n >= 2

    def add(name, spec):
        """spec: list of (column letter, values, criterion)."""
        tags = set()
        for _, vals, crit in spec:
            tags |= ref.criterion_tags(crit, vals)
        tags.add('criteria:%d' % len(spec))
        pairs = [(vals, crit) for _, vals, crit in spec]
        args = ','.join('%s,%s' % (rng(c, n), lit(crit))
                        for c, _, crit in spec)
        batch.add('%s/COUNTIFS/%s' % (base, name), '=COUNTIFS(%s)' % args,
                  tags | {'fn:COUNTIFS'}, ref.countifs(pairs), nontriv)
        batch.add('%s/SUMIFS/%s' % (base, name),
                  '=SUMIFS(%s,%s)' % (rc, args), tags | {'fn:SUMIFS'},
                  ref.sumifs(sums, pairs), nontriv, skip)

    two = C8 if mode == 'full' else C3
    for c1 in two:
        for c2 in two:
            add('2/%s/%s' % (vkey(c1), vkey(c2)),
                [('A', a, c1), ('B', b, c2)])
    if mode == 'full':
        for c1 in C4:
            for c2 in C4:
                for c3 in C4:
                    add('3/%s/%s/%s' % (vkey(c1), vkey(c2), vkey(c3)),
                        [('A', a, c1), ('B', b, c2), ('A', a, c3)])
    # the one-criterion form, once per first column
    if tuple(b) == (ALPHA4[0],) * n:
        for c1 in C8:
            add('1/%s' % vkey(c1), [('A', a, c1)])
    batch.run(rec, {'family': 'pair', 'a': list(a), 'b': list(b),
                    'mode': mode})


# ---------------------------------------------------------------- family B2
# criteria ranges that are rows or blocks, not columns: "position by position"
# is the row-major position
BLOCKS = (((1, 2), ALPHA4), ((2, 1), ALPHA4), ((1, 3), (1, 5, 'b')),
          ((2, 2), (5, 'b')))


def block_cells(values, nr, nc, col0):
    d = {}
    for i in range(nr):
        for j in range(nc):
            d['Sheet1!%s%d' % (chr(ord(col0) + j), i + 1)] = \
                values[i * nc + j]
    return d


def block_rng(nr, nc, col0):
    return '%s1:%s%d' % (col0, chr(ord(col0) + nc - 1), nr)


def run_block(bi, a, b, ctx, only=None):
    (nr, nc), _alpha = BLOCKS[bi]
    rec = Rec(ctx, only)
    cells = block_cells(a, nr, nc, 'A')
    cells.update(block_cells(b, nr, nc, 'E'))
    base = 'C15/block/%dx%d/%s/%s' % (nr, nc, colkey(a), colkey(b))
    batch = Batch(cells)
    ra, rb = block_rng(nr, nc, 'A'), block_rng(nr, nc, 'E')
    for c1 in C3:
        tags1 = ref.criterion_tags(c1, a) | {'shape:%dx%d' % (nr, nc)}
        batch.add('%s/COUNTIF/%s' % (base, vkey(c1)),
                  '=COUNTIF(%s,%s)' % (ra, lit(c1)),
                  tags1 | {'fn:COUNTIF'}, ref.countif(list(a), c1), True)
        for c2 in C3:
            tags = tags1 | ref.criterion_tags(c2, b) | {'criteria:2'}
            batch.add('%s/COUNTIFS/%s/%s' % (base, vkey(c1), vkey(c2)),
                      '=COUNTIFS(%s,%s,%s,%s)' % (ra, lit(c1), rb, lit(c2)),
                      tags | {'fn:COUNTIFS'},
                      ref.countifs([(list(a), c1), (list(b), c2)]), True)
    batch.run(rec, {'family': 'block', 'bi': bi, 'a': list(a),
                    'b': list(b)})


# ---------------------------------------------------------------- family C
def run_approx(values, ctx, only=None):
    rec = Rec(ctx, only)
    n = len(values)
    cells = column_cells(values, 'A')
    base = 'C15/approx/%s' % colkey(values)
    batch = Batch(cells)
    for k in APPROX_KEYS:
        want = ref.match_approx(list(values), k)
        cnt = sum(1 for v in values if v == k)
        for form, suffix in (('type1', ',1'), ('omitted', '')):
            tags = {'fn:MATCH', 'match:approx', 'type:' + form}
            tags.add('key:present' if cnt else 'key:absent')
            if cnt > 1:
                tags.add('key:duplicated')
            if want == ref.ANY_ERROR:
                tags.add('key:below-all')
            if k > max(values):
                tags.add('key:above-all')
            batch.add('%s/key=%d/%s' % (base, k, form),
                      '=MATCH(%d,%s%s)' % (k, rng('A', n), suffix), tags,
                      want, n >= 2)
    batch.run(rec, {'family': 'approx', 'values': list(values)})


MIXED_VALUES = (1, 3, 'apple', 'kiwi')
MIXED_KEYS = (2, 3, 9, 'b', 'kiwi', 'zz', 'Apple')


def mixed_columns(maxlen):
    out = []
    for n in range(2, maxlen + 1):
        for idx in itertools.combinations_with_replacement(
                range(len(MIXED_VALUES)), n):
            col = tuple(MIXED_VALUES[i] for i in idx)
            if any(ref.is_number(v) for v in col) and \
                    any(not ref.is_number(v) for v in col):
                out.append(col)
    return out


def run_approx_mixed(values, ctx, only=None):
    """Ascending columns that hold numbers and then texts."""
    rec = Rec(ctx, only)
    n = len(values)
    batch = Batch(column_cells(values, 'A'))
    base = 'C15/approx-mixed/%s' % colkey(values)
    for k in MIXED_KEYS:
        try:
            want = ref.match_approx_mixed(list(values), k)
        except ref.Unjudged as u:
            rec.skip('%s/key=%s' % (base, vkey(k)), u.args[0])
            continue
        for form, suffix in (('type1', ',1'), ('omitted', '')):
            batch.add('%s/key=%s/%s' % (base, vkey(k), form),
                      '=MATCH(%s,%s%s)' % (lit(k), rng('A', n), suffix),
                      {'fn:MATCH', 'match:approx', 'column:numbers-then-texts',
                       'type:' + form,
                       'key:number' if ref.is_number(k) else 'key:text'},
                      want, True)
    batch.run(rec, {'family': 'approx-mixed', 'values': list(values)})


# ---------------------------------------------------------------- family D
def vl_table(keys, width):
    rows = []
    for r, k in enumerate(keys):
        row = [k, 10 * (r + 1) + 2]
        if width == 3:
            row.append('r%dc3' % (r + 1))
        rows.append(row)
    return rows


def run_vlookup(keys, ctx, only=None):
    rec = Rec(ctx, only)
    n = len(keys)
    for width in (2, 3):
        table = vl_table(keys, width)
        cells = {}
        for r, row in enumerate(table):
            for c, v in enumerate(row):
                cells['Sheet1!%s%d' % ('ABC'[c], r + 1)] = v
        base = 'C15/vlookup/%s/w=%d' % (colkey(keys), width)
        batch = Batch(cells)
        for k in VL_SEARCH:
            cnt = sum(1 for v in keys if v == k)
            for col in range(0, width + 2):
                tags = {'fn:VLOOKUP',
                        'key:number' if ref.is_number(k) else 'key:text',
                        'key:present' if cnt else 'key:absent'}
                if cnt > 1:
                    tags.add('key:duplicated')
                if col < 1:
                    tags.add('colindex:below-1')
                elif col > width:
                    tags.add('colindex:above-width')
                elif col == 1:
                    tags.add('colindex:key-column')
                elif col == 2:
                    tags.add('colindex:2')
                else:
                    tags.add('colindex:3-or-more')
                batch.add('%s/key=%s/col=%d' % (base, vkey(k), col),
                          '=VLOOKUP(%s,%s,%d,FALSE)' % (
                              lit(k), rng('A', n, 'ABC'[width - 1]), col),
                          tags, ref.vlookup(table, k, col), n * width >= 2)
        batch.run(rec, {'family': 'vlookup', 'keys': list(keys)})


# ---------------------------------------------------------------- close keys
# keys that agree in their first nine or ten digits are different keys
CLOSE_TABLES = (
    (1234567890, 1234567891, 1234567892, 1234567894),
    (1000.000001, 1000.0000015, 1000.000002, 1000.000003),
    (0.1234567891, 0.1234567892, 0.1234567894, 0.5),
)
CLOSE_ABSENT = (1234567893, 1234567889, 1000.0000012, 0.1234567893, 1e-12)


def run_close(ctx, only=None):
    rec = Rec(ctx, only)
    for ti, keys in enumerate(CLOSE_TABLES):
        n = len(keys)
        table = [[k, 'row%d' % (i + 1)] for i, k in enumerate(keys)]
        cells = {}
        for r, row in enumerate(table):
            for c, v in enumerate(row):
                cells['Sheet1!%s%d' % ('AB'[c], r + 1)] = v
        batch = Batch(cells)
        for k in keys + CLOSE_ABSENT:
            tags = {'key:number', 'keys:close',
                    'key:present' if k in keys else 'key:absent'}
            batch.add('C15/close/%d/MATCH0/key=%r' % (ti, k),
                      '=MATCH(%s,%s,0)' % (lit(k), rng('A', n)),
                      tags | {'fn:MATCH', 'match:exact'},
                      ref.match_exact(list(keys), k), True)
            batch.add('C15/close/%d/VLOOKUP/key=%r' % (ti, k),
                      '=VLOOKUP(%s,%s,2,FALSE)' % (lit(k), rng('A', n, 'B')),
                      tags | {'fn:VLOOKUP'}, ref.vlookup(table, k, 2), True)
            batch.add('C15/close/%d/COUNTIF/key=%r' % (ti, k),
                      '=COUNTIF(%s,%s)' % (rng('A', n), lit(k)),
                      tags | {'fn:COUNTIF'}, ref.countif(list(keys), k), True)
        batch.run(rec, {'family': 'close'})


# ---------------------------------------------------------------- family E
def run_choose(ctx, only=None):
    rec = Rec(ctx, only)
    for n in range(1, len(CHOOSE_VALUES) + 1):
        values = CHOOSE_VALUES[:n]
        cells = {'Sheet1!A%d' % (i + 1): v for i, v in enumerate(values)}
        # whole indices -1..n+1 and the fractional ones between them
        indices = []
        for i in range(-1, n + 2):
            indices += [i, i + 0.5]
        indices += [0.01, 0.99, n + 1.5]
        rows = {}
        for r, idx in enumerate(indices):
            rows[idx] = r + 1
            cells['Sheet1!B%d' % (r + 1)] = idx
        batch = Batch(cells)
        for idx in indices:
            try:
                want = ref.choose(idx, list(values))
            except ref.Unjudged as u:
                ctx.skip('unjudged:' + u.args[0], 4)
                continue
            itag = 'index:in-range' if 1 <= idx <= n else (
                'index:below-1' if idx < 1 else 'index:above-n')
            if idx != int(idx):
                itag += '-fractional'
            for vs in ('lit', 'ref'):
                for is_ in ('lit', 'ref'):
                    vals = ','.join(
                        lit(v) if vs == 'lit' else 'A%d' % (i + 1)
                        for i, v in enumerate(values))
                    itext = repr(idx) if is_ == 'lit' else 'B%d' % rows[idx]
                    batch.add('C15/choose/n=%d/i=%s/values=%s/index=%s'
                              % (n, idx, vs, is_),
                              '=CHOOSE(%s,%s)' % (itext, vals),
                              {'fn:CHOOSE', itag, 'spell:values-' + vs,
                               'spell:index-' + is_}, want, n >= 2)
        batch.run(rec, {'family': 'choose'})


# ---------------------------------------------------------------- plan
def ascending_columns(maxlen):
    out = []
    for n in range(1, maxlen + 1):
        out.extend(itertools.combinations_with_replacement(APPROX_VALUES, n))
    return out


def plan(tier):
    shards = []
    thorough = tier == 'thorough'
    maxlen = 5 if thorough else 4
    for n in range(1, maxlen + 1):
        total = len(ALPHA6) ** n
        for lo in range(0, total, 12):
            shards.append({'fam': 'column', 'n': n, 'lo': lo,
                           'hi': min(total, lo + 12)})
    for name, alpha in (('column-frac', FRAC_ALPHA),
                        ('column-digit', DIGIT_ALPHA),
                        ('column-words', WORD_ALPHA),
                        ('column-lines', LINE_ALPHA)):
        for n in range(1, (4 if thorough else 3) + 1):
            total = len(alpha) ** n
            for lo in range(0, total, 40):
                shards.append({'fam': name, 'n': n, 'lo': lo,
                               'hi': min(total, lo + 40)})
    pair_plan = ([(2, 'full'), (3, 'full'), (4, 'core')] if thorough
                 else [(2, 'full'), (3, 'core')])
    for n, mode in pair_plan:
        total = len(ALPHA4) ** (2 * n)
        chunk = 4 if mode == 'full' else 64
        for lo in range(0, total, chunk):
            shards.append({'fam': 'pair', 'n': n, 'mode': mode, 'lo': lo,
                           'hi': min(total, lo + chunk)})
    for bi, ((nr, nc), alpha) in enumerate(BLOCKS):
        total = len(alpha) ** (2 * nr * nc)
        for lo in range(0, total, 64):
            shards.append({'fam': 'block', 'bi': bi, 'lo': lo,
                           'hi': min(total, lo + 64)})
    nmix = len(mixed_columns(5 if thorough else 4))
    for lo in range(0, nmix, 10):
        shards.append({'fam': 'approx-mixed',
                       'maxlen': 5 if thorough else 4, 'lo': lo,
                       'hi': min(nmix, lo + 10)})
    asc = len(ascending_columns(6 if thorough else 5))
    for lo in range(0, asc, 12):
        shards.append({'fam': 'approx', 'maxlen': 6 if thorough else 5,
                       'lo': lo, 'hi': min(asc, lo + 12)})
    for n in range(1, (5 if thorough else 4) + 1):
        total = len(VL_KEYS) ** n
        for lo in range(0, total, 8):
            shards.append({'fam': 'vlookup', 'n': n, 'lo': lo,
                           'hi': min(total, lo + 8)})
    shards.append({'fam': 'choose'})
    shards.append({'fam': 'close'})
    return shards


def run_shard(shard, ctx):
    fam = shard['fam']
    if fam == 'column':
        for idx in range(shard['lo'], shard['hi']):
            run_column(word(ALPHA6, shard['n'], idx), ctx)
        if shard['lo'] == 0:
            ctx.sample({'column': list(word(ALPHA6, shard['n'],
                                            shard['hi'] - 1)),
                        'formula': '=COUNTIF(A1:A%d,">=-3")' % shard['n']})
    elif fam in ('column-frac', 'column-digit', 'column-words',
                 'column-lines'):
        alpha = {'column-lines': LINE_ALPHA, 'column-frac': FRAC_ALPHA,
                 'column-digit': DIGIT_ALPHA, 'column-words': WORD_ALPHA}[fam]
        for idx in range(shard['lo'], shard['hi']):
            run_column2(fam, word(alpha, shard['n'], idx), ctx)
        if shard['lo'] == 0:
            ctx.sample({'column': list(word(alpha, shard['n'],
                                            shard['hi'] - 1)),
                        'formula': '=COUNTIF(A1:A%d,">2.5")' % shard['n']})
    elif fam == 'pair':
        n = shard['n']
        for idx in range(shard['lo'], shard['hi']):
            w = word(ALPHA4, 2 * n, idx)
            run_pair(w[:n], w[n:], shard['mode'], ctx)
    elif fam == 'block':
        (nr, nc), alpha = BLOCKS[shard['bi']]
        k = nr * nc
        for idx in range(shard['lo'], shard['hi']):
            w = word(alpha, 2 * k, idx)
            run_block(shard['bi'], w[:k], w[k:], ctx)
        if shard['lo'] == 0:
            ctx.sample({'family': 'block', 'shape': [nr, nc],
                        'formula': '=COUNTIFS(A1:B2,">1",E1:F2,"B")'})
    elif fam == 'approx-mixed':
        for values in mixed_columns(shard['maxlen'])[shard['lo']:shard['hi']]:
            run_approx_mixed(values, ctx)
    elif fam == 'approx':
        cols = ascending_columns(shard['maxlen'])
        for values in cols[shard['lo']:shard['hi']]:
            run_approx(values, ctx)
    elif fam == 'vlookup':
        for idx in range(shard['lo'], shard['hi']):
            run_vlookup(word(VL_KEYS, shard['n'], idx), ctx)
        if shard['lo'] == 0 and shard['n'] == 3:
            ctx.sample({'vlookup_keys': list(word(VL_KEYS, 3, 7)),
                        'formula': '=VLOOKUP("a",A1:C3,3,FALSE)'})
    elif fam == 'close':
        run_close(ctx)
    elif fam == 'choose':
        run_choose(ctx)
    else:
        raise AssertionError(fam)


def replay(inputs, ctx):
    fam = inputs['family']
    only = inputs['key']
    if fam == 'column':
        run_column(tuple(inputs['values']), ctx, only)
    elif fam in ('column-frac', 'column-digit', 'column-words',
                 'column-lines'):
        run_column2(fam, tuple(inputs['values']), ctx, only)
    elif fam == 'approx-mixed':
        run_approx_mixed(tuple(inputs['values']), ctx, only)
    elif fam == 'block':
        run_block(inputs['bi'], tuple(inputs['a']), tuple(inputs['b']), ctx,
                  only)
    elif fam == 'pair':
        run_pair(tuple(inputs['a']), tuple(inputs['b']), inputs['mode'], ctx,
                 only)
    elif fam == 'approx':
        run_approx(tuple(inputs['values']), ctx, only)
    elif fam == 'vlookup':
        run_vlookup(tuple(inputs['keys']), ctx, only)
    elif fam == 'close':
        run_close(ctx, only)
    elif fam == 'choose':
        run_choose(ctx, only)
    else:
        raise AssertionError(fam)


def selftest():
    ref.selftest()
    assert len(CRITERIA) == 45 and len(set(CRITERIA)) == 45
    for c in CRITERIA + C8 + C3 + C4:
        ref.parse_criterion(c)
    assert lit('<=-3') == '"<=-3"' and lit(-3) == '-3' and lit(30.5) == '30.5'
    assert word(ALPHA4, 2, 5) == (5, 5)
    assert len({word(ALPHA6, 2, i) for i in range(36)}) == 36
    assert len(ascending_columns(5)) == 4 + 10 + 20 + 35 + 56
    assert vl_table((1, 'a'), 3) == [[1, 12, 'r1c3'], ['a', 22, 'r2c3']]
    # no lookup key differs from an alphabet entry only by case
    for k in MATCH_KEYS:
        ref.match_exact(list(ALPHA6), k)
    for k in VL_SEARCH:
        ref.match_exact(list(VL_KEYS), k)


TECHNIQUE = ('bounded-exhaustive enumeration of columns / tables x criteria '
             '/ keys / indices, evaluated through Evaluator.evaluate on '
             'freshly compiled models, against a pure-Python linear scan')
LEVEL_TEXT = ('Every column of length <= 4 (thorough 5) over three numbers '
              'and three texts is evaluated against 45 criteria (every '
              'prefix with positive, negative, zero and text operands, plain '
              'values) with COUNTIF and against every present/absent key '
              'with exact MATCH; every pair of short columns with COUNTIFS '
              'under criteria pairs and triples; every ascending numeric '
              'column with approximate MATCH for keys below, between, equal '
              'to and above its values; every small table (duplicate keys '
              'included) with VLOOKUP for every key and column index '
              '0..width+1; every CHOOSE index -1..n+1.  Each result is '
              'compared with a linear scan written from the statement.')
LEVEL_NOTE = ('Trusted: xlmc/ref/scan.py (self-tested).  SUMIF/SUMIFS are '
              'generated but executed only when pandas.DataFrame.applymap '
              'exists (absent in the installed pandas: counted under '
              'skipped_out_of_scope.unsupported_by_installed_pandas).  Not '
              'covered: wildcards, blanks/booleans/dates in criteria '
              'columns, range_lookup TRUE, match_type -1, case-folded lookup '
              'keys, columns longer than 5 (6).')
