"""C03 - references denote exactly the addressed cells on the right sheet.

Oracle scope
  enforced : a scalar reference ($ variants, unqualified / sheet-qualified,
             plain / quoted sheet name) evaluates to the addressed cell of the
             addressed sheet; an unqualified reference means the sheet of the
             cell holding the formula, also after evaluation crossed sheets
             (chains) and for a sibling operand after a cross-sheet operand;
             a rectangle denotes its rows x columns cells in row-major order
             (SUM / COUNTA / CONCAT over every rectangle, every fill
             pattern, gaps of every length); an empty cell reads as blank;
             defined names mean their cell / range; utils.resolve_ranges /
             resolve_address / col2num / num2col agree with base-26
             arithmetic.
  refused  : 3-D references, whole-column references in the quick tier
             (one model costs a million cells; thorough only), unqualified ranges on a non-default sheet of a model
             built by read_and_parse_dict (that reader takes one default
             sheet for all formulas; multi-sheet cases are loaded from .xlsx).
"""
import itertools

from .. import lib
from ..gen import workbooks as W

PROPERTY = 'C03'
WORKER_MEM_GB = 12          # a whole-column reference makes 1 048 576 cells
LEVEL = 'exploration'
RULE = ('generated multi-sheet workbooks (real .xlsx through the reader) and '
        'dict-built models; every target cell x $-spelling x qualification x '
        'host sheet; every cross-sheet chain up to length 4; every rectangle '
        'of the 4x4 grid x spellings x SUM/COUNTA/CONCAT under dense / single '
        '/ empty / checkerboard fills and every blank pattern of rectangles '
        'of <= 6 cells; gaps 0..250; defined names; address utilities on all '
        '18278 columns.  Non-trivial = the probe dereferences at least one '
        'reference whose spelling differs from the plain unqualified one or '
        'whose target lies on another sheet, or a range of >= 2 cells')
BOUNDS = {
    'quick': {'sheets': 3, 'grid': '4x4', 'chain_len': 3, 'gap_max': 250,
              'pattern_cells': 6},
    'thorough': {'sheets': 4, 'grid': '4x4', 'chain_len': 4, 'gap_max': 250,
                 'pattern_cells': 8},
}
ASSUMPTIONS = ['workbooks are written with openpyxl and read back by the '
               'library\'s own reader',
               'cell values encode (sheet, row, column), so every '
               'mis-resolution changes the result']
TECHNIQUE = ('bounded-exhaustive enumeration of workbook layouts x reference '
             'spellings x rectangles, evaluated by the real library against '
             'the generator\'s dictionary model of the workbook')
LEVEL_TEXT = ('Every reference spelling of every cell and every rectangle of '
              'a 4x4 grid on 3-4 sheets (names with blanks and quotes), '
              'every cross-sheet chain, every blank pattern of small '
              'rectangles and every gap length around the MAX_EMPTY '
              'thresholds is evaluated by the real library and compared with '
              'a dictionary model kept by the generator.')
LEVEL_NOTE = ('Trusted: openpyxl as the writer of test workbooks; the '
              'generator\'s dictionary model.  Not covered: grids beyond 4x4 '
              'except the 1-D gap family, whole-column ranges in evaluation.')

CONFIGS = {
    'two': ['Sheet1', 'My Sheet'],
    'dollar': ['Sheet1', 'US$'],
    'apostrophes': ['Sheet1', "Bob's and Al's"],
    'three': ['Sheet1', 'Data_2', "It's"],
    'quotedfirst': ['My Sheet', "It's", 'Sheet1'],
    'four': ['Sheet1', 'My Sheet', 'Data_2', "It's"],
}
TIER_CONFIGS = {'quick': ['two', 'three', 'quotedfirst', 'dollar',
                          'apostrophes'],
                'thorough': ['two', 'three', 'quotedfirst', 'four', 'dollar',
                             'apostrophes']}
PATTERNS = ('dense', 'single', 'empty', 'checker')
FUNCS = ('SUM', 'COUNTA', 'CONCAT')


class Book:
    """Accumulates data + probes, writes the xlsx, evaluates the probes."""

    def __init__(self, titles, pattern='dense'):
        self.titles = titles
        self.cells = {t: dict(W.grid(i, pattern))
                      for i, t in enumerate(titles)}
        self.data = {}
        for i, t in enumerate(titles):
            for coord, v in self.cells[t].items():
                self.data[(t, coord)] = v
        self.probes = []           # (sheet, coord, key, want, tags, nontriv)
        self.next_row = {t: 1 for t in titles}
        self.names = {}

    def value(self, sheet, col, row):
        return self.data.get((sheet, '%s%d' % (col, row)))

    def add_probe(self, host, formula, key, want, tags, nontriv=True,
                  col='H'):
        r = self.next_row[host]
        self.next_row[host] += 1
        coord = '%s%d' % (col, r)
        self.cells[host][coord] = formula
        self.probes.append((host, coord, key, want, tags, nontriv, formula))
        return coord

    def put(self, sheet, coord, v):
        self.cells[sheet][coord] = v

    def run(self, ctx, family, extra_inputs=None, after_other=False):
        path = W.write_xlsx([(t, self.cells[t]) for t in self.titles],
                            self.names)
        old_ev = None
        try:
            compiler = lib.ModelCompiler()
            if after_other:
                # another workbook first, through the same compiler: the same
                # sheet titles, other contents, all sheets but the first
                # hidden and left out - none of which is this workbook's
                # business; the evaluator made for the first load is used on
                # whatever model object the second load hands back
                other = W.write_xlsx(
                    [(t, {'A1': 7777, 'B2': '=A1+1', 'H1': '=SUM(A1:B2)'})
                     for t in self.titles], None, hidden=self.titles[1:])
                first = compiler.read_and_parse_archive(other,
                                                        ignore_hidden=True)
                old_ev = lib.Evaluator(first)
                lib.observe(old_ev.evaluate, '%s!H1' % self.titles[0])
            model = compiler.read_and_parse_archive(path)
            if old_ev is not None and old_ev.model is not model:
                old_ev = None
        except Exception as exc:  # noqa: BLE001
            ctx.fail('C03/%s/load' % family, ['load'], None, 'loads',
                     lib.exc_obs(exc))
            return None
        ev = old_ev or lib.Evaluator(model)
        for host, coord, key, want, tags, nontriv, formula in self.probes:
            got = lib.observe(ev.evaluate, '%s!%s' % (host, coord))
            if after_other:
                key = key.replace('C03/', 'C03/after-other/', 1)
                tags = list(tags) + ['history:second-load-of-compiler'] + (
                    ['evaluator:made-before-load'] if old_ev else [])
            inputs = {'family': family, 'key': key}
            inputs.update(extra_inputs or {})
            ctx.check(key, got, want, tags, inputs, nontriv,
                      note='host=%s!%s formula=%s' % (host, coord, formula))
        lib.clear_caches()
        return model


def qual_variants(host, target):
    """(tagname, prefix) ways to qualify a reference to `target` from `host`."""
    out = []
    if host == target:
        out.append(('unqualified', ''))
    for kind, text in W.sheet_spellings(target):
        out.append(('qualified-' + kind, text + '!'))
    return out


# ---- (a) scalar references -------------------------------------------------
def scalar_book(cfg, only=None):
    titles = CONFIGS[cfg]
    book = Book(titles)
    for host in titles:
        for target in titles:
            for r in W.ROWS:
                for ci, c in enumerate(W.COLS):
                    for d in W.DOLLAR_CELL:
                        for qname, prefix in qual_variants(host, target):
                            ref = prefix + W.cell_spelling(c, r, d)
                            v = book.value(target, c, r)
                            tags = ['ref:' + qname]
                            if d != ('', ''):
                                tags.append('ref:dollar')
                            if W.needs_quotes(target):
                                tags.append('ref:quoted-sheet')
                            if host != target:
                                tags.append('ref:cross-sheet')
                            nontriv = len(tags) > 1 or qname != 'unqualified'
                            base = 'C03/scalar/%s/host=%s/%s' % (cfg, host,
                                                                 ref)
                            if only and not base.startswith(only):
                                continue
                            book.add_probe(host, '=' + ref, base + '/id',
                                           lib.norm(v), tags, nontriv)
                            book.add_probe(host, '=%s*2' % ref, base + '/x2',
                                           lib.norm(v * 2), tags, nontriv)
    return book


# ---- (b) cross-sheet chains --------------------------------------------------
def chain_book(cfg, maxlen):
    titles = CONFIGS[cfg]
    book = Book(titles)
    rows = {t: 10 for t in titles}
    n = 0
    for L in range(1, maxlen + 1):
        for seq in itertools.product(range(len(titles)), repeat=L + 1):
            # qualification choices for links that stay on the sheet
            same = [k for k in range(L) if seq[k] == seq[k + 1]]
            for choice in itertools.product((0, 1), repeat=len(same)):
                unq = {k for k, c in zip(same, choice) if c == 0}
                n += 1
                coords = []
                for k in range(L + 1):
                    t = titles[seq[k]]
                    coords.append('K%d' % rows[t])
                    rows[t] += 1
                total = 5
                for k in range(L, -1, -1):
                    t = titles[seq[k]]
                    if k == L:
                        book.put(t, coords[k], 5)
                        continue
                    nt = titles[seq[k + 1]]
                    if k in unq:
                        ref = coords[k + 1]
                    else:
                        ref = W.sheet_spellings(nt)[-1][1] + '!' + \
                            coords[k + 1]
                    # sibling operand AFTER the (possibly cross-sheet) one:
                    # must still mean this sheet's A1
                    book.put(t, coords[k], '=%s+A1' % ref)
                    total += book.value(t, 'A', 1)
                head = titles[seq[0]]
                key = 'C03/chain/%s/%s/unq=%s' % (
                    cfg, '>'.join(str(s) for s in seq),
                    ''.join(str(k) for k in sorted(unq)) or '-')
                tags = ['chain', 'len:%d' % L]
                if len(set(seq)) > 1:
                    tags.append('ref:cross-sheet')
                if unq:
                    tags.append('ref:unqualified-after-crossing')
                book.probes.append((head, coords[0], key, lib.norm(total),
                                    tags, True, '(chain head)'))
    return book


# ---- (c) rectangles ------------------------------------------------------------
DOLLAR_RANGE = (
    (('', ''), ('', '')), (('$', '$'), ('$', '$')),
    (('$', ''), ('', '$')), (('', '$'), ('$', '')),
)


def range_expect(values, func):
    """values: row-major list of cell values or None."""
    present = [v for v in values if v is not None]
    if func == 'SUM':
        return lib.norm(sum(present))
    if func == 'COUNTA':
        return lib.norm(len(present))
    return lib.norm(''.join(str(v) for v in present))


def range_book(cfg, pattern):
    titles = CONFIGS[cfg]
    book = Book(titles, pattern)
    for host in titles:
        for target in titles:
            if host != target and target != titles[-1] and host != titles[0]:
                continue          # all same-sheet combos, cross-sheet: subset
            for (r1, c1, r2, c2) in W.rectangles():
                vals = [book.value(target, W.COLS[c], r)
                        for r in range(r1, r2 + 1)
                        for c in range(c1, c2 + 1)]
                for di, (da, db) in enumerate(DOLLAR_RANGE):
                    rng = '%s:%s' % (W.cell_spelling(W.COLS[c1], r1, da),
                                     W.cell_spelling(W.COLS[c2], r2, db))
                    for qname, prefix in qual_variants(host, target):
                        if di and qname == 'qualified-quoted' and \
                                not W.needs_quotes(target):
                            continue
                        for func in FUNCS:
                            if func == 'CONCAT' and di not in (0, 1):
                                continue
                            key = 'C03/range/%s/%s/host=%s/%s(%s%s)' % (
                                cfg, pattern, host, func, prefix, rng)
                            tags = ['range', 'fn:' + func, 'ref:' + qname,
                                    'fill:' + pattern]
                            if di:
                                tags.append('ref:dollar')
                            if host != target:
                                tags.append('ref:cross-sheet')
                            if W.needs_quotes(target):
                                tags.append('ref:quoted-sheet')
                            book.add_probe(
                                host, '=%s(%s%s)' % (func, prefix, rng), key,
                                range_expect(vals, func), tags,
                                len(vals) >= 2)
                            if func == 'SUM' and di == 0 and \
                                    (r2, c2) == (r1 + 1, c1 + 1):
                                # the same reference followed / preceded /
                                # guarded by an unqualified sibling: the
                                # sibling still means the HOST sheet
                                own = book.value(host, 'A', 1) or 0
                                tot = sum(v for v in vals if v is not None)
                                for form, text in (
                                        ('then-unqualified',
                                         '=SUM(%s%s)+A1' % (prefix, rng)),
                                        ('after-unqualified',
                                         '=A1+SUM(%s%s)' % (prefix, rng)),
                                        ('in-if', '=IF(SUM(%s%s)>=0,A1,0)'
                                         % (prefix, rng))):
                                    # IF hands an empty cell on as it is
                                    want = book.value(host, 'A', 1) \
                                        if form == 'in-if' else tot + own
                                    book.add_probe(
                                        host, text, key + '/' + form,
                                        lib.norm(want),
                                        tags + ['sibling:unqualified'], True)
    return book


def small_rectangles(max_cells):
    for (r1, c1, r2, c2) in W.rectangles():
        n = (r2 - r1 + 1) * (c2 - c1 + 1)
        if n <= max_cells and (r1, c1) in ((1, 0), (2, 1)):
            yield r1, c1, r2, c2


def run_fill(rect, max_cells, ctx):
    """Every blank / non-blank pattern of one small rectangle (dict model)."""
    r1, c1, r2, c2 = rect
    addrs = [(r, c) for r in range(r1, r2 + 1) for c in range(c1, c2 + 1)]
    rng = '%s%d:%s%d' % (W.COLS[c1], r1, W.COLS[c2], r2)
    spellings = [rng, '$%s$%d:$%s$%d' % (W.COLS[c1], r1, W.COLS[c2], r2),
                 'Sheet1!' + rng]
    for mask in range(2 ** len(addrs)):
        cells = {}
        vals = []
        for i, (r, c) in enumerate(addrs):
            if mask >> i & 1:
                v = r * 10 + c + 1
                cells['Sheet1!%s%d' % (W.COLS[c], r)] = v
                vals.append(v)
            else:
                vals.append(None)
        probes = []
        n = 0
        for sp in spellings:
            for func in FUNCS:
                n += 1
                at = 'Sheet1!H%d' % n
                cells[at] = '=%s(%s)' % (func, sp)
                probes.append((at, func, sp))
        # the rectangle has rows x columns members whatever is blank: every
        # member, blank or not, differs from "~"; and it pairs off, position
        # by position, with a dense rectangle of the same shape
        mirror = '%s%d:%s%d' % (chr(ord(W.COLS[c1]) + 10), r1,
                                chr(ord(W.COLS[c2]) + 10), r2)
        for (r, c) in addrs:
            cells['Sheet1!%s%d' % (chr(ord(W.COLS[c]) + 10), r)] = 1
        for func, text in (('CELLS', 'COUNTIF(%s,"<>~")' % rng),
                           ('PAIRED', 'SUMPRODUCT(%s,%s)' % (rng, mirror))):
            n += 1
            at = 'Sheet1!H%d' % n
            cells[at] = '=' + text
            probes.append((at, func, text))
        try:
            model = lib.compile_dict(cells)
        except Exception as exc:  # noqa: BLE001
            ctx.fail('C03/fill/%s/mask=%d/compile' % (rng, mask), ['compile'],
                     {'family': 'fill', 'rect': list(rect), 'mask': mask},
                     'compiles', lib.exc_obs(exc))
            continue
        ev = lib.Evaluator(model)
        for at, func, sp in probes:
            got = lib.observe(ev.evaluate, at)
            tags = ['range', 'fn:' + func, 'fill:pattern']
            if '$' in sp:
                tags.append('ref:dollar')
            if None in vals:
                tags.append('fill:has-blank')
            want = lib.norm(len(vals)) if func == 'CELLS' else \
                range_expect(vals, 'SUM' if func == 'PAIRED' else func)
            if func in ('CELLS', 'PAIRED'):
                tags.append('oracle:shape')
            ctx.check('C03/fill/%s/mask=%d/%s(%s)' % (rng, mask, func, sp),
                      got, want, tags,
                      {'family': 'fill', 'rect': list(rect), 'mask': mask,
                       'max_cells': max_cells}, len(addrs) >= 2)
        lib.clear_caches()


# ---- (d) gaps ---------------------------------------------------------------------
GAPS = [0, 1, 2, 3, 98, 99, 100, 101, 102, 103, 198, 199, 200, 201, 202, 203,
        250]


def col_name(n):
    s = ''
    while n > 0:
        n, r = divmod(n - 1, 26)
        s = chr(65 + r) + s
    return s


def run_gap(direction, g, ctx):
    n = g + 2
    if direction == 'row':
        first, last = 'A1', '%s1' % col_name(n)
        mid = '%s1' % col_name(n // 2 + 1) if g >= 1 else None
    elif direction == '2d':
        # two columns: the blank cells between the first and the last cell
        # of A1:B<r> in row-major order are g = 2r - 2
        assert g % 2 == 0
        first, last = 'A1', 'B%d' % (n // 2)
        mid = None
    else:
        first, last = 'A1', 'A%d' % n
        mid = 'A%d' % (n // 2 + 1) if g >= 1 else None
    for variant in ('two-ends', 'ends-and-after'):
        cells = {'Sheet1!' + first: 1, 'Sheet1!' + last: 2}
        vals = [1, 2]
        rng = '%s:%s' % (first, last)
        if variant == 'ends-and-after':
            # a third value right after the range end must NOT be included
            after = ('%s1' % col_name(n + 1)) if direction == 'row' \
                else ('A%d' % (n + 1) if direction == 'column'
                      else 'A%d' % (n // 2 + 1))
            cells['Sheet1!' + after] = 4
        for i, func in enumerate(FUNCS):
            cells['Sheet1!ZZ%d' % (900 + i)] = '=%s(%s)' % (func, rng)
        model = lib.compile_dict(cells)
        ev = lib.Evaluator(model)
        for i, func in enumerate(FUNCS):
            got = lib.observe(ev.evaluate, 'Sheet1!ZZ%d' % (900 + i))
            tags = ['range', 'gap', 'dir:' + direction, 'fn:' + func]
            if g > 100:
                tags.append('gap:over-100')
            ctx.check('C03/gap/%s/g=%d/%s/%s' % (direction, g, variant, func),
                      got, range_expect(vals, func), tags,
                      {'family': 'gap', 'direction': direction, 'g': g}, True)
        lib.clear_caches()
    del mid


# ---- (d1) more range shapes -----------------------------------------------------
def run_shapes(ctx):
    """(i) row-major order for ranges in columns beyond A-D (column numbers
    around 8, 16, 24, 32); (ii) the same rectangle on two sheets inside one
    formula; (iii) long runs of zeros / FALSE are values, not blanks."""
    inputs = {'family': 'shapes'}
    # (i) order
    cells = {}
    for ci in range(5, 36):                      # F .. AI
        cells['Sheet1!%s1' % col_name(ci)] = ci
        cells['Sheet1!%s2' % col_name(ci)] = 100 + ci
    probes = []
    for lo in range(5, 34):
        for width in (2, 3, 5):
            hi = min(lo + width - 1, 35)
            rng = '%s1:%s2' % (col_name(lo), col_name(hi))
            want = ''.join(str(v) for r in (0, 100)
                           for v in range(r + lo, r + hi + 1))
            probes.append(('CONCAT(%s)' % rng, 'text:' + want))
    for i, (f, want) in enumerate(probes):
        cells['Sheet1!A%d' % (10 + i)] = '=' + f
    model = lib.compile_dict(cells)
    ev = lib.Evaluator(model)
    for i, (f, want) in enumerate(probes):
        ctx.check('C03/shapes/order/' + f,
                  lib.observe(ev.evaluate, 'Sheet1!A%d' % (10 + i)), want,
                  ['range', 'order:row-major', 'cols:beyond-D'], inputs, True)
    lib.clear_caches()
    # (ii) one rectangle text, two sheets, one formula (a model of its own:
    # no other formula may register the ranges)
    for r1, c1, r2, c2 in ((1, 0, 3, 0), (1, 0, 2, 1), (2, 1, 3, 2)):
        rect = '%s%d:%s%d' % (W.COLS[c1], r1, W.COLS[c2], r2)
        drect = '$%s$%d:$%s$%d' % (W.COLS[c1], r1, W.COLS[c2], r2)
        own = other = 0
        cells = {}
        for r in range(r1, r2 + 1):
            for c in range(c1, c2 + 1):
                a = '%s%d' % (W.COLS[c], r)
                cells['Sheet1!' + a] = r * 10 + c + 1
                cells['Data!' + a] = 500 + r * 10 + c
                own += r * 10 + c + 1
                other += 500 + r * 10 + c
        for k, (f, want) in enumerate((
                ('SUM(%s)+SUM(Data!%s)' % (rect, rect), own + other),
                ('SUM(Data!%s)-SUM(%s)' % (rect, drect), other - own),
                ('SUM(Data!%s)*2' % rect, other * 2))):
            m = dict(cells)
            m['Sheet1!H1'] = '=' + f
            ctx.check('C03/shapes/two-sheets/%s/%d' % (rect, k),
                      lib.eval_addr(lib.compile_dict(m), 'Sheet1!H1'),
                      lib.norm(want),
                      ['range', 'same-rectangle-on-two-sheets'], inputs, True)
    # (iii) runs of falsy values
    for direction in ('row', 'column'):
        for filler, fname in ((0, 'zero'), (False, 'false')):
            for n in (99, 101, 130):
                cells = {}
                for k in range(n):
                    a = ('%s1' % col_name(k + 1)) if direction == 'row' \
                        else 'A%d' % (k + 1)
                    cells['Sheet1!' + a] = filler
                last = ('%s1' % col_name(n + 1)) if direction == 'row' \
                    else 'A%d' % (n + 1)
                cells['Sheet1!' + last] = 7
                rng = 'A1:' + last
                for k, (f, want) in enumerate((
                        ('SUM(%s)' % rng, 7),
                        ('COUNTA(%s)' % rng, n + 1),
                        ('COUNT(%s)' % rng, n + 1 if fname == 'zero'
                         else None))):
                    if want is None:
                        continue           # COUNT of logicals: not C03's
                    m = dict(cells)
                    m['Sheet1!ZZ9'] = '=' + f
                    ctx.check('C03/shapes/run-of-%s/%s/n=%d/%s'
                              % (fname, direction, n, f.split('(')[0]),
                              lib.eval_addr(lib.compile_dict(m),
                                            'Sheet1!ZZ9'), lib.norm(want),
                              ['range', 'run-of-falsy-values',
                               'dir:' + direction], inputs, True)


# ---- (d2) whole-row / whole-column references ------------------------------------
WHOLE_ROW = ['2:2', '$2:$2', '$2:2', '2:$2', '2:3', '$2:$3', '$2:3',
             'Sheet1!2:2', 'Sheet1!$2:$2', "'Sheet1'!$2:$3"]
WHOLE_COL = ['B:B', '$B:$B', 'Sheet1!$B:B']


def run_whole(kind, ctx):
    """Every $-spelling of a whole-row (thorough: whole-column) reference
    denotes the same cells as the plain spelling."""
    if kind == 'row':
        data = {'A2': 1, 'B2': 2, 'D2': 4, 'A3': 10, 'C3': 30}
        spellings = WHOLE_ROW
    else:
        data = {'B1': 1, 'B2': 2, 'B4': 4}
        spellings = WHOLE_COL
    for sp in spellings:
        cells = {'Sheet1!' + k: v for k, v in data.items()}
        body = sp.split('!')[-1].replace('$', '')
        lo, hi = body.split(':')
        if kind == 'row':
            vals = [v for k, v in sorted(data.items())
                    if int(lo) <= int(k[1:]) <= int(hi)]
            at = ['Sheet1!F10', 'Sheet1!F11']
        else:
            vals = [v for k, v in sorted(data.items())]
            at = ['Sheet1!D1', 'Sheet1!D2']
        cells[at[0]] = '=SUM(%s)' % sp
        cells[at[1]] = '=COUNTA(%s)' % sp
        tags = ['range', 'whole:' + kind]
        if '$' in sp:
            tags.append('ref:dollar')
        inputs = {'family': 'whole', 'kind': kind}
        try:
            with lib.time_limit(120):
                model = lib.compile_dict(cells)
        except Exception as exc:  # noqa: BLE001
            ctx.fail('C03/whole/%s/%s/compile' % (kind, sp), tags, inputs,
                     'compiles', lib.exc_obs(exc))
            continue
        ev = lib.Evaluator(model)
        for a, func in zip(at, ('SUM', 'COUNTA')):
            try:
                with lib.time_limit(120):
                    got = lib.norm(ev.evaluate(a))
            except lib.CaseTimeout:
                got = 'timeout'
            except Exception as exc:  # noqa: BLE001
                got = lib.exc_obs(exc)
            ctx.check('C03/whole/%s/%s(%s)' % (kind, func, sp), got,
                      range_expect(vals, func), tags + ['fn:' + func], inputs,
                      True)
        # a cell of that row / column beyond the area that was in use when
        # the model was compiled is set: it belongs to the reference, too
        target = 'Sheet1!J%d' % int(lo) if kind == 'row' \
            else 'Sheet1!%s9' % lo
        ev.set_cell_value(target, 100)
        for a, func in zip(at, ('SUM', 'COUNTA')):
            try:
                with lib.time_limit(120):
                    got = lib.norm(ev.evaluate(a))
            except lib.CaseTimeout:
                got = 'timeout'
            except Exception as exc:  # noqa: BLE001
                got = lib.exc_obs(exc)
            ctx.check('C03/whole/%s/%s(%s)/after-set' % (kind, func, sp), got,
                      range_expect(vals + [100], func),
                      tags + ['fn:' + func, 'history:set-beyond-used-area'],
                      inputs, True)
        del model, ev
        lib.clear_caches()


# ---- (e) defined names ----------------------------------------------------------
def names_book():
    titles = ['Sheet1', 'My Sheet', 'US$']
    book = Book(titles)
    book.names = {
        'nm': 'Sheet1!$B$2',
        'rng': 'Sheet1!$A$1:$B$2',
        'qn': "'My Sheet'!$C$3",
        'qrng': "'My Sheet'!$A$1:$A$3",
        # a name for two blocks that share neither rows nor columns
        'parts': 'Sheet1!$A$1:$A$2,Sheet1!$C$3:$D$4',
        # the dollar sign of a sheet name is not an absolute marker
        'drng': "'US$'!$A$1:$B$1",
        # names that end like the mantissa of a number in scientific
        # notation (FY21E+FY22E is not 21E+...)
        'FY21E': 'Sheet1!$C$1',
        'FY22E': 'Sheet1!$D$2',
        # a sheet may have a name of its own with the text of a workbook
        # name: on the other sheets the workbook's name is meant
        ('US$', 'nm'): "'US$'!$D$4",
        ('US$', 'rng'): "'US$'!$C$3:$D$4",
    }
    v = book.value
    s1, s2, s3 = titles
    partsum = v(s1, 'A', 1) + v(s1, 'A', 2) + sum(
        v(s1, c, r) for r in (3, 4) for c in 'CD')
    rngsum = sum(v(s1, c, r) for r in (1, 2) for c in 'AB')
    qsum = sum(v(s2, 'A', r) for r in (1, 2, 3))
    for host in titles:
        for text, want in (
                ('=FY21E+FY22E', v(s1, 'C', 1) + v(s1, 'D', 2)),
                ('=FY21E-FY22E', v(s1, 'C', 1) - v(s1, 'D', 2)),
                ('=FY21E-1', v(s1, 'C', 1) - 1),
                ('=2*FY22E+1', 2 * v(s1, 'D', 2) + 1)):
            book.add_probe(host, text,
                           'C03/names/host=%s/%s' % (host, text[1:]),
                           lib.norm(want), ['name:cell', 'name:ends-in-E'])
        if host == s1:
            # the rectangle of rng, written out (a model extracted around
            # =SUM(rng) does not hold this formula)
            book.add_probe(host, '=MAX(Sheet1!$A$1:$B$2)',
                           'C03/names/host=%s/MAX(literal rng)' % host,
                           lib.norm(max(v(s1, c, r) for r in (1, 2)
                                        for c in 'AB')), ['range'])
        book.add_probe(host, '=SUM(drng)',
                       'C03/names/host=%s/SUM(drng)' % host,
                       lib.norm(v(s3, 'A', 1) + v(s3, 'B', 1)),
                       ['name:range', 'name:quoted-sheet',
                        'sheetname:dollar'])
        if host != s3:
            # (on the sheet that has names nm and rng of its own, those are
            # meant - which the library does not know of: not judged)
            book.add_probe(host, '=nm+1', 'C03/names/host=%s/nm+1' % host,
                           lib.norm(v(s1, 'B', 2) + 1), ['name:cell'])
            book.add_probe(host, '=SUM(rng)',
                           'C03/names/host=%s/SUM(rng)' % host,
                           lib.norm(rngsum), ['name:range'])
            book.add_probe(host, '=COUNTA(rng)',
                           'C03/names/host=%s/COUNTA(rng)' % host,
                           lib.norm(4), ['name:range'])
        book.add_probe(host, '=SUM(parts)',
                       'C03/names/host=%s/SUM(parts)' % host,
                       lib.norm(partsum), ['name:range', 'name:two-areas'])
        book.add_probe(host, '=COUNTA(parts)',
                       'C03/names/host=%s/COUNTA(parts)' % host, lib.norm(6),
                       ['name:range', 'name:two-areas'])
        book.add_probe(host, '=qn*2', 'C03/names/host=%s/qn*2' % host,
                       lib.norm(v(s2, 'C', 3) * 2),
                       ['name:cell', 'name:quoted-sheet'])
        book.add_probe(host, '=SUM(qrng)',
                       'C03/names/host=%s/SUM(qrng)' % host, lib.norm(qsum),
                       ['name:range', 'name:quoted-sheet'])
    return book


def run_names(ctx):
    book = names_book()
    model = book.run(ctx, 'names')
    if model is None:
        return
    ev = lib.Evaluator(model)
    v = book.value
    for name, want, tags in (
            ('nm', v('Sheet1', 'B', 2), ['name:cell']),
            ('qn', v('My Sheet', 'C', 3), ['name:cell',
                                           'name:quoted-sheet'])):
        got = lib.observe(ev.evaluate, name)
        ctx.check('C03/names/evaluate(%s)' % name, got, lib.norm(want),
                  tags + ['via:evaluate'], {'family': 'names'}, True)
    # the name means its cell in a model extracted from this one, too: a
    # value set through the name there is what formulas see there
    probe = [p for p in book.probes if p[2] == 'C03/names/host=Sheet1/nm+1']
    host, coord = probe[0][0], probe[0][1]
    addr = '%s!%s' % (host, coord)
    try:
        ext = lib.ModelCompiler.extract(model, focus=[addr])
        ext.set_cell_value('nm', 500)
        got = lib.eval_addr(ext, addr)
        got2 = lib.observe(ext.get_cell_value, 'Sheet1!B2')
    except Exception as exc:  # noqa: BLE001
        got = got2 = lib.exc_obs(exc)
    ctx.check('C03/names/extracted/set(nm)/nm+1', got, lib.norm(501),
              ['name:cell', 'model:extracted', 'history:set-through-name'],
              {'family': 'names'}, True)
    ctx.check('C03/names/extracted/set(nm)/cell', got2, lib.norm(500),
              ['name:cell', 'model:extracted', 'history:set-through-name'],
              {'family': 'names'}, True)
    # a named range means its cells in an extracted model as well - also
    # when another formula of the workbook spells the same rectangle
    for text, want in (('SUM(rng)', sum(v('Sheet1', c, r) for r in (1, 2)
                                        for c in 'AB')),
                       ('COUNTA(rng)', 4),
                       ('SUM(qrng)', sum(v('My Sheet', 'A', r)
                                         for r in (1, 2, 3)))):
        probe = [p for p in book.probes
                 if p[2] == 'C03/names/host=Sheet1/' + text]
        addr = '%s!%s' % (probe[0][0], probe[0][1])
        try:
            ext = lib.ModelCompiler.extract(model, focus=[addr])
            got = lib.eval_addr(ext, addr)
        except Exception as exc:  # noqa: BLE001
            got = lib.exc_obs(exc)
        ctx.check('C03/names/extracted/' + text, got, lib.norm(want),
                  ['name:range', 'model:extracted'], {'family': 'names'},
                  True)


# ---- (e1) sheets without any content ----------------------------------------------
def run_emptysheet(ctx):
    """A sheet that holds no cell at all (to be filled later, notes ...):
    every cell of it reads as blank - also after one of them was set."""
    titles = ['Sheet1', 'Notes', 'To Do']
    book = Book(titles)
    for t in titles[1:]:
        book.cells[t] = {}
        for k in [k for k in book.data if k[0] == t]:
            del book.data[k]
    v = book.value
    a1 = v('Sheet1', 'A', 1)
    probes = [
        ('=Notes!$A$1+A1', lib.norm(a1)),
        ('=IF(Notes!B2="","empty","full")', 'text:empty'),
        ("='To Do'!C3+A1", lib.norm(a1)),
        ('=ISBLANK(Notes!D4)', 'bool:True'),
        ("=IF(ISBLANK('To Do'!A1),1,2)", 'num:1.0'),
        ('=Notes!B1&"x"', 'text:x'),
    ]
    for f, want in probes:
        book.add_probe('Sheet1', f, 'C03/emptysheet/%s' % f, want,
                       ['sheet:without-cells', 'cell:empty'])
    model = book.run(ctx, 'emptysheet')
    if model is None:
        return
    # one cell of the empty sheet is set: its neighbours still read blank
    ev = lib.Evaluator(model)
    ev.set_cell_value('Notes!A1', 7)
    for f, want in (('Sheet1!H1', lib.norm(a1 + 7)),
                    ('Sheet1!H2', 'text:empty'), ('Sheet1!H4', 'bool:True')):
        ctx.check('C03/emptysheet/after-set/%s' % f,
                  lib.observe(ev.evaluate, f), want,
                  ['sheet:without-cells', 'history:set'],
                  {'family': 'emptysheet'}, True)
    lib.clear_caches()


# ---- (e2) "the CURRENT value of each cell" ------------------------------------------
# A range over formula cells whose inputs lie outside the range: after an
# input changes, a range-consuming function sees the new values - like the
# same cells referenced one by one.
CURRENT_SHAPES = {'1x3': ['B1', 'C1', 'D1'], '3x1': ['B1', 'B2', 'B3'],
                  '2x2': ['B1', 'C1', 'B2', 'C2']}


def run_current(ctx):
    for shape, members in sorted(CURRENT_SHAPES.items()):
        rng = '%s:%s' % (members[0], members[-1])
        for sheet in ('Sheet1', 'Data'):
            cells = {}
            for k, m in enumerate(members):
                cells['%s!F%d' % (sheet, k + 1)] = k + 1          # inputs
                cells['%s!%s' % (sheet, m)] = '=F%d*10' % (k + 1)
            cells[sheet + '!H1'] = '=SUM(%s)' % rng
            cells[sheet + '!H2'] = '=' + '+'.join(members)
            cells[sheet + '!H3'] = '=MAX(%s)' % rng
            for k in range(len(members)):
                for how in ('evaluator', 'model', 'second-evaluator'):
                    model = lib.compile_dict(cells)
                    ev = lib.Evaluator(model)
                    first = lib.observe(ev.evaluate, sheet + '!H1')
                    lib.observe(ev.evaluate, sheet + '!H3')
                    target = '%s!F%d' % (sheet, k + 1)
                    if how == 'evaluator':
                        ev.set_cell_value(target, 100)
                    elif how == 'model':
                        model.set_cell_value(target, 100)
                    else:
                        lib.Evaluator(model).set_cell_value(target, 100)
                    vals = [(j + 1) * 10 if j != k else 1000
                            for j in range(len(members))]
                    key0 = 'C03/current/%s/%s/set=F%d/%s' % (
                        shape, sheet, k + 1, how)
                    inputs = {'family': 'current'}
                    tags = ['range:over-formulas', 'history:set-outside',
                            'set:' + how]
                    ctx.check(key0 + '/first', first,
                              lib.norm(sum((j + 1) * 10 for j in
                                           range(len(members)))), tags, inputs)
                    ctx.check(key0 + '/SUM', lib.observe(
                        ev.evaluate, sheet + '!H1'), lib.norm(sum(vals)),
                        tags + ['fn:SUM'], inputs)
                    ctx.check(key0 + '/one-by-one', lib.observe(
                        ev.evaluate, sheet + '!H2'), lib.norm(sum(vals)),
                        tags, inputs)
                    ctx.check(key0 + '/MAX', lib.observe(
                        ev.evaluate, sheet + '!H3'), lib.norm(max(vals)),
                        tags + ['fn:MAX'], inputs)
                    lib.clear_caches()


# ---- (f) address utilities -----------------------------------------------------
def run_utils(part, ctx):
    tk = lib.xlparser.tokenizer
    if part == 'columns':
        for n in range(1, 18279):
            name = col_name(n)
            got = lib.observe(lambda: tk.num2col(n))
            ctx.check('C03/utils/num2col/%d' % n, got, 'text:' + name,
                      ['utils:num2col'], {'family': 'utils', 'part': part},
                      n > 26)
            got = lib.observe(lambda: tk.col2num(name))
            ctx.check('C03/utils/col2num/%s' % name, got, lib.norm(n),
                      ['utils:col2num'], {'family': 'utils', 'part': part},
                      n > 26)
        return
    # resolve_ranges / resolve_address on every rectangle x sheet spelling
    for sheet in W.SHEETS:
        for kind, sp in [('none', None)] + W.sheet_spellings(sheet):
            for (r1, c1, r2, c2) in W.rectangles():
                for di, (da, db) in enumerate(DOLLAR_RANGE[:2]):
                    text = '%s:%s' % (W.cell_spelling(W.COLS[c1], r1, da),
                                      W.cell_spelling(W.COLS[c2], r2, db))
                    full = (sp + '!' + text) if sp else text
                    esheet = sheet if sp else 'Sheet1'
                    want = repr((esheet, [
                        ['%s!%s%d' % (esheet, W.COLS[c], r)
                         for c in range(c1, c2 + 1)]
                        for r in range(r1, r2 + 1)]))
                    try:
                        got = repr(tuple(lib.xlutils.resolve_ranges(full)))
                    except Exception as exc:  # noqa: BLE001
                        got = lib.exc_obs(exc)
                    tags = ['utils:resolve_ranges', 'sheet:' + kind]
                    if di:
                        tags.append('ref:dollar')
                    key = 'C03/utils/resolve_ranges/%s' % full
                    if got == want:
                        ctx.ok(key, 'ok', True)
                    else:
                        ctx.fail(key, tags, {'family': 'utils', 'part': part},
                                 'rows x columns in row-major order',
                                 got if got.startswith('raise:')
                                 else 'other-cells', True,
                                 'want=%s got=%s' % (want, got))
            # windows of columns around 8 / 16 / 24 / 32 (row-major order of
            # the columns must not depend on how a set happens to iterate)
            if sheet == 'Sheet1':
                for base in (5, 13, 21, 29):
                    for a in range(base, base + 5):
                        for b in range(a, base + 5):
                            text = '%s1:%s2' % (col_name(a), col_name(b))
                            full = (sp + '!' + text) if sp else text
                            want = repr(('Sheet1', [
                                ['Sheet1!%s%d' % (col_name(c), r)
                                 for c in range(a, b + 1)]
                                for r in (1, 2)]))
                            try:
                                got = repr(tuple(
                                    lib.xlutils.resolve_ranges(full)))
                            except Exception as exc:  # noqa: BLE001
                                got = lib.exc_obs(exc)
                            key = 'C03/utils/resolve_ranges/%s' % full
                            if got == want:
                                ctx.ok(key, 'ok', True)
                            else:
                                ctx.fail(key, ['utils:resolve_ranges',
                                               'cols:beyond-D'],
                                         {'family': 'utils', 'part': part},
                                         'rows x columns in row-major order',
                                         got if got.startswith('raise:')
                                         else 'other-cells', True,
                                         'want=%s got=%s' % (want, got))
            if sp is None:
                continue
            for r in W.ROWS:
                for c in W.COLS:
                    full = '%s!%s%d' % (sp if kind == 'quoted' else sheet,
                                        c, r)
                    try:
                        got = repr(tuple(lib.xlutils.resolve_address(full)))
                    except Exception as exc:  # noqa: BLE001
                        got = lib.exc_obs(exc)
                    want = repr((sheet, c, str(r)))
                    ctx.check('C03/utils/resolve_address/%s' % full, got,
                              want, ['utils:resolve_address', 'sheet:' + kind],
                              {'family': 'utils', 'part': part}, True)


# ---- plan -----------------------------------------------------------------------
def plan(tier):
    shards = []
    for cfg in TIER_CONFIGS[tier]:
        for host in CONFIGS[cfg]:
            shards.append({'family': 'scalar', 'cfg': cfg, 'host': host,
                           'weight': 5})
        shards.append({'family': 'chain', 'cfg': cfg,
                       'maxlen': BOUNDS[tier]['chain_len'], 'weight': 8})
        for pattern in PATTERNS:
            shards.append({'family': 'range', 'cfg': cfg, 'pattern': pattern,
                           'weight': 9})
    # the same through a compiler (and an evaluator) that has loaded another
    # workbook before
    for cfg, pattern in (('two', 'dense'), ('quotedfirst', 'checker')):
        shards.append({'family': 'range-after-other', 'cfg': cfg,
                       'pattern': pattern, 'weight': 9})
    mc = BOUNDS[tier]['pattern_cells']
    for rect in small_rectangles(mc):
        shards.append({'family': 'fill', 'rect': list(rect), 'max_cells': mc})
    for direction in ('row', 'column'):
        for g in GAPS:
            shards.append({'family': 'gap', 'direction': direction, 'g': g})
    for g in (0, 2, 50, 98, 100, 102, 118, 198, 202):
        shards.append({'family': 'gap', 'direction': '2d', 'g': g})
    shards.append({'family': 'names'})
    shards.append({'family': 'current'})
    shards.append({'family': 'emptysheet'})
    shards.append({'family': 'shapes', 'weight': 9})
    shards.append({'family': 'whole', 'kind': 'row', 'weight': 9})
    if tier == 'thorough':
        shards.append({'family': 'whole', 'kind': 'column', 'weight': 20})
    shards.append({'family': 'utils', 'part': 'columns'})
    shards.append({'family': 'utils', 'part': 'resolve'})
    return shards


def run_shard(shard, ctx):
    f = shard['family']
    if f == 'scalar':
        only = 'C03/scalar/%s/host=%s/' % (shard['cfg'], shard['host'])
        book = scalar_book(shard['cfg'], only)
        book.run(ctx, f, {'cfg': shard['cfg'], 'host': shard['host']})
        ctx.sample({'family': f, 'cfg': shard['cfg'],
                    'probe': book.probes[-1][6], 'host': shard['host']})
    elif f == 'chain':
        book = chain_book(shard['cfg'], shard['maxlen'])
        book.run(ctx, f, {'cfg': shard['cfg'], 'maxlen': shard['maxlen']})
    elif f == 'range':
        book = range_book(shard['cfg'], shard['pattern'])
        book.run(ctx, f, {'cfg': shard['cfg'], 'pattern': shard['pattern']})
        ctx.sample({'family': f, 'probe': book.probes[-1][6]})
    elif f == 'range-after-other':
        book = range_book(shard['cfg'], shard['pattern'])
        book.run(ctx, f, {'cfg': shard['cfg'], 'pattern': shard['pattern']},
                 after_other=True)
    elif f == 'fill':
        run_fill(tuple(shard['rect']), shard['max_cells'], ctx)
    elif f == 'gap':
        run_gap(shard['direction'], shard['g'], ctx)
    elif f == 'names':
        run_names(ctx)
    elif f == 'emptysheet':
        run_emptysheet(ctx)
    elif f == 'current':
        run_current(ctx)
        ctx.sample({'family': f, 'cells': {'B1': '=F1*10', 'C1': '=F2*10',
                                           'H1': '=SUM(B1:C1)'},
                    'history': 'evaluate H1; set F1; evaluate H1'})
    elif f == 'shapes':
        run_shapes(ctx)
    elif f == 'whole':
        run_whole(shard['kind'], ctx)
    elif f == 'utils':
        run_utils(shard['part'], ctx)


class _Only:
    """ctx wrapper that records only the replayed key."""

    def __init__(self, ctx, key):
        self.ctx, self.key = ctx, key
        self.tier = ctx.tier

    def check(self, key, got, want, tags=(), inputs=None, nontrivial=True,
              note=None):
        if key == self.key:
            return self.ctx.check(key, got, want, tags, inputs, nontrivial,
                                  note)

    def ok(self, key, got, nontrivial=True):
        if key == self.key:
            self.ctx.ok(key, got, nontrivial)

    def fail(self, key, *a, **k):
        if key == self.key:
            self.ctx.fail(key, *a, **k)

    def skip(self, *a, **k):
        pass

    def sample(self, *a):
        pass

    def count(self, *a, **k):
        pass


def replay(inputs, ctx):
    """Re-run the whole shard the case came from, keep only that case."""
    f = inputs['family']
    shard = {'family': f}
    for k in ('cfg', 'host', 'maxlen', 'pattern', 'rect', 'max_cells',
              'direction', 'g', 'part', 'kind'):
        if k in inputs:
            shard[k] = inputs[k]
    key = inputs.get('key')
    if key is None:
        run_shard(shard, ctx)
    else:
        run_shard(shard, _Only(ctx, key))


def selftest():
    assert col_name(1) == 'A' and col_name(26) == 'Z' and col_name(27) == 'AA'
    assert col_name(18278) == 'ZZZ'
    assert W.quoted("It's") == "'It''s'"
    assert len(list(W.rectangles())) == 100
