"""C17 - text functions agree with 1-based string reference semantics.

Oracle scope
  enforced : LEN, LEFT, RIGHT, MID, FIND, REPLACE, UPPER, LOWER, TRIM, EXACT,
             CONCAT, CONCATENATE and & against xlmc/ref/text1.py (Python
             slicing with 1-based positions, counts clipped at the end, count
             0 -> "", position < 1 or negative count -> *an* error value - any
             code is accepted -, FIND = first position >= start,
             case-sensitive, no such position -> an error value, TRIM
             collapsing inner runs of blanks); the text form of the numbers
             0, 7, -2, 1.5 and of TRUE/FALSE ("TRUE"/"FALSE") wherever a text
             argument is expected; the five identities of the statement,
             evaluated by the library on both sides:
               LEFT(s,n)&RIGHT(s,LEN(s)-n) = s            0 <= n <= LEN(s)
               MID(s,1,n) = LEFT(s,n)                     n >= 0
               LEN(a&b) = LEN(a)+LEN(b)
               REPLACE(s,p,k,t) = LEFT(s,p-1)&t&MID(s,p+k,LEN(s))   p>=1, k>=0
               MID(s,FIND(t,s,p),LEN(t)) = t              where t occurs at >= p
             each through direct xl.FUNCTIONS calls and through formulas with
             string literals (quotes doubled) / cell references.
  refused  : which error code is returned (#VALUE! or #NUM!); FIND of the
             empty text exactly one past the end (documentation and Excel
             disagree); the text form of integral floats, exponent spellings
             and >15-digit numbers (C08); non-integer positions and counts;
             the identities outside their valid range; blank cells; the
             32 767-character limit (not in the statement); arrays/ranges as
             arguments (C14/C07).
"""
import itertools

from .. import lib
from ..gen import texts as gt
from ..ref import text1 as ref

PROPERTY = 'C17'
LEVEL = 'exploration'

REPL = ('', 'X', 'ab', 'a', '"é')
VALS = (0, 7, -2, 1.5, 3.0, -0.0, True, False)   # 3.0 is "3", -0.0 is "0"

# tier -> route -> sizes.  L: longest text; find: (needle lengths, longest
# text) blocks; repl: longest text for REPLACE.
PARAMS = {
    'quick': {
        'call': {'L': 4, 'find': (((0, 2), 4),), 'repl': 4},
        'formula': {'L': 3, 'find': (((0, 2), 3),), 'repl': 3},
        'cell': {'L': 2},
    },
    'thorough': {
        'call': {'L': 6, 'find': (((0, 2), 6), ((3, 3), 5)), 'repl': 5},
        'formula': {'L': 4, 'find': (((0, 2), 4), ((3, 3), 3)), 'repl': 4},
        'cell': {'L': 3},
    },
}

RULE = ('every text of length <= L over {a, b, blank, double quote, e-acute} '
        '(L = 4 direct / 3 formula in quick, 6 / 4 in thorough) x every count '
        'in -2..L+2 and omitted (LEFT, RIGHT), every start in -1..L+2 x count '
        'in -2..L+2 (MID), every needle of length <= 2 (thorough: 3) and its '
        'upper-case variant x every start in -1..L+2 and omitted (FIND), every '
        'start in -1..L+2 x count in -1..L+1 x 5 replacement texts (REPLACE), '
        'all texts and their case variants (LEN, UPPER, LOWER), all texts plus '
        'all texts of length <= 6 over {a, blank, quote} (TRIM), all pairs / '
        'triples of short texts (EXACT, CONCAT, CONCATENATE, &), the values '
        '0, 7, -2, 1.5, TRUE, FALSE in every text position, and the five '
        'identities over the same spaces; each case is executed by a direct '
        'xl.FUNCTIONS call and as a compiled formula (literals; cell '
        'references for short texts and for numbers/booleans).  A case is '
        'non-trivial when the text operated on is non-empty (FIND: needle and '
        'text non-empty; pairs: at least one operand non-empty; conversions: '
        'always) and the reference judged it')
BOUNDS = {
    'quick': {'text_len_direct': 4, 'text_len_formula': 3,
              'needle_len': 2, 'replace_text_len': '4 direct / 3 formula',
              'positions': '-1..L+2', 'counts': '-2..L+2',
              'trim_extra': 'length<=6 over 3 characters'},
    'thorough': {'text_len_direct': 6, 'text_len_formula': 4,
                 'needle_len': '2 on all texts, 3 on texts <=5 direct / <=3 '
                 'formula', 'replace_text_len': '5 direct / 4 formula',
                 'positions': '-1..L+2', 'counts': '-2..L+2',
                 'trim_extra': 'length<=8 direct / 7 formula over 3 '
                 'characters'},
}
ASSUMPTIONS = [
    'reference model xlmc/ref/text1.py = the property statement (self-tested '
    'against the examples of Excel\'s function documentation and against the '
    'five identities over all 156 texts of length <= 3)',
    'the text form of TRUE/FALSE is "TRUE"/"FALSE" (Excel); any error code '
    'counts as "an error value"',
    'Python str.upper/lower coincide with Excel UPPER/LOWER on the alphabet '
    '{a, b, e-acute}',
]

AT = 'Sheet1!Z99'
CELLNAMES = ('A1', 'B1', 'C1', 'D1')
_MISSING = object()


# -- expressions -------------------------------------------------------------
def F(name, *args):
    return ['f', name, list(args)]


def render(e):
    if isinstance(e, bool):
        return 'TRUE' if e else 'FALSE'
    if isinstance(e, str):
        return gt.quoted(e)
    if isinstance(e, (int, float)):
        return repr(e)
    op = e[0]
    if op == 'cell':
        return e[1]
    if op == 'f':
        return '%s(%s)' % (e[1], ','.join(render(a) for a in e[2]))
    return '%s%s%s' % (render(e[1]), op, render(e[2]))


def _names(e, acc):
    if isinstance(e, list):
        if e[0] == 'f':
            acc.add(e[1])
            for a in e[2]:
                _names(a, acc)
        elif e[0] != 'cell':
            _names(e[1], acc)
            _names(e[2], acc)
    return acc


def _amp():
    table = getattr(lib.ast_nodes, 'INFIX_OP_TO_FUNC', None) or {}
    return table.get('&') or lib.FUNCTIONS.get('CONCAT')


def _direct(e):
    if not isinstance(e, list):
        return e
    op = e[0]
    if op == 'f':
        return lib.FUNCTIONS[e[1]](*[_direct(a) for a in e[2]])
    a, b = _direct(e[1]), _direct(e[2])
    if op == '&':
        return _amp()(a, b)
    return lib.FUNCTIONS['OP_ADD' if op == '+' else 'OP_SUB'](a, b)


def run(e, route, cells=None):
    """Observation of the expression on the real library."""
    if route == 'call':
        for n in sorted(_names(e, set())):
            if n not in lib.FUNCTIONS:
                return 'unregistered:%s' % n
        return lib.observe(_direct, e)
    return lib.eval_formula('=' + render(e), cells or {}, at=AT)


def cells_of(e, acc=None):
    acc = {} if acc is None else acc
    if isinstance(e, list):
        if e[0] == 'cell':
            acc['Sheet1!' + e[1]] = e[2]
        elif e[0] == 'f':
            for a in e[2]:
                cells_of(a, acc)
        else:
            cells_of(e[1], acc)
            cells_of(e[2], acc)
    return acc


# -- judging -----------------------------------------------------------------
def judge(ctx, case, route, got=None):
    """case = dict(fam, mode, lhs, rhs, const, tags, nontrivial)."""
    lhs = case['lhs']
    cells = cells_of(lhs)
    key = 'C17/%s/%s/%s' % (case['fam'], route, render(lhs))
    if case['mode'] == 'eq':
        key += '~' + render(case['rhs'])
        cells_of(case['rhs'], cells)
    if cells:
        key += '/' + ','.join('%s=%s' % (k[7:], render(v))
                              for k, v in sorted(cells.items()))
    if case['mode'] == 'ref':
        try:
            want = ref.show(ref.evaluate(lhs))
        except ref.Unjudged as u:
            ctx.skip(u.args[0])
            return None, None
    elif case['mode'] == 'const':
        want = ref.show(case['const'])
    else:
        want = None
    if got is None:
        got = run(lhs, route, cells)
    if want is None:
        # both sides are evaluated by the library; the inputs are valid, so
        # two equal error values / exceptions do not satisfy the identity
        want = run(case['rhs'], route, cells)
        good = (want == got
                and got.startswith(('text:', 'num:', 'bool:')))
    else:
        good = ref.accepts(want, got)
    if good:
        ctx.ok(key, got, case['nontrivial'])
    else:
        inputs = dict(case, route=route, formula='=' + render(lhs))
        ctx.fail(key, sorted(set(case['tags']) | {'route:' + route}), inputs,
                 want, got, case['nontrivial'])
    return got, good


def mk(fam, lhs, tags, nontrivial, mode='ref', rhs=None, const=None):
    return {'fam': fam, 'mode': mode, 'lhs': lhs, 'rhs': rhs, 'const': const,
            'tags': sorted(tags), 'nontrivial': bool(nontrivial)}


def call_case(fam, name, args, nontrivial):
    return mk(fam, F(name, *args), ref.features(name, list(args)),
              nontrivial)


# -- case variants -----------------------------------------------------------
def mixed(s):
    return ''.join(c.upper() if i % 2 == 0 else c for i, c in enumerate(s))


def case_variants(s):
    out = [s]
    for v in (s.upper(), mixed(s)):
        if v not in out:
            out.append(v)
    return out


def needles(lo, hi):
    base = [t for t in gt.texts(hi) if lo <= len(t) <= hi]
    return base + [t.upper() for t in base if t.upper() != t]


def trim_texts(tier, route):
    L = PARAMS[tier][route]['L']
    extra = {'quick': 6, 'thorough': 8 if route == 'call' else 7}[tier]
    base = gt.texts(L)
    seen = set(base)
    return list(base) + [t for t in gt.texts(extra, gt.A3) if t not in seen]


# -- families: generators of cases over a slice [lo, hi) of the family's texts;
# an identity case that follows the call it is about shares its `lhs` object,
# so run_shard reuses the observation instead of evaluating it twice
def fam_unary(tier, route, lo, hi):
    for s in gt.texts(PARAMS[tier][route]['L'])[lo:hi]:
        yield call_case('unary', 'LEN', [s], s)
        for v in case_variants(s):
            yield call_case('unary', 'UPPER', [v], s)
            yield call_case('unary', 'LOWER', [v], s)


# lower-case letters that LOWER must leave alone (case FOLDING rewrites them:
# ss, final sigma, micro sign, long s, ligature)
A_LOWER = ('a', 'ß', 'ς', 'µ', 'ſ', 'ﬁ')


def fam_lowerfix(tier, route, lo, hi):
    for s in gt.texts(3, A_LOWER)[lo:hi]:
        assert s.lower() == s
        yield call_case('lowerfix', 'LOWER', [s], s)
        yield call_case('lowerfix', 'LEN', [s], s)


# TRIM removes the space character only: other white space stays where it is
TRIM_WS = ('\ta', 'a\n', '\xa0a b\xa0', ' \ta ', '\u3000a', 'a \n', '\n',
           ' a\tb ', '\xa0')
# texts that are not in Unicode composed form: a base letter and a combining
# mark are two characters
A_COMB = ('e', '\u0301', 'a')


def fam_special(tier, route, lo, hi):
    for s in TRIM_WS:
        yield call_case('special', 'TRIM', [s], s)
        yield call_case('special', 'LEN', [s], s)
    for s in gt.texts(3, A_COMB):
        yield call_case('special', 'LEN', [s], s)
        yield call_case('special', 'LEFT', [s, 1], s)
        yield call_case('special', 'RIGHT', [s, 1], s)
        yield call_case('special', 'MID', [s, 2, 1], s)
        yield call_case('special', 'FIND', ['\u0301', s], s)
        for t in ('e', '\u0301'):
            yield mk('id-len-concat', F('LEN', ['&', s, t]),
                     {'identity:len-concat', 'text:combining-mark'}, True,
                     mode='eq', rhs=['+', F('LEN', s), F('LEN', t)])


# characters outside the Basic Multilingual Plane: one character each, for LEN
# and for the functions that count with it
A_ASTRAL = ('a', '\U0001F600', '\U0001D49C')


def fam_astral(tier, route, lo, hi):
    for s in gt.texts(3, A_ASTRAL):
        yield call_case('special', 'LEN', [s], s)
        yield call_case('special', 'LEFT', [s, 1], s)
        yield call_case('special', 'RIGHT', [s, 2], s)
        yield call_case('special', 'MID', [s, 2, 1], s)
        yield call_case('special', 'FIND', ['\U0001F600', s], s)
        yield call_case('special', 'REPLACE', [s, 2, 1, 'X'], s)
        for n in range(0, len(s) + 1):
            lhs = ['&', F('LEFT', s, n),
                   F('RIGHT', s, ['-', F('LEN', s), n])]
            yield mk('id-left-right', lhs,
                     {'identity:left-right', 'text:astral'}, s, mode='const',
                     const=s)
            yield mk('id-mid-left', F('MID', s, 1, n),
                     {'identity:mid-left', 'text:astral'}, s, mode='eq',
                     rhs=F('LEFT', s, n))
        for t in ('a', '\U0001F600'):
            yield mk('id-len-concat', F('LEN', ['&', s, t]),
                     {'identity:len-concat', 'text:astral'}, True,
                     mode='eq', rhs=['+', F('LEN', s), F('LEN', t)])


def fam_trim(tier, route, lo, hi):
    for s in trim_texts(tier, route)[lo:hi]:
        yield call_case('trim', 'TRIM', [s], s)


def counts_for(L):
    return [None] + list(range(-2, L + 3))


def fam_leftright(tier, route, lo, hi):
    L = PARAMS[tier][route]['L']
    for s in gt.texts(L)[lo:hi]:
        for n in counts_for(L):
            for name in ('LEFT', 'RIGHT'):
                yield call_case('leftright', name,
                                [s] if n is None else [s, n], s)


def fam_mid(tier, route, lo, hi):
    L = PARAMS[tier][route]['L']
    for s in gt.texts(L)[lo:hi]:
        for p in range(-1, L + 3):
            for k in range(-2, L + 3):
                yield call_case('mid', 'MID', [s, p, k], s)


def fam_find(tier, route, lo, hi, block=0):
    (nlo, nhi), L = PARAMS[tier][route]['find'][block]
    nds = needles(nlo, nhi)
    for s in gt.texts(L)[lo:hi]:
        for t in nds:
            for p in [None] + list(range(-1, L + 3)):
                args = [t, s] if p is None else [t, s, p]
                yield call_case('find', 'FIND', args, s and t)
                if p is not None and p < 1:
                    continue
                try:
                    q = ref.FIND(*args)
                except ref.Unjudged:
                    continue
                if q is ref.ERR:
                    continue
                tags = {'identity:find-mid'}
                if t == '':
                    tags.add('needle:empty')
                if p is None:
                    tags.add('pos:omitted')
                yield mk('id-find-mid',
                         F('MID', s, F('FIND', *args), F('LEN', t)),
                         tags, s and t, mode='const', const=t)


def fam_replace(tier, route, lo, hi):
    L = PARAMS[tier][route]['repl']
    for s in gt.texts(L)[lo:hi]:
        for p in range(-1, L + 3):
            for k in range(-1, L + 2):
                for t in REPL:
                    c = call_case('replace', 'REPLACE', [s, p, k, t], s)
                    yield c
                    if p < 1 or k < 0:
                        continue
                    tags = ({'identity:replace'}
                            | (set(c['tags']) - {'fn:REPLACE'}))
                    rhs = ['&', ['&', F('LEFT', s, ['-', p, 1]), t],
                           F('MID', s, ['+', p, k], F('LEN', s))]
                    yield mk('id-replace', c['lhs'], tags, s, mode='eq',
                             rhs=rhs)


def partners(a, L):
    if len(a) <= 1:
        return gt.texts(L)
    if len(a) <= 2:
        return gt.texts(2)
    return gt.texts(1)


def fam_pair(tier, route, lo, hi):
    L = PARAMS[tier][route]['L']
    for a in gt.texts(L)[lo:hi]:
        pairs = [(a, b) for b in partners(a, L)]
        if a.upper() != a:
            pairs += [(a, a.upper()), (a.upper(), a), (mixed(a), a.upper())]
        seen = set()
        for x, y in pairs:
            if (x, y) in seen:
                continue
            seen.add((x, y))
            nt = x or y
            for name in ('EXACT', 'CONCAT', 'CONCATENATE'):
                yield call_case('pair', name, [x, y], nt)
            yield mk('pair', ['&', x, y], ref.features('&', [x, y]), nt)
            yield mk('id-len-concat', F('LEN', ['&', x, y]),
                     {'identity:len-concat'}, nt, mode='eq',
                     rhs=['+', F('LEN', x), F('LEN', y)])
        if len(a) <= 1:
            yield call_case('pair', 'CONCAT', [a], a)
            yield call_case('pair', 'CONCATENATE', [a], a)
            for b in gt.texts(1):
                for c in gt.texts(1):
                    nt = a or b or c
                    for name in ('CONCAT', 'CONCATENATE'):
                        yield call_case('pair', name, [a, b, c], nt)
                    yield mk('pair', ['&', ['&', a, b], c],
                             ref.features('&', [a, b, c]), nt)


def fam_idlr(tier, route, lo, hi):
    L = PARAMS[tier][route]['L']
    for s in gt.texts(L)[lo:hi]:
        for n in range(0, len(s) + 1):
            tags = {'identity:left-right'}
            if n == len(s):
                tags.add('count:zero')          # RIGHT is asked for 0
            if n == 0:
                tags.add('leftcount:zero')
            if s == '':
                tags.add('text:empty')
            lhs = ['&', F('LEFT', s, n),
                   F('RIGHT', s, ['-', F('LEN', s), n])]
            yield mk('id-left-right', lhs, tags, s, mode='const', const=s)


def fam_idml(tier, route, lo, hi):
    L = PARAMS[tier][route]['L']
    for s in gt.texts(L)[lo:hi]:
        for n in range(0, L + 3):
            tags = {'identity:mid-left'} | ref._count_tags(n, len(s))
            yield mk('id-mid-left', F('MID', s, 1, n), tags, s, mode='eq',
                     rhs=F('LEFT', s, n))


NUMERIC_TEXTS = ('2.5', '2.50', '7', '007', '1E3', '1000', '7 ', ' 7', '-0',
                 '0', '+7', '7.0')


def conv_exprs():
    """Numbers and booleans in every text position."""
    out = []

    def add(name, *args):
        out.append(('conv', name, list(args)))
    for v in VALS:
        tf = ref.text_form(v)
        for name in ('LEN', 'UPPER', 'LOWER', 'TRIM'):
            add(name, v)
        for n in (None, 0, 1, 2, 3, 9, -1):
            for name in ('LEFT', 'RIGHT'):
                add(name, *([v] if n is None else [v, n]))
        for p in (0, 1, 2, 3, 4):
            for k in (0, 1, 2):
                add('MID', v, p, k)
        for c in sorted(set(tf)):
            add('FIND', c, v)
            add('FIND', c, v, 2)
        add('FIND', v, 'x' + tf)
        add('FIND', v, tf.lower() + tf)
        add('FIND', v, v)
        add('REPLACE', v, 2, 1, 'z')
        add('REPLACE', 'abc', 2, 1, v)
        add('REPLACE', v, 1, 0, v)
        add('EXACT', v, tf)
        add('EXACT', tf, v)
        add('EXACT', v, v)
        if tf.lower() != tf:
            add('EXACT', v, tf.lower())
        for w in VALS + ('x', ''):
            for x, y in ((v, w), (w, v)):
                for name in ('CONCAT', 'CONCATENATE', '&'):
                    add(name, x, y)
                out.append(('id-len-concat', 'LEN&', [x, y]))
    # texts that spell the same number differently are different texts (and a
    # number is compared by its own text form)
    for x, y in itertools.product(NUMERIC_TEXTS, repeat=2):
        add('EXACT', x, y)
    for num, text in ((2.5, '2.50'), (7, '007'), (1000, '1E3'), (0, '-0'),
                      (7, '7 '), (2.5, '2.5'), (7, '7')):
        add('EXACT', num, text)
        add('EXACT', text, num)
    uniq, seen = [], set()
    for item in out:
        k = repr(item)             # repr keeps 0 / False and 1 / True apart
        if k not in seen:
            seen.add(k)
            uniq.append(item)
    return uniq


TEXTPOS = {'LEN': (0,), 'LEFT': (0,), 'RIGHT': (0,), 'MID': (0,),
           'FIND': (0, 1), 'REPLACE': (0, 3), 'UPPER': (0,), 'LOWER': (0,),
           'TRIM': (0,), 'EXACT': (0, 1)}      # CONCAT, CONCATENATE: all


def cellify(e, memo):
    """Copy of e with every number / boolean in a text position moved into
    a cell (equal values share a cell); positions and counts stay literals."""
    def lit(x):
        if isinstance(x, str):
            return x
        k = (type(x).__name__, x)
        if k not in memo:
            memo[k] = CELLNAMES[len(memo)]
        return ['cell', memo[k], x]

    def walk(x, textual):
        if isinstance(x, list):
            if x[0] == 'f':
                tp = TEXTPOS.get(x[1])
                return ['f', x[1], [walk(a, tp is None or i in tp)
                                    for i, a in enumerate(x[2])]]
            if x[0] == '&':
                return ['&', walk(x[1], True), walk(x[2], True)]
            return [x[0], walk(x[1], False), walk(x[2], False)]
        return lit(x) if textual else x
    return walk(e, True)


def fam_conv(tier, route, lo, hi):
    for fam, name, args in conv_exprs()[lo:hi]:
        if name == '&':
            case = mk(fam, ['&', args[0], args[1]],
                      ref.features('&', args), True)
        elif name == 'LEN&':
            tags = ({'identity:len-concat'}
                    | (ref.features('&', args) - {'fn:&'}))
            case = mk(fam, F('LEN', ['&', args[0], args[1]]), tags, True,
                      mode='eq',
                      rhs=['+', F('LEN', args[0]), F('LEN', args[1])])
        else:
            case = call_case(fam, name, args, True)
        if route == 'cell':
            memo = {}
            case = dict(case, lhs=cellify(case['lhs'], memo))
            if case['mode'] == 'eq':
                case['rhs'] = cellify(case['rhs'], memo)
        yield case


def fam_cellref(tier, route, lo, hi):
    """Short texts held in cells instead of literals (non-empty: an empty
    cell is a blank, which the property does not talk about)."""
    L = PARAMS[tier]['cell']['L']
    for s in gt.texts(L)[lo:hi]:
        if s == '':
            continue
        A = ['cell', 'A1', s]
        for name in ('LEN', 'UPPER', 'LOWER', 'TRIM'):
            yield mk('cellref', F(name, A), ref.features(name, [s]), True)
        for n in range(-1, L + 2):
            for name in ('LEFT', 'RIGHT'):
                yield mk('cellref', F(name, A, n),
                         ref.features(name, [s, n]), True)
            for p in range(0, L + 2):
                yield mk('cellref', F('MID', A, p, n),
                         ref.features('MID', [s, p, n]), True)
        for t in gt.texts(1)[1:]:
            B = ['cell', 'B1', t]
            yield mk('cellref', ['&', A, B], ref.features('&', [s, t]), True)
            yield mk('cellref', F('EXACT', A, B),
                     ref.features('EXACT', [s, t]), True)
            for p in range(0, L + 2):
                yield mk('cellref', F('FIND', B, A, p),
                         ref.features('FIND', [t, s, p]), True)
            yield mk('cellref', F('REPLACE', A, 1, 1, B),
                     ref.features('REPLACE', [s, 1, 1, t]), True)


FAMILIES = {
    'lowerfix': fam_lowerfix, 'special': fam_special, 'astral': fam_astral,
    'unary': fam_unary, 'trim': fam_trim, 'leftright': fam_leftright,
    'mid': fam_mid, 'find': fam_find, 'replace': fam_replace,
    'pair': fam_pair, 'idlr': fam_idlr, 'idml': fam_idml, 'conv': fam_conv,
    'cellref': fam_cellref,
}

# texts per shard: (direct, formula)
CHUNK = {'unary': (4000, 300), 'trim': (4000, 600), 'leftright': (600, 80),
         'mid': (150, 30), 'find': (25, 4), 'replace': (10, 4),
         'pair': (200, 20), 'idlr': (1500, 150), 'idml': (800, 80)}


def plan(tier):
    shards = []
    for route in ('call', 'formula'):
        P = PARAMS[tier][route]
        ci = 0 if route == 'call' else 1
        n_all = gt.count(P['L'])
        sizes = {'unary': n_all, 'trim': len(trim_texts(tier, route)),
                 'leftright': n_all, 'mid': n_all, 'pair': n_all,
                 'idlr': n_all, 'idml': n_all,
                 'replace': gt.count(P['repl'])}
        for fam in ('unary', 'trim', 'leftright', 'mid', 'replace', 'pair',
                    'idlr', 'idml'):
            step = CHUNK[fam][ci]
            start = 0
            if fam == 'pair':
                # texts of length <= 1 are paired with every text: one each
                start = min(6, sizes[fam])
                for lo in range(0, start):
                    shards.append({'fam': fam, 'route': route, 'lo': lo,
                                   'hi': lo + 1})
            for lo in range(start, sizes[fam], step):
                shards.append({'fam': fam, 'route': route, 'lo': lo,
                               'hi': min(sizes[fam], lo + step)})
        shards.append({'fam': 'special', 'route': route, 'lo': 0, 'hi': 1})
        shards.append({'fam': 'astral', 'route': route, 'lo': 0, 'hi': 1})
        nlow = gt.count(3, len(A_LOWER))
        for lo in range(0, nlow, 90):
            shards.append({'fam': 'lowerfix', 'route': route, 'lo': lo,
                           'hi': min(nlow, lo + 90)})
        for b, ((nlo, nhi), L) in enumerate(P['find']):
            step = CHUNK['find'][ci]
            if nhi >= 3:
                step = max(1, step // 4)
            for lo in range(0, gt.count(L), step):
                shards.append({'fam': 'find', 'route': route, 'lo': lo,
                               'hi': min(gt.count(L), lo + step), 'block': b})
    shards.append({'fam': 'casepair', 'route': 'formula', 'lo': 0, 'hi': 0})
    shards.append({'fam': 'named-book', 'route': 'formula', 'lo': 0,
                   'hi': 0})
    shards.append({'fam': 'long-chain', 'route': 'formula', 'lo': 0,
                   'hi': 0})
    nconv = len(conv_exprs())
    for route in ('call', 'formula', 'cell'):
        for lo in range(0, nconv, 150):
            shards.append({'fam': 'conv', 'route': route, 'lo': lo,
                           'hi': min(nconv, lo + 150)})
    ncell = gt.count(PARAMS[tier]['cell']['L'])
    for lo in range(0, ncell, 8):
        shards.append({'fam': 'cellref', 'route': 'cell', 'lo': lo,
                       'hi': min(ncell, lo + 8)})
    return shards


# two formulas of ONE model whose texts differ only in the case of a text
# literal: each keeps its own literal
CASE_PAIRS = (
    (F('FIND', 'M', 'Miriam McGovern'), F('FIND', 'm', 'Miriam McGovern')),
    (F('EXACT', 'Word', 'word'), F('EXACT', 'word', 'word')),
    (F('LEFT', 'abC', 3), F('LEFT', 'ABC', 3)),
    (['&', 'a', 'B'], ['&', 'A', 'b']),
    (F('LOWER', 'Ab'), F('LOWER', 'aB')),
    (F('LEN', 'straße'), F('LEN', 'STRASSE')),
    (F('MID', 'xYz', 2, 1), F('MID', 'XyZ', 2, 1)),
)


def run_casepairs(ctx):
    for pi, pair in enumerate(CASE_PAIRS):
        for order in ((0, 1), (1, 0)):
            exprs = [pair[k] for k in order]
            cells = {'Sheet1!Z%d' % (k + 1): '=' + render(e)
                     for k, e in enumerate(exprs)}
            try:
                model = lib.compile_dict(cells)
            except Exception as exc:  # noqa: BLE001
                ctx.fail('C17/casepair/%d/%s/compile' % (pi, order),
                         ['family:case-pair'], {'fam': 'casepair'},
                         'compiles', lib.exc_obs(exc))
                continue
            ev = lib.Evaluator(model)
            for k, e in enumerate(exprs):
                got = lib.eval_addr(model, 'Sheet1!Z%d' % (k + 1), ev)
                want = lib.norm(ref_value(e))
                ctx.check('C17/casepair/%d/%d%d/%s' % (
                    pi, order[0], order[1], render(e)), got, want,
                    ['family:case-pair', 'position:%d' % k],
                    {'fam': 'casepair'}, True)


def ref_value(e):
    if isinstance(e, list) and e and e[0] == 'f':
        return ref._FUNCS[e[1]](*[ref_value(a) for a in e[2]])
    if isinstance(e, list) and e and e[0] == '&':
        return ref.CONCAT(ref_value(e[1]), ref_value(e[2]))
    return e


# -- text literals in a workbook that has defined names ---------------------------
# A text literal is its characters - also when they spell a defined name.
NAMED_BOOK_NAMES = {'Total': 'Sheet1!$A$1', 'ab': 'Sheet1!$A$2',
                    'a': 'Sheet1!$A$1:$A$2', 'TOTAL': 'Sheet1!$A$2'}
NAMED_BOOK_PROBES = (
    ('LEN("Total")', 'num:5.0'), ('UPPER("Total")', 'text:TOTAL'),
    ('LOWER("TOTAL")', 'text:total'),
    ('LEFT("Total",2)&RIGHT("Total",LEN("Total")-2)', 'text:Total'),
    ('MID("ab",1,1)', 'text:a'), ('FIND("a","ab")', 'num:1.0'),
    ('EXACT("a","a")', 'bool:True'), ('EXACT("Total","TOTAL")', 'bool:False'),
    ('"ab"&"a"', 'text:aba'), ('CONCAT("Total","ab")', 'text:Totalab'),
    ('REPLACE("Total",1,2,"ab")', 'text:abtal'), ('TRIM(" ab ")', 'text:ab'),
    ('LEN("a")+Total', 'num:6.0'), ('"Total"&Total', 'text:Total5'),
)


def run_named_book(ctx):
    import os
    import tempfile
    import warnings
    from ..gen import rawxlsx
    cells = {'A1': {'form': 'n', 'v': 5}, 'A2': {'form': 'n', 'v': 7}}
    for k, (text, _) in enumerate(NAMED_BOOK_PROBES):
        cells['C%d' % (k + 1)] = {'form': 'f', 'f': text}
    with tempfile.TemporaryDirectory(prefix='xlmc_c17_') as tmp:
        path = os.path.join(tmp, 'named.xlsx')
        with open(path, 'wb') as fp:
            fp.write(rawxlsx.build([('Sheet1', cells)], NAMED_BOOK_NAMES))
        with warnings.catch_warnings():
            warnings.simplefilter('ignore')
            model = lib.ModelCompiler().read_and_parse_archive(path)
    ev = lib.Evaluator(model)
    for k, (text, want) in enumerate(NAMED_BOOK_PROBES):
        got = lib.observe(ev.evaluate, 'Sheet1!C%d' % (k + 1))
        ctx.check('C17/named-book/' + text, got, want,
                  ['family:literal-spells-a-defined-name'],
                  {'fam': 'named-book'}, True,
                  note='workbook with the defined names %s'
                  % sorted(NAMED_BOOK_NAMES))
    lib.clear_caches()


# -- long chains of & -----------------------------------------------------------------
def run_long_chains(ctx):
    """a&b&c&... has no limit on the number of operands (CONCAT, the function,
    has Excel's limit of arguments; the operator is not that function)."""
    pieces = ['a', 'b', '"', 'é', ' ']
    for n in (2, 30, 254, 255, 256, 300):
        parts = [pieces[k % len(pieces)] for k in range(n)]
        text = '&'.join('"%s"' % p.replace('"', '""') for p in parts)
        want = ''.join(parts)
        tags = ['family:long-concat-chain', 'operands:%d' % n]
        ctx.check('C17/chain/%d/value' % n, lib.eval_formula('=' + text),
                  'text:' + want, tags, {'fam': 'long-chain'}, True)
        ctx.check('C17/chain/%d/len' % n,
                  lib.eval_formula('=LEN(%s&"xyz")' % text),
                  lib.norm(len(want) + 3), tags, {'fam': 'long-chain'}, True)
        ctx.check('C17/chain/%d/cells' % n, lib.eval_formula(
            '=' + '&'.join(['A1', 'B1'] * (n // 2)),
            {'Sheet1!A1': 'x', 'Sheet1!B1': 5}),
            'text:' + 'x5' * (n // 2), tags, {'fam': 'long-chain'}, True)


def run_shard(shard, ctx):
    if shard['fam'] == 'long-chain':
        run_long_chains(ctx)
        return
    if shard['fam'] == 'named-book':
        run_named_book(ctx)
        return
    if shard['fam'] == 'casepair':
        run_casepairs(ctx)
        return
    fam, route = shard['fam'], shard['route']
    kw = {'block': shard['block']} if 'block' in shard else {}
    last_lhs, last_got = None, None
    first = True
    for case in FAMILIES[fam](ctx.tier, route, shard['lo'], shard['hi'],
                              **kw):
        # an identity whose left side is the case just executed reuses its
        # observation (same expression, same route, fresh model either way)
        reuse = (last_got if case['mode'] == 'eq' and case['lhs'] is last_lhs
                 else None)
        got, good = judge(ctx, case, route, got=reuse)
        last_lhs, last_got = case['lhs'], got
        if first and case['nontrivial'] and good:
            ctx.sample({'family': case['fam'], 'route': route,
                        'formula': '=' + render(case['lhs']),
                        'cells': cells_of(case['lhs']), 'observed': got})
            first = False


def replay(inputs, ctx):
    if inputs.get('fam') == 'long-chain':
        run_long_chains(ctx)
        return
    if inputs.get('fam') == 'named-book':
        run_named_book(ctx)
        return
    if inputs.get('fam') == 'casepair':
        run_casepairs(ctx)
        return
    case = {k: inputs[k] for k in ('fam', 'mode', 'lhs', 'rhs', 'const',
                                   'tags', 'nontrivial')}
    judge(ctx, case, inputs['route'])


def selftest():
    ref.selftest()
    gt.selftest()
    assert render(F('LEFT', 'a"b', -1)) == 'LEFT("a""b",-1)'
    assert render(['&', F('LEFT', 'ab', 1),
                   F('RIGHT', 'ab', ['-', F('LEN', 'ab'), 1])]) == \
        'LEFT("ab",1)&RIGHT("ab",LEN("ab")-1)'
    assert render(F('LEN', True)) == 'LEN(TRUE)' and render(1.5) == '1.5'
    assert render(F('LEN', ['cell', 'A1', 7])) == 'LEN(A1)'
    assert cells_of(F('FIND', ['cell', 'B1', 'a'], ['cell', 'A1', 7])) == {
        'Sheet1!A1': 7, 'Sheet1!B1': 'a'}
    assert needles(0, 1) == ['', 'a', 'b', ' ', '"', 'é', 'A', 'B', 'É']
    assert len(needles(0, 2)) == 55
    assert case_variants('ab') == ['ab', 'AB', 'Ab']
    assert case_variants(' "') == [' "']
    # every plan is a partition: no text index is covered twice
    for tier in ('quick', 'thorough'):
        seen = set()
        for sh in plan(tier):
            for i in range(sh['lo'], sh['hi']):
                k = (sh['fam'], sh['route'], sh.get('block'), i)
                assert k not in seen, k
                seen.add(k)
    # keys of the conversion family are unique per route
    for route in ('call', 'formula', 'cell'):
        keys = [(c['fam'], render(c['lhs']), repr(cells_of(c['lhs'])))
                for c in fam_conv('quick', route, 0, 10 ** 6)]
        assert len(keys) == len(set(keys)) and len(keys) > 500, len(keys)


TECHNIQUE = ('bounded-exhaustive enumeration of texts x positions x counts x '
             'replacement texts, executed on the real functions (direct calls '
             'and compiled formulas), against a Python-slicing reference '
             'model and the five algebraic identities of the statement')
LEVEL_TEXT = ('Every text of length <= 4 (thorough: 6; formulas 3 / 4) over '
              'an alphabet with repeated letters, blank, double quote and a '
              'non-ASCII letter is combined with every position and count '
              'from below 1 to beyond the text length, every needle of length '
              '<= 2 (3) and five replacement texts; each call is executed by '
              'the real library, directly and as a formula with string '
              'literals, and compared with an independent 1-based slicing '
              'model; the five identities are evaluated by the library on '
              'both sides over the same spaces.')
LEVEL_NOTE = ('Trusted: xlmc/ref/text1.py (self-tested against the examples '
              'of Excel\'s documentation and the identities).  Not covered: '
              'longer texts, other characters (tabs, surrogate pairs), '
              'non-integer positions, the 32 767-character limit, integral '
              'floats as text (C08); any error code is accepted where the '
              'statement says "an error value".')
