"""Known-findings file: parser and matcher.  Read-only at run time.

File format (``/verif/KNOWN_FINDINGS.txt``), one entry per line, ``#`` comments:

    open: property=C07 id=C07-eq-error match={"tags_all": [...], "sig": "regex"} :: what fails
    fixed: property=C03 <commit> <what failed>

``match`` keys (all optional, all must hold):
  tags_all  every listed tag is among the case's tags; an element may be an
            alternation "a|b" (any of them present)
  tags_none none of the listed tags is present
  sig       regular expression that must match the whole failure signature
            ``want=<obs> got=<obs>``
  key       regular expression searched in the case key
A ``fixed:`` line suppresses nothing.
"""
import json
import os
import re

PATH = os.path.join(os.path.dirname(os.path.dirname(os.path.abspath(__file__))),
                    'KNOWN_FINDINGS.txt')


class Finding:
    def __init__(self, prop, fid, match, desc):
        self.prop = prop
        self.id = fid
        self.match = match
        self.desc = desc
        self.tags_all = [t.split('|') for t in match.get('tags_all', [])]
        self.tags_none = set(match.get('tags_none', []))
        self.sig = re.compile(match['sig']) if 'sig' in match else None
        self.key = re.compile(match['key']) if 'key' in match else None

    def matches(self, key, tags, sig):
        tset = set(tags)
        for alts in self.tags_all:
            if not any(a in tset for a in alts):
                return False
        if self.tags_none & tset:
            return False
        if self.sig is not None and not self.sig.fullmatch(sig):
            return False
        if self.key is not None and not self.key.search(key):
            return False
        return True


_LINE = re.compile(
    r'^open:\s+property=(C\d+)\s+id=(\S+)\s+match=(\{.*?\})\s+::\s+(.*)$')
_FIXED = re.compile(r'^fixed:\s+property=(C\d+)\s+(\S+)\s+(.*)$')


def load(path=PATH):
    opened, fixed = [], []
    if not os.path.exists(path):
        return opened, fixed
    with open(path, encoding='utf-8') as fp:
        for n, line in enumerate(fp, 1):
            line = line.rstrip('\n')
            if not line.strip() or line.lstrip().startswith('#'):
                continue
            m = _LINE.match(line)
            if m:
                opened.append(Finding(m.group(1), m.group(2),
                                      json.loads(m.group(3)), m.group(4)))
                continue
            m = _FIXED.match(line)
            if m:
                fixed.append((m.group(1), m.group(2), m.group(3)))
                continue
            raise ValueError('%s:%d: unparsable line: %r' % (path, n, line))
    ids = [f.id for f in opened]
    assert len(ids) == len(set(ids)), 'duplicate finding ids'
    return opened, fixed


def for_property(prop, path=PATH):
    opened, _ = load(path)
    return [f for f in opened if f.prop == prop]
