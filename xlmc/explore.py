"""Engine H: explicit-state exploration of API histories.

A state is the history (operation list) that reaches it.  A transition builds a
FRESH real model, replays the prefix and applies one more operation; oracles are
evaluated on the last step.  States are canonicalised by ``fingerprint`` (a
generic walk of the object graph reachable from the model and evaluators).
"""
import dataclasses
import datetime
import hashlib
import types

import numpy
import pandas

SKIP_ATTRS = frozenset(['unique_identifier'])


def _canon(obj, out, seen, depth=0):
    """Append a canonical token stream for ``obj`` to ``out``."""
    if depth > 200:
        out.append('<deep>')
        return
    if obj is None or isinstance(obj, (bool, int, str, bytes)):
        out.append('%s:%r' % (type(obj).__name__, obj))
        return
    if isinstance(obj, float):
        out.append('float:%r' % (0.0 if obj == 0 else obj))
        return
    if isinstance(obj, (numpy.integer, numpy.floating, numpy.bool_)):
        out.append('np:%r' % (obj.item(),))
        return
    if isinstance(obj, (datetime.datetime, datetime.date)):
        out.append('dt:%s' % obj.isoformat())
        return
    if isinstance(obj, (types.FunctionType, types.BuiltinFunctionType,
                        types.MethodType, type)):
        out.append('fn:%s.%s' % (getattr(obj, '__module__', '?'),
                                 getattr(obj, '__qualname__', repr(obj))))
        return
    oid = id(obj)
    if oid in seen:
        out.append('<ref %d>' % seen[oid])
        return
    seen[oid] = len(seen)
    # keep every visited object alive for the whole walk: temporaries (lists
    # made by DataFrame.values.tolist(), property results) would otherwise be
    # freed and their ids reused, producing spurious back references
    seen.setdefault('keepalive', []).append(obj)
    tname = type(obj).__name__
    if isinstance(obj, dict):
        items = []
        for k, v in obj.items():
            ko, vo = [], []
            _canon(k, ko, seen, depth + 1)
            _canon(v, vo, seen, depth + 1)
            items.append((''.join(ko), ''.join(vo)))
        items.sort()
        out.append('%s{' % tname)
        for k, v in items:
            out.append(k + '=>' + v + ',')
        out.append('}')
        return
    if isinstance(obj, (set, frozenset)):
        items = []
        for v in obj:
            vo = []
            _canon(v, vo, seen, depth + 1)
            items.append(''.join(vo))
        items.sort()
        out.append('%s{%s}' % (tname, ','.join(items)))
        return
    if isinstance(obj, (list, tuple)):
        out.append('%s[' % tname)
        for v in obj:
            _canon(v, out, seen, depth + 1)
            out.append(',')
        out.append(']')
        return
    if isinstance(obj, pandas.DataFrame):
        out.append('%s(' % tname)
        _canon(obj.values.tolist(), out, seen, depth + 1)
        out.append(')')
        return
    if isinstance(obj, BaseException):
        out.append('exc:%s:%s' % (tname, getattr(obj, 'value', '')))
        return
    # generic object: dataclass fields, __dict__, __slots__
    names = []
    if dataclasses.is_dataclass(obj):
        names = [f.name for f in dataclasses.fields(obj)]
    d = getattr(obj, '__dict__', None)
    if d is not None:
        names = list(dict.fromkeys(list(names) + list(d.keys())))
    for klass in type(obj).__mro__:
        slots = klass.__dict__.get('__slots__', ())
        if isinstance(slots, str):
            slots = (slots,)
        for s in slots:
            if s not in names and s not in ('__dict__', '__weakref__'):
                names.append(s)
    out.append('%s(' % tname)
    for n in sorted(names):
        if n in SKIP_ATTRS:
            continue
        try:
            v = getattr(obj, n)
        except AttributeError:
            continue
        out.append(n + '=')
        _canon(v, out, seen, depth + 1)
        out.append(';')
    out.append(')')


def canon_text(*roots):
    out, seen = [], {}
    for r in roots:
        _canon(r, out, seen)
        out.append('|')
    return ''.join(out)


def fingerprint(*roots):
    return hashlib.sha1(canon_text(*roots).encode(
        'utf-8', 'surrogatepass')).hexdigest()


def histories(alphabet_size, depth):
    """All operation-index sequences of length 1..depth, shortest first."""
    frontier = [()]
    for _ in range(depth):
        nxt = []
        for h in frontier:
            for a in range(alphabet_size):
                nxt.append(h + (a,))
        for h in nxt:
            yield h
        frontier = nxt
