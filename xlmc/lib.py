"""Access to the implementation under test and normalisation of observations.

Every check imports the library through this module so that it always runs the
working tree in ``$XLMC_REPO`` (default ``/repo``), never an installed copy.
"""
import importlib
import math
import os
import signal
import sys

REPO = os.path.realpath(os.environ.get('XLMC_REPO', '/repo'))
if sys.path[0] != REPO:
    sys.path.insert(0, REPO)

import xlcalculator  # noqa: E402

assert os.path.realpath(xlcalculator.__file__).startswith(REPO + os.sep), (
    'xlcalculator imported from %s, expected under %s'
    % (xlcalculator.__file__, REPO))

import datetime  # noqa: E402
import numpy  # noqa: E402
from xlcalculator import Evaluator, Model, ModelCompiler  # noqa: E402,F401
from xlcalculator import parser as xlparser  # noqa: E402,F401
from xlcalculator import xltypes  # noqa: E402,F401
XLCell = xltypes.XLCell
from xlcalculator import ast_nodes  # noqa: E402,F401
from xlcalculator import evaluator as xlevaluator  # noqa: E402
from xlcalculator.xlfunctions import xl, xlerrors, func_xltypes  # noqa: E402

# ``xlcalculator.utils`` is shadowed by ``xlfunctions.utils`` through the
# package's star import; this is the real one.
xlutils = importlib.import_module('xlcalculator.utils')

try:  # registered by the package after the C19 repair; harmless otherwise
    engineering = importlib.import_module(
        'xlcalculator.xlfunctions.engineering')
except Exception:  # pragma: no cover
    engineering = None

FUNCTIONS = xl.FUNCTIONS
ExcelError = xlerrors.ExcelError
Number = func_xltypes.Number
Text = func_xltypes.Text
Boolean = func_xltypes.Boolean
DateTime = func_xltypes.DateTime
Blank = func_xltypes.Blank
BLANK = func_xltypes.BLANK
Array = func_xltypes.Array

ERROR_CODES = ('#NULL!', '#DIV/0!', '#VALUE!', '#REF!', '#NAME?', '#NUM!',
               '#N/A')


def clear_caches():
    """Drop the class-level memo of EvaluatorContext (if it still exists) so
    that long-lived workers do not accumulate every context ever made."""
    ec = getattr(xlevaluator, 'EvaluatorContext', None)
    fn = getattr(ec, 'eval_cell', None)
    cc = getattr(fn, 'cache_clear', None)
    if cc is not None:
        cc()


def fnum(x):
    """Canonical spelling of a number: ints and integral floats alike."""
    if isinstance(x, bool):
        x = int(x)
    if isinstance(x, (numpy.integer,)):
        x = int(x)
    if isinstance(x, (numpy.floating,)):
        x = float(x)
    if isinstance(x, int):
        if abs(x) < 2 ** 53:
            return repr(float(x))
        try:
            return repr(float(x))
        except OverflowError:
            return 'inf' if x > 0 else '-inf'
    if isinstance(x, float):
        if x != x:
            return 'nan'
        if x == 0:
            return '0.0'
        return repr(x)
    return 'notnum:%r' % (x,)


def serial_of(dt):
    """Whole-day 1900-system serial of a datetime (independent of the
    library); the time fraction is appended as seconds."""
    if isinstance(dt, numpy.datetime64):
        dt = dt.astype('datetime64[s]').astype(datetime.datetime)
    d = dt.date() if isinstance(dt, datetime.datetime) else dt
    days = (d - datetime.date(1899, 12, 30)).days
    if days < 61:
        days -= 1
    secs = 0
    if isinstance(dt, datetime.datetime):
        secs = dt.hour * 3600 + dt.minute * 60 + dt.second
    return days, secs


def norm(v):
    """Normalise any carrier of an Excel value to an observation string."""
    if isinstance(v, ExcelError):
        return 'err:%s' % (v.value,)
    if isinstance(v, (bool, numpy.bool_)):
        return 'bool:%s' % bool(v)
    if isinstance(v, Boolean):
        return 'bool:%s' % bool(v.value)
    if isinstance(v, Number):
        return norm(v.value)
    if isinstance(v, (int, float, numpy.integer, numpy.floating)):
        f = fnum(v)
        if f in ('nan', 'inf', '-inf'):
            return 'nonfinite:%s' % f
        return 'num:%s' % f
    if isinstance(v, Text):
        return 'text:%s' % (v.value,)
    if isinstance(v, str):
        return 'text:%s' % (v,)
    if v is None or isinstance(v, Blank):
        return 'blank'
    if isinstance(v, DateTime):
        return norm(v.value)
    if isinstance(v, (datetime.datetime, datetime.date, numpy.datetime64)):
        d, s = serial_of(v)
        return 'date:%d' % d if not s else 'date:%d+%ds' % (d, s)
    if isinstance(v, Array):
        return 'array:[%s]' % ';'.join(
            ','.join(norm(c) for c in row) for row in v.values.tolist())
    if isinstance(v, (list, tuple)):
        return 'list:[%s]' % ','.join(norm(c) for c in v)
    return 'other:%s' % type(v).__name__


def innermost(exc):
    """The exception at the bottom of a __cause__/__context__ chain."""
    seen = set()
    while True:
        nxt = exc.__cause__ or exc.__context__
        if nxt is None or id(nxt) in seen:
            return exc
        seen.add(id(exc))
        exc = nxt


def exc_obs(exc):
    """Observation for a Python exception escaping the library.  Evaluator
    wraps everything in RuntimeError(repr(err)); report the innermost type so
    that signatures do not depend on message text."""
    inner = innermost(exc)
    return 'raise:%s' % type(inner).__name__


class CaseTimeout(BaseException):
    """Raised by the SIGALRM handler; BaseException so that the library's
    ``except Exception`` wrappers do not swallow it."""


CASE_TIMEOUT = 8.0


def _on_alarm(signum, frame):
    raise CaseTimeout()


signal.signal(signal.SIGALRM, _on_alarm)


class time_limit:
    """Per-case wall-clock limit (works for big-int arithmetic too: CPython
    checks signals inside long multiplication)."""

    def __init__(self, seconds=None):
        self.seconds = seconds or CASE_TIMEOUT

    def __enter__(self):
        # repeating: code under test that swallows the first CaseTimeout (a
        # bare `except:` around a retry, say) gets the next one 0.25 s later
        signal.setitimer(signal.ITIMER_REAL, self.seconds, 0.25)

    def __exit__(self, *exc):
        signal.setitimer(signal.ITIMER_REAL, 0)
        return False


def observe(fn, *args, **kw):
    try:
        with time_limit():
            return norm(fn(*args, **kw))
    except CaseTimeout:
        return 'timeout'
    except RecursionError:
        return 'raise:RecursionError'
    except MemoryError:
        return 'raise:MemoryError'
    except Exception as exc:  # noqa: BLE001 - that is the point
        return exc_obs(exc)


def call(name, *args):
    """Observation of a direct library call xl.FUNCTIONS[name](*args)."""
    try:
        fn = FUNCTIONS[name]
    except KeyError:
        return 'unregistered:%s' % name
    return observe(fn, *args)


def compile_dict(cells, default_sheet='Sheet1'):
    return ModelCompiler().read_and_parse_dict(dict(cells),
                                               default_sheet=default_sheet)


def eval_addr(model, addr, evaluator=None):
    ev = evaluator or Evaluator(model)
    try:
        return observe(ev.evaluate, addr)
    finally:
        clear_caches()


def eval_formula(formula, cells=None, at='Sheet1!Z99'):
    """Compile a fresh model holding ``cells`` plus ``formula`` at ``at`` and
    return the observation of evaluating it."""
    d = dict(cells or {})
    d[at] = formula
    try:
        with time_limit():
            model = compile_dict(d)
    except CaseTimeout:
        return 'compile-timeout'
    except RecursionError:
        return 'compile-raise:RecursionError'
    except Exception as exc:  # noqa: BLE001
        return 'compile-raise:%s' % type(innermost(exc)).__name__
    return eval_addr(model, at)


def is_num_obs(o):
    return o.startswith('num:')


def num_of(o):
    assert o.startswith('num:'), o
    return float(o[4:])


def close(a, b, rel=1e-12, abs_=0.0):
    if a == b:
        return True
    if math.isinf(a) or math.isinf(b):
        return False
    return abs(a - b) <= max(rel * max(abs(a), abs(b)), abs_)


def ulps(a, b):
    """Distance between two finite doubles in units in the last place."""
    import struct

    def key(x):
        i = struct.unpack('<q', struct.pack('<d', x))[0]
        return i if i >= 0 else -(i & 0x7fffffffffffffff)
    return abs(key(a) - key(b))
