"""Shard runner, failure triage, evidence and replay files."""
import collections
import concurrent.futures
import hashlib
import importlib
import json
import multiprocessing
import os
import random
import subprocess
import sys
import time
import traceback

from . import findings as findings_mod

VERIF = os.path.dirname(os.path.dirname(os.path.abspath(__file__)))
EVIDENCE_DIR = os.path.join(VERIF, 'evidence')
REPLAY_DIR = os.environ.get('XLMC_REPLAY_DIR') or os.path.join(VERIF, 'replays')

MAX_UNMATCHED_PER_GROUP = 3
MAX_GROUPS_REPORTED = 12
MAX_REVERIFY = 6
# rendering / route tags do not split violation groups
GROUP_IGNORE = ('ws:', 'paren:', 'leaf:', 'lit:', 'route:', 'spell:')


_DUMP = os.environ.get('XLMC_DUMP')


class HarnessError(Exception):
    pass


def h64(s):
    return int.from_bytes(
        hashlib.blake2b(s.encode('utf-8', 'surrogatepass'),
                        digest_size=8).digest(), 'big')


def short(s, n=160):
    s = str(s)
    if len(s) <= n:
        return s
    return s[:n - 20] + '…#' + hashlib.sha1(
        s.encode('utf-8', 'surrogatepass')).hexdigest()[:12]


class Ctx:
    """Per-shard recorder handed to a check's ``run_shard``."""

    def __init__(self, prop, tier, known, shard=None):
        self.prop = prop
        self.tier = tier
        self.known = known
        self.shard = shard
        self.evaluations = 0
        self.nontrivial = 0
        self.digest = 0
        self.obs = set()
        self.skipped = collections.Counter()
        self.samples = []
        self.known_hits = {}      # id -> [count, example]
        self.unmatched = {}       # group -> [count, [examples]]
        self.counters = collections.Counter()
        self.keys_seen = 0
        self.failed_keys = set()

    # -- recording -------------------------------------------------------
    def _dump(self, key, got):
        if _DUMP:
            with open('%s.%d' % (_DUMP, os.getpid()), 'a') as fp:
                fp.write('%s\t%s\n' % (key, got))

    def ok(self, key, got, nontrivial=True):
        self._dump(key, got)
        self.evaluations += 1
        if nontrivial:
            self.nontrivial += 1
        self.digest = (self.digest + h64(key + '\0' + got)) & (2 ** 64 - 1)
        if len(self.obs) < 50000:
            self.obs.add(h64(got))

    def fail(self, key, tags, inputs, want, got, nontrivial=True, note=None):
        """An executed case whose observation contradicts the oracle."""
        self._dump(key, got)
        self.evaluations += 1
        if nontrivial:
            self.nontrivial += 1
        self.digest = (self.digest + h64(key + '\0' + got)) & (2 ** 64 - 1)
        if len(self.obs) < 50000:
            self.obs.add(h64(got))
        sig = 'want=%s got=%s' % (short(want), short(got))
        tags = tuple(tags)
        for f in self.known:
            if f.matches(key, tags, sig):
                hit = self.known_hits.setdefault(f.id, [0, None])
                hit[0] += 1
                if hit[1] is None:
                    hit[1] = {'key': key, 'sig': sig}
                return
        if len(self.failed_keys) < 200000:
            self.failed_keys.add(key)
        group = (tuple(sorted(t for t in tags
                              if not t.startswith(GROUP_IGNORE))),
                 generalise(sig))
        g = self.unmatched.setdefault(group, [0, []])
        g[0] += 1
        if len(g[1]) < MAX_UNMATCHED_PER_GROUP:
            g[1].append({'key': key, 'tags': list(tags), 'inputs': inputs,
                         'want': want, 'got': got, 'sig': sig, 'note': note,
                         'shard': self.shard, 'tier': self.tier})

    def check(self, key, got, want, tags=(), inputs=None, nontrivial=True,
              note=None):
        if got == want:
            self.ok(key, got, nontrivial)
            return True
        self.fail(key, tags, inputs, want, got, nontrivial, note)
        return False

    def skip(self, reason, n=1):
        self.skipped[reason] += n

    def sample(self, case):
        if len(self.samples) < 4:
            self.samples.append(case)

    def count(self, name, n=1):
        self.counters[name] += n

    def result(self):
        return {
            'evaluations': self.evaluations, 'nontrivial': self.nontrivial,
            'digest': self.digest, 'obs': list(self.obs),
            'skipped': dict(self.skipped), 'samples': self.samples,
            'known_hits': self.known_hits,
            'unmatched': [(list(k[0]), k[1], v[0], v[1])
                          for k, v in self.unmatched.items()],
            'counters': dict(self.counters),
        }


def generalise(sig):
    """Group key of a failure: numbers and payloads are abstracted so that one
    defect yields one group, not thousands."""
    import re
    s = re.sub(r'num:-?[0-9.e+\-inf]+', 'num:N', sig)
    s = re.sub(r'bool:(True|False)', 'bool:B', s)
    s = re.sub(r'text:.*?(?= got=|$)', 'text:T', s)
    s = re.sub(r'date:[0-9+s]+', 'date:D', s)
    s = re.sub(r'array:\[.*?\](?= got=|$)', 'array:A', s)
    return s


# -- worker side ---------------------------------------------------------
_W = {}


def _init_worker(modname, prop, tier):
    _W['mod'] = importlib.import_module(modname)
    _W['known'] = findings_mod.for_property(prop)
    _W['prop'] = prop
    _W['tier'] = tier
    sys.setrecursionlimit(3000)
    import resource
    lim = int(getattr(_W['mod'], 'WORKER_MEM_GB', 4) * 2 ** 30)
    resource.setrlimit(resource.RLIMIT_AS, (lim, lim))
    init = getattr(_W['mod'], 'init_worker', None)
    if init:
        init(tier)


def _run_shard(args):
    idx, shard = args
    ctx = Ctx(_W['prop'], _W['tier'], _W['known'], shard)
    _W['seq'] = _W.get('seq', 0) + 1
    try:
        _W['mod'].run_shard(shard, ctx)
    except BaseException as exc:  # noqa: BLE001
        if type(exc).__name__ != 'CaseTimeout':
            return idx, {'harness_error': traceback.format_exc(),
                         'shard': repr(shard)[:300]}
        # A per-case alarm that went off a second time while the first
        # time-out was still unwinding (code under test that takes longer
        # than the alarm's repeat interval to give up): the library did not
        # answer in time, which is an observation, not a harness failure.
        import signal
        signal.setitimer(signal.ITIMER_REAL, 0)
        ctx.fail('%s/shard-abandoned-on-late-timeout/%s' % (
            _W['prop'], h64(repr(shard))), ['late-timeout'],
            {'kind': 'shard', 'shard': shard},
            'every case answers within its time limit', 'timeout', True)
    res = ctx.result()
    # which worker process ran this shard, and as its how-manyth: the
    # counterexample of a failure that depends on what the LIBRARY did before
    # in the same process is the worker's history up to this shard
    res['worker'] = [os.getpid(), _W['seq']]
    return idx, res


# -- main side -----------------------------------------------------------
def run(modname, prop, tier, seed, jobs):
    t0 = time.time()
    mod = importlib.import_module(modname)
    st = getattr(mod, 'selftest', None)
    if st:
        st()
    shards = list(mod.plan(tier))
    order = list(range(len(shards)))
    random.Random(seed).shuffle(order)
    # heavy shards first (stable: the seed still permutes equal weights)
    order.sort(key=lambda i: -(shards[i].get('weight', 0)
                               if isinstance(shards[i], dict) else 0))
    jobs = max(1, min(jobs, len(shards)))
    results = [None] * len(shards)
    ctxmp = multiprocessing.get_context('fork')
    with concurrent.futures.ProcessPoolExecutor(
            max_workers=jobs, mp_context=ctxmp, initializer=_init_worker,
            initargs=(modname, prop, tier)) as pool:
        try:
            for idx, res in pool.map(_run_shard,
                                     [(i, shards[i]) for i in order],
                                     chunksize=1):
                results[idx] = res
        except concurrent.futures.process.BrokenProcessPool as exc:
            raise HarnessError('worker process died: %s' % exc)
    for res in results:
        if 'harness_error' in res:
            raise HarnessError('shard %s failed:\n%s'
                               % (res['shard'], res['harness_error']))
    return aggregate(mod, prop, tier, seed, shards, results, t0)


def aggregate(mod, prop, tier, seed, shards, results, t0):
    tot = collections.Counter()
    obs = set()
    skipped = collections.Counter()
    counters = collections.Counter()
    digest = 0
    known_hits = {}
    groups = {}
    samples = []
    rnd = random.Random(seed)
    by_worker = collections.defaultdict(list)
    for i, res in enumerate(results):
        pid, seq = res.get('worker', (0, i))
        by_worker[pid].append((seq, i))
        for tags, gsig, n, examples in res['unmatched']:
            for ex in examples:
                ex['worker'] = [pid, seq]
    for res in results:
        tot['evaluations'] += res['evaluations']
        tot['nontrivial'] += res['nontrivial']
        digest = (digest + res['digest']) & (2 ** 64 - 1)
        obs.update(res['obs'])
        skipped.update(res['skipped'])
        counters.update(res['counters'])
        for fid, (n, ex) in res['known_hits'].items():
            hit = known_hits.setdefault(fid, [0, ex])
            hit[0] += n
        for tags, gsig, n, examples in res['unmatched']:
            g = groups.setdefault((tuple(tags), gsig), [0, []])
            g[0] += n
            if len(g[1]) < MAX_UNMATCHED_PER_GROUP:
                g[1].extend(examples[:MAX_UNMATCHED_PER_GROUP - len(g[1])])
    with_samples = [r for r in results if r['samples']]
    rnd.shuffle(with_samples)
    for r in with_samples[:6]:
        samples.extend(r['samples'][:2])
    known = findings_mod.for_property(prop)
    lines = []
    for f in known:
        if f.id in known_hits:
            n, ex = known_hits[f.id]
            lines.append('KNOWN-FINDING: property=%s id=%s (%d cases) %s '
                         '[e.g. %s]' % (prop, f.id, n, f.desc,
                                        short(ex['key'], 120)))
    stale = [f.id for f in known if f.id not in known_hits]
    # violations
    violation_files = []
    os.makedirs(os.path.join(REPLAY_DIR, prop), exist_ok=True)
    ordered = sorted(groups.items(), key=lambda kv: (kv[0][1], kv[0][0]))
    n_viol = sum(g[0] for g in groups.values())
    for (tags, gsig), (n, examples) in ordered[:MAX_GROUPS_REPORTED]:
        ex = examples[0]
        path = write_replay(prop, ex, n)
        violation_files.append((path, ex, n))
    # a violation must reproduce in a fresh interpreter
    unconfirmed = []
    if violation_files and os.environ.get('XLMC_NO_REVERIFY') != '1':
        for path, ex, n in violation_files[:MAX_REVERIFY]:
            rc = subprocess.run(
                [sys.executable, '-m', 'xlmc.cli', prop, '--replay', path,
                 '--quiet'],
                cwd=VERIF, env=dict(os.environ, PYTHONHASHSEED='1',
                                    XLMC_NO_REVERIFY='1',
                                    XLMC_REPLAY_MASK_KNOWN='1'),
                stdout=subprocess.DEVNULL, stderr=subprocess.DEVNULL).returncode
            if rc != 1:
                # The single case passes on its own.  If the whole shard, run
                # again in a fresh interpreter, fails on the same case, the
                # outcome depends on what the LIBRARY did earlier in the same
                # process (a process-wide cache, say): that is a property of
                # the code under test, and the shard is the counterexample.
                ex['replay_as'] = 'shard'
                write_replay(prop, ex, n)
                rc2 = subprocess.run(
                    [sys.executable, '-m', 'xlmc.cli', prop, '--replay', path,
                     '--quiet'],
                    cwd=VERIF, env=dict(os.environ, PYTHONHASHSEED='1',
                                        XLMC_NO_REVERIFY='1',
                                        XLMC_REPLAY_MASK_KNOWN='1'),
                    stdout=subprocess.DEVNULL,
                    stderr=subprocess.DEVNULL).returncode
                if rc2 != 1 and ex.get('worker'):
                    # Third attempt: everything the worker process had run
                    # before this shard, in its order, in a fresh interpreter.
                    pid, seq = ex['worker']
                    ex['replay_as'] = 'worker-history'
                    ex['history'] = [shards[i] for q, i in
                                     sorted(by_worker[pid]) if q <= seq]
                    write_replay(prop, ex, n)
                    rc2 = subprocess.run(
                        [sys.executable, '-m', 'xlmc.cli', prop, '--replay',
                         path, '--quiet'],
                        cwd=VERIF, env=dict(os.environ, PYTHONHASHSEED='1',
                                            XLMC_NO_REVERIFY='1',
                                            XLMC_REPLAY_MASK_KNOWN='1'),
                        stdout=subprocess.DEVNULL,
                        stderr=subprocess.DEVNULL).returncode
                if rc2 != 1:
                    unconfirmed.append((path, ex, n, rc, rc2))
        confirmed = [v for v in violation_files
                     if v[0] not in {u[0] for u in unconfirmed}]
        if unconfirmed and not confirmed:
            path, ex, n, rc, rc2 = unconfirmed[0]
            raise HarnessError(
                'case %s failed in the exploration but neither when '
                'replayed alone (rc=%s) nor when its shard - or all the '
                'shards its worker process had run before - were run '
                'again in a fresh interpreter (rc=%s): '
                'nondeterministic case; replay=%s'
                % (ex['key'], rc, rc2, path))
        # Some violations are confirmed: they are the verdict.  A failure that
        # only shows after other shards ran in the same worker process (state
        # the library keeps process-wide) is listed as a remark.
        violation_files = confirmed
        for path, ex, n, rc, rc2 in unconfirmed:
            lines.append('# not reproduced outside its worker process (%d '
                         'case(s) like %s %s): depends on what the process '
                         'had evaluated before' % (
                             n, short(ex['key'], 120), short(ex['sig'], 120)))
    for path, ex, n in violation_files:
        lines.append('VIOLATION property=%s replay=%s  # %d case(s) like: %s %s'
                     % (prop, path, n, short(ex['key'], 140),
                        short(ex['sig'], 160)))
    if os.environ.get('XLMC_VERBOSE') == '1':
        for (tags, gsig), (n, examples) in ordered:
            lines.append('# group n=%d tags=%s sig=%s e.g. %s %s' % (
                n, ','.join(tags), gsig, short(examples[0]['key'], 100),
                short(examples[0]['sig'], 100)))
    if len(ordered) > MAX_GROUPS_REPORTED:
        lines.append('# %d further violation groups not listed'
                     % (len(ordered) - MAX_GROUPS_REPORTED))
    wall = time.time() - t0
    level = getattr(mod, 'LEVEL', 'exploration')
    cov = {
        'evaluations': tot['evaluations'],
        'distinct_nontrivial': tot['nontrivial'],
        'rule': mod.RULE if isinstance(mod.RULE, str) else mod.RULE[tier],
        'samples': samples[:8] or [{'note': 'no sample recorded'}],
        'exhaustive': bool(getattr(mod, 'EXHAUSTIVE', True)),
        'shards': len(shards),
        'distinct_observations': len(obs),
        'skipped_out_of_scope': dict(skipped),
        'known_findings': {k: v[0] for k, v in known_hits.items()},
        'stale_findings': stale,
        'digest': '%016x' % digest,
        'bounds': (mod.BOUNDS.get(tier) if hasattr(mod, 'BOUNDS') else None),
        'violation_groups': len(groups),
    }
    for k, v in counters.items():
        cov[k] = v
    if level == 'model_checking':
        cov.setdefault('states', counters.get('states', 0))
        cov.setdefault('transitions', counters.get('transitions', 0))
        cov.setdefault('traces_validated_against_impl',
                       counters.get('traces_validated_against_impl',
                                    counters.get('transitions', 0)))
    extra = getattr(mod, 'extra_coverage', None)
    if extra:
        cov.update(extra(tier, counters))
    evidence = {
        'property_id': prop, 'tier': tier, 'seed': seed, 'level': level,
        'coverage': cov,
        'assumptions': list(getattr(mod, 'ASSUMPTIONS', [])),
        'wall_s': round(wall, 3), 'violations': n_viol,
        'repo': os.environ.get('XLMC_REPO', '/repo'),
    }
    if os.environ.get('XLMC_NO_EVIDENCE') != '1':
        os.makedirs(EVIDENCE_DIR, exist_ok=True)
        tmp = os.path.join(EVIDENCE_DIR, '.%s.json.tmp' % prop)
        with open(tmp, 'w') as fp:
            json.dump(evidence, fp, indent=1, sort_keys=True, default=str)
            fp.write('\n')
        os.replace(tmp, os.path.join(EVIDENCE_DIR, '%s.json' % prop))
    return evidence, lines, n_viol


def write_replay(prop, ex, n):
    name = hashlib.sha1(ex['key'].encode('utf-8', 'surrogatepass')).hexdigest()[:16]
    path = os.path.join(REPLAY_DIR, prop, name + '.json')
    doc = dict(ex)
    doc['property'] = prop
    doc['cases_in_group'] = n
    with open(path, 'w') as fp:
        json.dump(doc, fp, indent=1, sort_keys=True, default=str)
        fp.write('\n')
    return path


def replay(modname, prop, path, quiet=False):
    mod = importlib.import_module(modname)
    with open(path) as fp:
        doc = json.load(fp)
    init = getattr(mod, 'init_worker', None)
    if init:
        init('quick')
    # Known findings do not mask the replay of a single case asked for by a
    # user.  They do when the runner confirms a violation (a case that only
    # shows a listed finding when run alone has not been reproduced) and in a
    # shard replay (where every case of the shard runs again).
    mask = (os.environ.get('XLMC_REPLAY_MASK_KNOWN') == '1'
            or doc.get('replay_as') in ('shard', 'worker-history'))
    ctx = Ctx(prop, doc.get('tier') or 'quick',
              findings_mod.for_property(prop) if mask else [])
    if doc.get('replay_as') in ('shard', 'worker-history'):
        # history-dependent failure: the counterexample is the shard (or the
        # sequence of shards its worker process had run), the verdict is
        # whether the recorded case fails in it again
        sys.setrecursionlimit(3000)
        for sh in (doc['history'] if doc.get('replay_as') == 'worker-history'
                   else [doc['shard']]):
            mod.run_shard(sh, ctx)
        again = [ex for v in ctx.unmatched.values() for ex in v[1]
                 if ex['key'] == doc['key']]
        hit = any(k == doc['key'] for v in ctx.unmatched.values()
                  for k in [e['key'] for e in v[1]]) or bool(again)
        if not hit:
            # the example list per group is capped: look at all failures
            hit = doc['key'] in getattr(ctx, 'failed_keys', ())
        if not quiet:
            print('shard replay evaluations=%d target-failed=%s'
                  % (ctx.evaluations, hit))
        if hit and not quiet:
            print('VIOLATION property=%s replay=%s' % (prop, path))
        return 1 if hit else 0
    mod.replay(doc['inputs'], ctx)
    bad = sum(v[0] for v in ctx.unmatched.values())
    if not quiet:
        for (tags, gsig), (n, examples) in ctx.unmatched.items():
            for ex in examples:
                print('replayed %s: %s' % (ex['key'], ex['sig']))
        print('replay evaluations=%d failing=%d' % (ctx.evaluations, bad))
    if bad:
        if not quiet:
            print('VIOLATION property=%s replay=%s' % (prop, path))
        return 1
    return 0
